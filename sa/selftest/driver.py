"""Thorough tier: in-memory mutants of /repo's current source.

Each mutant is a single textual edit (old -> new, must match exactly once in the named file) applied to an overlay of
the source model; nothing is written to disk and nothing is executed.  `expect` names the rule(s) that must report a
NEW violation (relative to the clean tree); `expect == "silent"` marks behaviour-preserving variants on which the
property's rules must neither fire nor lose their anchors.  An edit whose `old` text is no longer present is counted
as stale (the tree changed), never as a failure of the property.
"""
import os
import random
from concurrent.futures import ProcessPoolExecutor

from ..engine.core import Model, AnalysisError
from ..engine import runner


def _apply(text, old, new, count=1):
    n = text.count(old)
    if n != count:
        return None
    return text.replace(old, new)


def apply_unified_diff(patch_text, read):
    """Apply a git unified diff in memory. `read(rel)` returns the current text of a file. Returns {rel: new text} or
    None when some hunk's old side is not found exactly once near its stated position (the tree moved on: stale)."""
    files = {}
    cur = None
    hunks = []
    for line in patch_text.splitlines():
        if line.startswith("+++ "):
            path = line[4:].strip()
            cur = path[2:] if path.startswith("b/") else path
            files[cur] = []
        elif line.startswith("--- ") or line.startswith("diff ") or line.startswith("index ") or line.startswith("new file") \
                or line.startswith("deleted file") or line.startswith("similarity") or line.startswith("rename "):
            continue
        elif line.startswith("@@") and cur is not None:
            import re
            mh = re.match(r"@@ -(\d+)", line)
            files[cur].append(["@" + (mh.group(1) if mh else "0")])
        elif cur is not None and files[cur] and (line[:1] in " +-" or line == ""):
            files[cur][-1].append(line if line else " ")
        elif line.startswith("\\"):
            continue
    out = {}
    for rel, hs in files.items():
        if rel == "/dev/null":
            return None
        try:
            text = read(rel)
        except Exception:
            return None
        for h in hs:
            at, h = int(h[0][1:]), h[1:]
            old = "".join(l[1:] + "\n" for l in h if l[0] in " -")
            new = "".join(l[1:] + "\n" for l in h if l[0] in " +")
            if text.count(old) == 1:
                text = text.replace(old, new)
                continue
            if text.count(old) == 0 or not old:
                return None
            # several identical fragments (sibling classes): take the occurrence nearest to the stated line
            pos, best = -1, None
            while True:
                pos = text.find(old, pos + 1)
                if pos < 0:
                    break
                if not (pos == 0 or text[pos - 1] == "\n"):
                    continue
                line_no = text.count("\n", 0, pos) + 1
                if best is None or abs(line_no - at) < abs(best[1] - at):
                    best = (pos, line_no)
            if best is None:
                return None
            text = text[:best[0]] + new + text[best[0] + len(old):]
        out[rel] = text
    return out


def corpus_mutants(prop):
    """seeded (must fire) and benign (must stay silent) patches committed under /verif, as overlay mutants"""
    import json
    root = os.path.dirname(os.path.dirname(os.path.dirname(os.path.abspath(__file__))))
    out = []
    res = {}
    try:
        res = {r["seed"]: r for r in json.load(open(os.path.join(root, "seeded", "RESULTS.json")))}
    except Exception:
        pass
    sd = os.path.join(root, "seeded")
    for sid in sorted(os.listdir(sd)) if os.path.isdir(sd) else []:
        pf = os.path.join(sd, sid, "patch.diff")
        if not os.path.exists(pf) or sid not in res:
            continue
        firing = [p for p, _ in res[sid].get("fired", [])]
        if prop in firing and res[sid].get("evaluated_on") == "/repo":
            out.append({"id": f"seed-{sid}", "patch": open(pf).read(), "expect": "any", "props": [prop]})
    bd = os.path.join(root, "benign")
    bres = {}
    try:
        bres = {r["id"]: r for r in json.load(open(os.path.join(bd, "RESULTS.json")))}
    except Exception:
        pass
    for bid in sorted(os.listdir(bd)) if os.path.isdir(bd) else []:
        pf = os.path.join(bd, bid, "patch.diff")
        if not os.path.exists(pf):
            continue
        # a benign patch is relevant to the property it was written for, and must be silent there
        if bid.split("-")[0] == prop and bres.get(bid, {}).get("status") == "silent":
            out.append({"id": f"benign-{bid}", "patch": open(pf).read(), "expect": "silent", "props": [prop]})
    return out


def _run_one(args):
    prop, mut = args
    base = Model()
    if "patch" in mut:
        overlay = apply_unified_diff(mut["patch"], base.text)
        if overlay is None:
            return mut["id"], "stale", [], []
        try:
            mod, ctx, errors = runner.run_rules(prop, Model(overlay=overlay))
        except Exception as e:  # pragma: no cover
            return mut["id"], "error", [], [f"{type(e).__name__}: {e}"]
        return mut["id"], "ran", ctx.keys(), errors
    overlay0 = {}
    if mut.get("base"):
        # a behaviour-preserving refactoring from the benign corpus is applied first; the edit then breaks the refactored code
        root = os.path.dirname(os.path.dirname(os.path.dirname(os.path.abspath(__file__))))
        try:
            overlay0 = apply_unified_diff(open(os.path.join(root, "benign", mut["base"], "patch.diff")).read(), base.text)
        except OSError:
            overlay0 = None
        if overlay0 is None:
            return mut["id"], "stale", [], []
    try:
        text = overlay0.get(mut["file"]) or base.text(mut["file"])
    except AnalysisError:
        return mut["id"], "stale", [], []
    edits = mut.get("edits") or [(mut["old"], mut["new"])]
    for old, new in edits:
        text2 = _apply(text, old, new, mut.get("count", 1))
        if text2 is None:
            return mut["id"], "stale", [], []
        text = text2
    ov = dict(overlay0)
    ov[mut["file"]] = text
    model = Model(overlay=ov)
    try:
        mod, ctx, errors = runner.run_rules(prop, model)
    except Exception as e:  # pragma: no cover
        return mut["id"], "error", [], [f"{type(e).__name__}: {e}"]
    return mut["id"], "ran", ctx.keys(), errors


def run_selftest(prop, seed=0):
    from .mutants import MUTANTS
    muts = [m for m in MUTANTS if prop in m["props"]] + corpus_mutants(prop)
    rnd = random.Random(seed)
    rnd.shuffle(muts)
    clean_mod, clean_ctx, clean_err = runner.run_rules(prop, Model())
    clean = set(clean_ctx.keys())
    results = {}
    if muts:
        workers = min(16, max(1, os.cpu_count() or 1), len(muts))
        with ProcessPoolExecutor(max_workers=workers) as ex:
            for mid, status, keys, errors in ex.map(_run_one, [(prop, m) for m in muts]):
                results[mid] = (status, keys, errors)
    out = {"mutants_total": 0, "mutants_applied": 0, "mutants_detected": 0, "benign_total": 0, "benign_applied": 0,
           "benign_silent": 0, "stale": 0, "misses": [], "detected": [], "clean_analysis_errors": clean_err}
    for m in muts:
        status, keys, errors = results[m["id"]]
        benign = m["expect"] == "silent"
        out["benign_total" if benign else "mutants_total"] += 1
        if status == "stale":
            out["stale"] += 1
            out.setdefault("stale_ids", []).append(m["id"])
            continue
        new = sorted(set(keys) - clean)
        if benign:
            out["benign_applied"] += 1
            if not new and not errors and status == "ran":
                out["benign_silent"] += 1
            else:
                out["misses"].append(f"benign variant {m['id']} not silent: new={new} errors={errors[:1]}")
        else:
            out["mutants_applied"] += 1
            want = m["expect"] if isinstance(m["expect"], (list, tuple)) else [m["expect"]]
            hit = [k for k in new if want == ["any"] or any(k.startswith(w + "|") or k.split("|")[0] == w for w in want)]
            if hit:
                out["mutants_detected"] += 1
                out["detected"].append({"id": m["id"], "fired": hit[:3]})
            elif any("defined after the rules were written" in e or "differs from the source the rules were written against" in e
                     or "an expression spelt differently" in e for e in errors):
                # the edited code relies on definitions the rules do not know (a refactored-then-broken variant): the check
                # fails closed (exit 2) instead of naming a violation — counted apart, not as a miss
                out["fail_closed"] = out.get("fail_closed", 0) + 1
                out.setdefault("fail_closed_ids", []).append(m["id"])
            else:
                out["misses"].append(f"mutant {m['id']} expected {want}, got new={new[:4]} errors={[e[:80] for e in errors[:1]]}")
    out["detected"] = out["detected"][:40]
    return out
