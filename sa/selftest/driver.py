"""Thorough tier: in-memory mutants of /repo's current source.

Each mutant is a single textual edit (old -> new, must match exactly once in the named file) applied to an overlay of
the source model; nothing is written to disk and nothing is executed.  `expect` names the rule(s) that must report a
NEW violation (relative to the clean tree); `expect == "silent"` marks behaviour-preserving variants on which the
property's rules must neither fire nor lose their anchors.  An edit whose `old` text is no longer present is counted
as stale (the tree changed), never as a failure of the property.
"""
import os
import random
from concurrent.futures import ProcessPoolExecutor

from ..engine.core import Model, AnalysisError
from ..engine import runner


def _apply(text, old, new, count=1):
    n = text.count(old)
    if n != count:
        return None
    return text.replace(old, new)


def _run_one(args):
    prop, mut = args
    base = Model()
    try:
        text = base.text(mut["file"])
    except AnalysisError:
        return mut["id"], "stale", [], []
    edits = mut.get("edits") or [(mut["old"], mut["new"])]
    for old, new in edits:
        text2 = _apply(text, old, new, mut.get("count", 1))
        if text2 is None:
            return mut["id"], "stale", [], []
        text = text2
    model = Model(overlay={mut["file"]: text})
    try:
        mod, ctx, errors = runner.run_rules(prop, model)
    except Exception as e:  # pragma: no cover
        return mut["id"], "error", [], [f"{type(e).__name__}: {e}"]
    return mut["id"], "ran", ctx.keys(), errors


def run_selftest(prop, seed=0):
    from .mutants import MUTANTS
    muts = [m for m in MUTANTS if prop in m["props"]]
    rnd = random.Random(seed)
    rnd.shuffle(muts)
    clean_mod, clean_ctx, clean_err = runner.run_rules(prop, Model())
    clean = set(clean_ctx.keys())
    results = {}
    if muts:
        workers = min(16, max(1, os.cpu_count() or 1), len(muts))
        with ProcessPoolExecutor(max_workers=workers) as ex:
            for mid, status, keys, errors in ex.map(_run_one, [(prop, m) for m in muts]):
                results[mid] = (status, keys, errors)
    out = {"mutants_total": 0, "mutants_applied": 0, "mutants_detected": 0, "benign_total": 0, "benign_applied": 0,
           "benign_silent": 0, "stale": 0, "misses": [], "detected": [], "clean_analysis_errors": clean_err}
    for m in muts:
        status, keys, errors = results[m["id"]]
        benign = m["expect"] == "silent"
        out["benign_total" if benign else "mutants_total"] += 1
        if status == "stale":
            out["stale"] += 1
            out.setdefault("stale_ids", []).append(m["id"])
            continue
        new = sorted(set(keys) - clean)
        if benign:
            out["benign_applied"] += 1
            if not new and not errors and status == "ran":
                out["benign_silent"] += 1
            else:
                out["misses"].append(f"benign variant {m['id']} not silent: new={new} errors={errors[:1]}")
        else:
            out["mutants_applied"] += 1
            want = m["expect"] if isinstance(m["expect"], (list, tuple)) else [m["expect"]]
            hit = [k for k in new if any(k.startswith(w + "|") or k.split("|")[0] == w for w in want)]
            if hit:
                out["mutants_detected"] += 1
                out["detected"].append({"id": m["id"], "fired": hit[:3]})
            else:
                out["misses"].append(f"mutant {m['id']} expected {want}, got new={new[:4]} errors={[e[:80] for e in errors[:1]]}")
    out["detected"] = out["detected"][:40]
    return out
