"""Self-test catalogue: single textual edits of /repo's current source, analysed in memory (never written to disk).

expect: rule id (or list) that must report a NEW violation; "silent" for behaviour-preserving variants.
"""
PYRTL = "amaranth/sim/_pyrtl.py"
PYEVAL = "amaranth/sim/_pyeval.py"
AST = "amaranth/hdl/_ast.py"
IR = "amaranth/hdl/_ir.py"
NIR = "amaranth/hdl/_nir.py"
RTLIL = "amaranth/back/rtlil.py"
XFRM = "amaranth/hdl/_xfrm.py"
ASYNC = "amaranth/sim/_async.py"
PYSIM = "amaranth/sim/pysim.py"

MUTANTS = []


def M(id, props, file, old, new, expect, count=1, base=None):
    MUTANTS.append({"id": id, "props": props, "file": file, "old": old, "new": new, "expect": expect, "count": count,
                    "base": base})


# ------------------------------------------------------------------------------------------------ C01 / C05
M("c01-pyrtl-add-as-sub", ["C01"], PYRTL,
  'return f"({sign(lhs)} + {sign(rhs)})"', 'return f"({sign(lhs)} - {sign(rhs)})"', "R-01b")
M("c01-pyrtl-sub-swapped", ["C01"], PYRTL,
  'return f"({sign(lhs)} - {sign(rhs)})"', 'return f"({sign(rhs)} - {sign(lhs)})"', "R-01b")
M("c01-pyrtl-lt-raw-rhs", ["C01"], PYRTL,
  'return f"({sign(lhs)} < {sign(rhs)})"', 'return f"({sign(lhs)} < {self(rhs)})"', "R-01c")
M("c01-pyrtl-rand-raw", ["C01"], PYRTL,
  'return f"({(1 << len(arg)) - 1} == {mask(arg)})"', 'return f"({(1 << len(arg)) - 1} == {self(arg)})"', "R-01c")
M("c01-pyrtl-neg-mask-not-sign", ["C01"], PYRTL,
  'return f"(-{sign(arg)})"', 'return f"(-{self(arg)})"', "R-01c")
M("c01-pyrtl-part-raw", ["C01"], PYRTL,
  'f"{self.sign(value.value)} >> {offset})"', 'f"{self(value.value)} >> {offset})"', "R-01c")
M("c01-pyrtl-concat-mask-dropped", ["C01"], PYRTL,
  'gen_parts.append(f"(({part_mask:#x} & {self(part)}) << {offset})")',
  'gen_parts.append(f"({self(part)} << {offset})")', "R-01c")
M("c01-pyrtl-zdiv-no-guard", ["C01"], PYRTL,
  '"zdiv": lambda lhs, rhs: 0 if rhs == 0 else lhs // rhs,', '"zdiv": lambda lhs, rhs: 0 if lhs == 0 else lhs // rhs,', "R-01b")
M("c01-pyrtl-drop-shl", ["C01"], PYRTL,
  '            if value.operator == "<<":\n                return f"({sign(lhs)} << {sign(rhs)})"\n', '', "R-01a")
M("c01-pyrtl-concat-offset-before", ["C01"], PYRTL,
  '            gen_parts.append(f"(({part_mask:#x} & {self(part)}) << {offset})")\n            offset += len(part)',
  '            offset += len(part)\n            gen_parts.append(f"(({part_mask:#x} & {self(part)}) << {offset})")', "R-01h")
M("c01-pyeval-not-mask-dropped", ["C01", "C05"], PYEVAL,
  'return ~op_a & ((1 << shape.width) - 1)', 'return ~op_a', "R-01d")
M("c01-pyeval-mod-guard-dropped", ["C01", "C05"], PYEVAL,
  '                if op_b == 0:\n                    return 0\n                return op_a % op_b', '                return op_a % op_b', "R-01b")
M("c01-pyeval-ge-as-gt", ["C01", "C05"], PYEVAL,
  'return int(op_a >= op_b)', 'return int(op_a > op_b)', "R-01b")
# (v | -1 << W) equals (v | -1 << (W-1)) when bit W-1 of v is set: behaviour preserving, must stay silent
M("c01-benign-pyeval-s-fold-at-w", ["C01", "C05"], PYEVAL,
  'res |= -1 << (width - 1)', 'res |= -1 << width', "silent")
M("c01-pyeval-s-fold-wrong-bit", ["C01", "C05"], PYEVAL,
  'res |= -1 << (width - 1)', 'res |= -1 << (width + 1)', "R-01d")
M("c01-pyeval-s-test-wrong-bit", ["C01", "C05"], PYEVAL,
  'if value.operator == "s" and res & (1 << (width - 1)):', 'if value.operator == "s" and res & (1 << width):', "R-01d")
M("c01-benign-pyeval-mask-spelling", ["C01", "C05"], PYEVAL,
  '        return res & ((1 << width) - 1)\n    elif isinstance(value, Part):', '        return res & ~(-1 << width)\n    elif isinstance(value, Part):', "silent")
M("c01-pyeval-slice-no-shift", ["C01", "C05"], PYEVAL,
  '        res >>= value.start\n        width = value.stop - value.start', '        width = value.stop - value.start', "R-01d")
M("c01-pyeval-part-stride-dropped", ["C01", "C05"], PYEVAL,
  '        offset = eval_value(sim, value.offset)\n        offset *= value.stride\n        res >>= offset',
  '        offset = eval_value(sim, value.offset)\n        res >>= offset', "R-01j")
M("c01-pyeval-concat-unmasked", ["C01", "C05"], PYEVAL,
  '            part &= (1 << width) - 1\n', '', "R-01d")
M("c01-pyeval-matches-dash-as-one", ["C01", "C05"], PYEVAL,
  'mask  = int("0" + "".join("0" if b == "-" else "1" for b in pattern), 2)',
  'mask  = int("0" + "".join("1" if b == "-" else "1" for b in pattern), 2)', "R-01g")
M("c01-pyeval-matches-empty-pattern-regressed", ["C01", "C05"], PYEVAL,
  'mask  = int("0" + "".join("0" if b == "-" else "1" for b in pattern), 2)',
  'mask  = int("".join("0" if b == "-" else "1" for b in pattern), 2)', "R-01g")
M("c01-ast-matches-mask", ["C01"], AST,
  'mask    = int("0" + pattern.replace("0", "1").replace("-", "0"), 2)',
  'mask    = int("0" + pattern.replace("-", "0"), 2)', "R-01g")
# R-01e / R-01f / R-01i: result shapes, operator overloads, derived operators
M("c01-shape-mul-max", ["C01"], AST,
  'return Shape(a_shape.width + b_shape.width, a_shape.signed or b_shape.signed)',
  'return Shape(max(a_shape.width, b_shape.width), a_shape.signed or b_shape.signed)', "R-01e")
M("c01-shape-floordiv-no-sign-bit", ["C01"], AST,
  'return Shape(a_shape.width + b_shape.signed, a_shape.signed or b_shape.signed)',
  'return Shape(a_shape.width, a_shape.signed or b_shape.signed)', "R-01e")
M("c01-shape-unify-no-zero-bit", ["C01"], AST,
  'return signed(max(signed_width, unsigned_width + 1))', 'return signed(max(signed_width, unsigned_width))', "R-01e")
M("c01-shape-neg-width", ["C01"], AST,
  'return Shape(a_shape.width + 1, True)', 'return Shape(a_shape.width, True)', "R-01e")
M("c01-shape-shl-off-by-one", ["C01"], AST,
  'return Shape(a_shape.width + 2 ** b_shape.width - 1, a_shape.signed)',
  'return Shape(a_shape.width + 2 ** b_shape.width, a_shape.signed)', "R-01e")
M("c01-shape-sub-unsigned", ["C01"], AST,
  """                o_shape = Shape._unify(op_shapes)
                return Shape(o_shape.width + 1, True)""",
  """                o_shape = Shape._unify(op_shapes)
                return Shape(o_shape.width + 1, o_shape.signed)""", "R-01e")
M("c01-shape-mod-lhs", ["C01"], AST,
  'return Shape(b_shape.width, b_shape.signed)', 'return Shape(a_shape.width, a_shape.signed)', "R-01e")
M("c01-dunder-rsub-swapped", ["C01"], AST,
  'return Operator("-", [other, self])', 'return Operator("-", [self, other])', "R-01f")
M("c01-dunder-radd-wrong-op", ["C01"], AST,
  'return Operator("+", [other, self])', 'return Operator("-", [other, self])', "R-01f")
M("c01-bit-select-fold-stride", ["C01"], AST,
  'return self[offset.value:offset.value + width]', 'return self[offset.value * width:offset.value * width + width]', "R-01i")
M("c01-word-select-fold-off-by-one", ["C01"], AST,
  'return self[offset.value * width:(offset.value + 1) * width]', 'return self[offset.value * width:(offset.value + 1) * width + 1]', "R-01i")
M("c01-shift-left-sign-lost", ["C01"], AST,
  'return Cat(Const(0, amount), self).as_signed()', 'return Cat(Const(0, amount), self)', "R-01i")
M("c01-rotate-right-mirrored", ["C01"], AST,
  'return Cat(self[amount:], self[:amount])', 'return Cat(self[:amount], self[amount:])', "R-01i")
M("c01-shift-right-clamp-dropped", ["C01"], AST,
  '                amount = len(self) - 1', '                amount = len(self)', "R-01i")
M("c01-benign-word-select-fold-refactor", ["C01"], AST,
  'return self[offset.value * width:(offset.value + 1) * width]', 'return self[width * offset.value:width * offset.value + width]', "silent")
M("c01-benign-shape-mul-commuted", ["C01"], AST,
  'return Shape(a_shape.width + b_shape.width, a_shape.signed or b_shape.signed)',
  'return Shape(b_shape.width + a_shape.width, b_shape.signed or a_shape.signed)', "silent")
M("c01-benign-rename-local", ["C01"], PYRTL,
  '        def mask(value):\n            value_mask = (1 << len(value)) - 1\n            return f"({value_mask:#x} & {self(value)})"',
  '        def mask(value):\n            vmask = (1 << len(value)) - 1\n            return f"({vmask:#x} & {self(value)})"', "silent")
M("c01-benign-elif", ["C01"], PYRTL,
  '            if value.operator == "-":\n                return f"(-{sign(arg)})"',
  '            elif value.operator == "-":\n                return f"(-{sign(arg)})"', "silent")
M("c01-benign-pyeval-reorder", ["C01", "C05"], PYEVAL,
  '            if value.operator == "|":\n                return op_a | op_b\n            elif value.operator == "&":\n                return op_a & op_b',
  '            if value.operator == "&":\n                return op_a & op_b\n            elif value.operator == "|":\n                return op_a | op_b', "silent")

# ------------------------------------------------------------------------------------------------ C02
MUTANTS.append({"id": "c02-reset-before-statements", "props": ["C02"], "file": PYRTL, "expect": "R-02c", "edits": [
    ('                _StatementCompiler(self.state, emitter)(domain_stmts)\n\n                if domain.rst is not None:',
     '                if domain.rst is not None:'),
    ('                if isinstance(fragment, MemoryInstance):\n                    memory_index = self.state.get_memory(fragment._data)\n                    rhs = _RHSValueCompiler(self.state, emitter, mode="curr")\n                    lhs = _LHSValueCompiler(self.state, emitter, rhs=rhs)\n\n                    write_vals = {}',
     '                _StatementCompiler(self.state, emitter)(domain_stmts)\n\n                if isinstance(fragment, MemoryInstance):\n                    memory_index = self.state.get_memory(fragment._data)\n                    rhs = _RHSValueCompiler(self.state, emitter, mode="curr")\n                    lhs = _LHSValueCompiler(self.state, emitter, rhs=rhs)\n\n                    write_vals = {}'),
]})
M("c02-elif-as-if", ["C02"], PYRTL,
  'self.emitter.append(f"elif {\' or \'.join(gen_checks)}:")', 'self.emitter.append(f"if {\' or \'.join(gen_checks)}:")', "R-02b")
M("c02-extend-unsigned", ["C02", "C04"], IR,
  '                rhs = self.extend(rhs, signed, width)', '                rhs = self.extend(rhs, False, width)', "R-02d")
M("c02-lhs-slice-clear-no-invert", ["C02"], PYRTL,
  'f"{~(width_mask << value.start):#x} | "', 'f"{(width_mask << value.start):#x} | "', "R-02g")
M("c02-emit-assign-part-clip-dropped", ["C02", "C04"], IR,
  '        if lhs_start > len(lhs):\n            return\n        if lhs_start + len(rhs) > len(lhs):\n            rhs = rhs[:len(lhs) - lhs_start]\n',
  '', "R-02e")
M("c02-pyeval-entry-clip-dropped", ["C02", "C05"], PYEVAL,
  '    if lhs_start >= len(lhs):\n        return\n    if lhs_start + rhs_len > len(lhs):\n        rhs_len = len(lhs) - lhs_start\n', '', "R-02e")
M("c02-concat-window-off-by-one", ["C02", "C04"], IR,
  '                    part_rhs_stop = part_stop - lhs_start', '                    part_rhs_stop = part_stop - lhs_start + 1', "R-02e")
M("c02-pyeval-concat-rhs-start", ["C02", "C05"], PYEVAL,
  '                part_rhs_start = part_start - lhs_start', '                part_rhs_start = part_start', "R-02e")
M("c02-unify-swapped-sign", ["C02", "C04"], IR,
  '                    operand_a = self.extend(operand_a, signed_a, width)\n                    operand_b = self.extend(operand_b, signed_b, width)',
  '                    operand_a = self.extend(operand_a, signed_b, width)\n                    operand_b = self.extend(operand_b, signed_a, width)', "R-02d")
M("c02-mask-collector-slice", ["C02"], XFRM,
  '            mask <<= value.start\n            mask &= slice_mask', '            mask &= slice_mask', "R-02f")
M("c02-signal-update-merge", ["C02", "C05"], PYSIM,
  'value = (self.next & ~mask) | (value & mask)', 'value = (self.next & mask) | (value & mask)', "R-02g")
M("c02-lhs-operator-drop-s", ["C02"], PYRTL,
  '    def on_Operator(self, value):\n        if value.operator in ("u", "s"):\n            return self(value.operands[0])\n        raise TypeError # :nocov:',
  '    def on_Operator(self, value):\n        if value.operator in ("u",):\n            return self(value.operands[0])\n        raise TypeError # :nocov:', "R-02a")
M("c02-comb-default-zero", ["C02"], PYRTL,
  '                    emitter.append(f"next_{signal_index} = {signal.init}")\n\n                inputs = SignalSet()',
  '                    emitter.append(f"next_{signal_index} = {0}")\n\n                inputs = SignalSet()', "R-02c")
M("c02-reset-appended-after-emit-value", ["C02", "C04"], IR,
  '                for chunk_start, chunk_end in driver_chunks:\n                    chunk_len = chunk_end - chunk_start\n                    chunk_mask = (1 << chunk_len) - 1\n\n                    value = driver.emit_value(self, chunk_start, chunk_end)',
  '                for chunk_start, chunk_end in driver_chunks:\n                    chunk_len = chunk_end - chunk_start\n                    chunk_mask = (1 << chunk_len) - 1\n\n                    value = driver.emit_value(self, chunk_start, chunk_end)\n                    driver.assignments.append(None)', "R-02c")
M("c02-benign-comment", ["C02"], IR,
  '        # Assign rhs to lhs[lhs_start:lhs_start+len(rhs)]; bits that fall outside of `lhs` are dropped.',
  '        # window clip', "silent")

# ------------------------------------------------------------------------------------------------ C04
M("c04-slt-mixed-sign", ["C04"], RTLIL,
  '"s<":  ("$lt",       True,     True),', '"s<":  ("$lt",       True,     False),', "R-04b")
M("c04-ushr-as-sshr", ["C04"], RTLIL,
  '"u>>": ("$shr",      False,    False),', '"u>>": ("$sshr",     False,    False),', "R-04b")
M("c04-common-signedness-dropped", ["C04"], RTLIL,
  '                a_signed = b_signed = signed\n', '', "R-04c")
M("c04-mux-swapped", ["C04"], RTLIL,
  '                "A": self.sigspec(if_false),\n                "B": self.sigspec(if_true),',
  '                "A": self.sigspec(if_true),\n                "B": self.sigspec(if_false),', "R-04b")
M("c04-part-resolve-offset-dropped", ["C04"], NIR,
  '        self.value = netlist.resolve_value(self.value)\n        self.offset = netlist.resolve_value(self.offset)\n\n    def __repr__(self):\n        value_signed',
  '        self.value = netlist.resolve_value(self.value)\n\n    def __repr__(self):\n        value_signed', "R-04e")
M("c04-div-guard-on-dividend", ["C04"], RTLIL,
  '                    "A": self.sigspec(operand_b),\n                    "Y": nonzero.name,',
  '                    "A": self.sigspec(operand_a),\n                    "Y": nonzero.name,', "R-04b")
M("c04-neg-edge-polarity", ["C04"], RTLIL,
  '            "CLK_POLARITY": {\n                "pos": True,\n                "neg": False,\n            }[cell.clk_edge]\n        }\n        if cell.arst',
  '            "CLK_POLARITY": {\n                "pos": True,\n                "neg": True,\n            }[cell.clk_edge]\n        }\n        if cell.arst', "R-04d")
M("c04-nir-new-op-unknown-to-rtlil", ["C04"], IR,
  "                    operator = 's>>' if signed_a else 'u>>'", "                    operator = 's>>' if signed_a else '>>'", "R-04a")
M("c04-part-signedness-dropped", ["C04"], IR,
  "            cell = _nir.Part(module_idx, value=inner, value_signed=signed, width=value.width,",
  "            cell = _nir.Part(module_idx, value=inner, value_signed=False, width=value.width,", "R-04f")
M("c04-a-width-unshortened", ["C04"], RTLIL,
  '                self.builder.cell(cell_type, ports={\n                    "A": self.sigspec(operand_a),\n                    "B": self.sigspec(operand_b),\n                    "Y": self.cell_wires[cell_idx].name,\n                }, parameters={\n                    "A_SIGNED": a_signed,\n                    "B_SIGNED": b_signed,\n                    "A_WIDTH": len(operand_a),',
  '                self.builder.cell(cell_type, ports={\n                    "A": self.sigspec(operand_a),\n                    "B": self.sigspec(operand_b),\n                    "Y": self.cell_wires[cell_idx].name,\n                }, parameters={\n                    "A_SIGNED": a_signed,\n                    "B_SIGNED": b_signed,\n                    "A_WIDTH": len(cell.inputs[0]),', ["R-04c", "R-07a"])
M("c04-en-replication-off", ["C04"], IR,
  'en = _nir.Value([en[bit // port._granularity] for bit in range(len(port._data))])',
  'en = _nir.Value([en[bit % len(port._en)] for bit in range(len(port._data))])', "R-04d")
M("c04-emit-rhs-sub-swapped", ["C04"], IR,
  "                    result = self.emit_operator(module_idx, value.operator, operand_a, operand_b,\n                                                src_loc=value.src_loc)\n                    if value.operator == '-':",
  "                    result = self.emit_operator(module_idx, value.operator, operand_b, operand_a,\n                                                src_loc=value.src_loc)\n                    if value.operator == '-':", "R-04a")
M("c04-benign-table-and-signed", ["C04"], RTLIL,
  '"&":   ("$and",      False,    False),', '"&":   ("$and",      True,     True),', "silent")

# ------------------------------------------------------------------------------------------------ C05
M("c05-no-settle", ["C05"], ASYNC,
  '        self._engine.set_value(expr, value)\n        self._engine.step_design()', '        self._engine.set_value(expr, value)', "R-05a")
M("c05-get-no-from-bits", ["C05"], ASYNC,
  '            if isinstance(shape, ShapeCastable):\n                return shape.from_bits(value)\n        return value',
  '        return value', "R-05b")
M("c05-comb-guard-dropped", ["C05"], PYEVAL,
  '        if sim.slots[slot].is_comb:\n            raise DriverConflict("Combinationally driven signals cannot be overriden by testbenches")\n', '', "R-05c")
M("c05-read-next", ["C05"], PYEVAL,
  '        return sim.slots[slot].curr', '        return sim.slots[slot].next', "R-05d")
M("c05-assign-switch-all-cases", ["C05"], PYEVAL,
  '                _eval_assign_inner(sim, val, lhs_start, rhs, rhs_len)\n                return', '                _eval_assign_inner(sim, val, lhs_start, rhs, rhs_len)', "R-05d")

# ------------------------------------------------------------------------------------------------ C03
M("c03-reset-block-resets-read-ports", ["C03", "C11"], PYRTL,
  "                        for (signal, _) in reg_masks.masks():\n                            if not signal.reset_less:\n                                signal_index = self.state.get_signal(signal)\n                                emitter.append(f\"next_{signal_index} = {signal.init}\")",
  "                        for (signal, _) in lhs_masks.masks():\n                            if not signal.reset_less:\n                                signal_index = self.state.get_signal(signal)\n                                emitter.append(f\"next_{signal_index} = {signal.init}\")", "R-03b")
M("c03-async-reset-unmasked", ["C03", "C08", "C20"], PYRTL,
  'emitter.append(f"slots[{signal_index}].update({signal.init}, {mask})")', 'emitter.append(f"slots[{signal_index}].update({signal.init})")', "R-03a")
M("c03-async-reset-gets-read-ports", ["C03", "C08", "C20"], PYRTL,
  "processes.add(self.compile_async_reset(domain, reg_masks))", "processes.add(self.compile_async_reset(domain, lhs_masks))", "R-03a")
M("c03-async-reset-mask-not-sign-extended", ["C03", "C08"], PYRTL,
  "                    if signal.shape().signed and (mask & 1 << (len(signal) - 1)):\n                        mask |= -1 << len(signal)\n                    signal_index = self.state.get_signal(signal)\n                    emitter.append(f\"slots[{signal_index}].update({signal.init}, {mask})\")",
  "                    signal_index = self.state.get_signal(signal)\n                    emitter.append(f\"slots[{signal_index}].update({signal.init}, {mask})\")", "R-03a")
M("c03-async-reset-on-domain-process", ["C03"], PYRTL,
  '                    processes.add(self.compile_async_reset(domain, reg_masks))',
  '                    self.state.add_signal_waker(domain.rst, edge_waker(domain_process, 1))', "R-03a")
M("c03-clk-polarity-const", ["C03"], PYRTL,
  'self.state.add_signal_waker(domain.clk, edge_waker(domain_process, clk_polarity))',
  'self.state.add_signal_waker(domain.clk, edge_waker(domain_process, 1))', "R-03a")
M("c03-rst-waker-clk-polarity", ["C03"], PYRTL,
  'self.state.add_signal_waker(domain.rst, edge_waker(reset_process, 1))',
  'self.state.add_signal_waker(domain.rst, edge_waker(reset_process, 0))', "R-03a")
M("c03-async-reset-resets-reset-less", ["C03"], PYRTL,
  '                if not signal.reset_less:\n                    if signal.shape().signed and (mask & 1 << (len(signal) - 1)):\n                        mask |= -1 << len(signal)\n                    signal_index = self.state.get_signal(signal)\n                    emitter.append(f"slots[{signal_index}].update({signal.init}, {mask})")',
  '                if True:\n                    if signal.shape().signed and (mask & 1 << (len(signal) - 1)):\n                        mask |= -1 << len(signal)\n                    signal_index = self.state.get_signal(signal)\n                    emitter.append(f"slots[{signal_index}].update({signal.init}, {mask})")', "R-03a")
M("c03-sim-reset-block-reset-less", ["C03"], PYRTL,
  '                            if not signal.reset_less:\n                                signal_index = self.state.get_signal(signal)\n                                emitter.append(f"next_{signal_index} = {signal.init}")',
  '                            if True:\n                                signal_index = self.state.get_signal(signal)\n                                emitter.append(f"next_{signal_index} = {signal.init}")', "R-03b")
M("c03-ir-sync-reset-ignores-reset-less", ["C03"], IR,
  '                        not driver.domain.async_reset and\n                        not driver.signal.reset_less):',
  '                        not driver.domain.async_reset):', "R-03b")
M("c03-renamer-memory-ports-dropped", ["C03"], XFRM,
  '        for port in new_fragment._write_ports:\n            if port._domain in self.domain_map:\n                port._domain = self.domain_map[port._domain]\n\n    def on_fragment(self, fragment):\n        new_fragment = super().on_fragment(fragment)\n        if isinstance(new_fragment, RequirePosedge)',
  '\n    def on_fragment(self, fragment):\n        new_fragment = super().on_fragment(fragment)\n        if isinstance(new_fragment, RequirePosedge)', "R-03c")
M("c03-enable-skips-write-ports", ["C03"], XFRM,
  '            for port in new_fragment._write_ports:\n                if port._domain in self.controls:\n                    port._en = Mux(self.controls[port._domain], port._en, Const(0, len(port._en)))\n', '', "R-03e")
M("c03-mask-collector-hoisted", ["C03"], XFRM,
  '        for domain, statements in fragment.statements.items():\n            if domain == "comb" or domain not in self.controls:\n                continue\n            lhs_masks = LHSMaskCollector()\n',
  '        lhs_masks = LHSMaskCollector()\n        for domain, statements in fragment.statements.items():\n            if domain == "comb" or domain not in self.controls:\n                continue\n', "R-03c")
M("c03-transformer-drops-transparent-for", ["C03"], XFRM,
  '                    transparent_for=port._transparent_for,', '                    transparent_for=(),', "R-03d")
M("c03-collector-skips-write-port-domain", ["C03"], XFRM,
  '            for port in fragment._write_ports:\n                self.on_value(port._addr)\n                self.on_value(port._data)\n                self.on_value(port._en)\n                self._add_used_domain(port._domain)',
  '            for port in fragment._write_ports:\n                self.on_value(port._addr)\n                self.on_value(port._data)\n                self.on_value(port._en)', "R-03c")

# ------------------------------------------------------------------------------------------------ C06
M("c06-cycle-extra-nets-uncovered", ["C06"], NIR,
  'if cycle is not None and (cycle.start == net or cycle.start in extra_nets):', 'if cycle is not None and cycle.start == net:', "R-06a")
M("c06-connect-no-conflict-test", ["C06"], IR,
  '            if left in self.netlist.connections:\n                signal, bit = self.late_net_to_signal[left]', '            if False:\n                signal, bit = self.late_net_to_signal[left]', "R-06c")
M("c06-check-after-resolve", ["C06"], IR,
  '    netlist.check_comb_cycles()\n    netlist.resolve_all_nets()', '    netlist.resolve_all_nets()\n    netlist.check_comb_cycles()', "R-06b")
M("c06-part-per-bit", ["C06"], NIR,
  '        for net in self.offset:\n            yield (net, self.src_loc)\n\n    def comb_edges_is_per_bit(self) -> bool:\n        return False',
  '        for net in self.offset:\n            yield (net, self.src_loc)\n\n    def comb_edges_is_per_bit(self) -> bool:\n        return True', "R-06d")
M("c06-operator-mux-not-per-bit", ["C06"], NIR,
  '        elif len(self.inputs) == 3:\n            return True\n        return False', '        return False', "R-06d")
M("c06-match-edges-filtered", ["C06"], NIR,
  '        yield (self.en, self.src_loc)\n        for net in self.value:\n            yield (net, self.src_loc)',
  '        yield (self.en, self.src_loc)\n        for index, net in enumerate(self.value):\n            if index % 2:\n                yield (net, self.src_loc)', "R-06d")
M("c06-ff-data-edge", ["C06"], NIR,
  '        yield (self.clk, self.src_loc)\n        yield (self.arst, self.src_loc)', '        yield (self.clk, self.src_loc)\n        yield (self.arst, self.src_loc)\n        yield (self.data[bit], self.src_loc)', "R-06d")
M("c06-iobuffer-direct-emit-io", ["C06"], IR,
  '        port = self.emit_io_use(instance.port, src_loc=instance.src_loc)', '        port = self.emit_io(instance.port)', "R-06c")
M("c06-early-check-no-raise", ["C06"], "amaranth/hdl/_dsl.py",
  '                    if sig_domain[bit] != domain:\n                        raise SyntaxError(', '                    if False:\n                        raise SyntaxError(', "R-06e")

# ------------------------------------------------------------------------------------------------ C07
M("c07-y-width-wrong", ["C07"], RTLIL,
  '                "A_SIGNED": signed,\n                "A_WIDTH": len(operand),\n                "Y_WIDTH": cell.width,',
  '                "A_SIGNED": signed,\n                "A_WIDTH": len(operand),\n                "Y_WIDTH": len(operand),', "R-07a")
M("c07-part-b-width", ["C07"], RTLIL,
  '            "A_WIDTH": len(cell.value),\n            "B_WIDTH": offset_width,', '            "A_WIDTH": len(cell.value),\n            "B_WIDTH": len(cell.offset),', "R-07a")
M("c07-ff-width", ["C07"], RTLIL,
  '            "WIDTH": len(cell.data),\n            "CLK_POLARITY": {', '            "WIDTH": len(cell.data) + 1,\n            "CLK_POLARITY": {', "R-07a")
M("c07-memrd-abits", ["C07"], RTLIL,
  '            "ABITS": len(cell.addr),\n            "WIDTH": cell.width,\n            "TRANSPARENCY_MASK"', '            "ABITS": cell.width,\n            "WIDTH": cell.width,\n            "TRANSPARENCY_MASK"', "R-07a")
M("c07-port-id-step-2", ["C07"], RTLIL, '            line.port_id += 1', '            line.port_id += 2', "R-07b")
M("c07-empty-cell-not-skipped", ["C07"], RTLIL,
  '            if not self.empty_checker.is_empty(submodule_idx):\n                dotted_name', '            if True:\n                dotted_name', "R-07c")
M("c07-empty-def-not-skipped", ["C07"], RTLIL,
  '        if empty_checker.is_empty(module_idx):\n            continue\n', '', "R-07c")
M("c07-submodule-io-ports-dropped", ["C07"], RTLIL,
  '                for name, (value, _dir) in submodule.io_ports.items():\n                    ports[name] = self.io_sigspec(value)\n', '', "R-07d")
M("c07-print-args-width", ["C07"], RTLIL, '            "ARGS_WIDTH": len(args),', '            "ARGS_WIDTH": len(format),', "R-07a")
M("c07-new-unallocated-name", ["C07"], RTLIL,
  '            wire = self.builder.wire(len(value), attrs=self.value_attrs.get(value, {}))',
  '            wire = self.builder.wire(len(value), name=f"w{len(self.nets)}", attrs=self.value_attrs.get(value, {}))', "R-07b")

# ------------------------------------------------------------------------------------------------ C08
M("c08-template-writes-curr", ["C08"], PYRTL,
  'emitter.append(f"slots[{signal_index}].update(next_{signal_index}, {mask})")',
  'emitter.append(f"slots[{signal_index}].curr = next_{signal_index}")', "R-08a")
M("c08-commit-before-processes", ["C08"], PYSIM,
  '            # 1b. eval: run every runnable processes once, queueing signal changes;',
  '            converged = self._state.commit(changed)', ["R-08b"])
M("c08-testbenches-set", ["C08"], PYSIM, '        self._testbenches = []', '        self._testbenches = set()', "R-08d")
M("c08-clock-true-division", ["C08"], "amaranth/sim/_pyclock.py",
  'self.state.set_delay_waker(self.period // 2, waker)', 'self.state.set_delay_waker(self.period / 2, waker)', "R-08e")
M("c08-trigger-wake-before-sample", ["C08"], PYSIM,
  '        self.compute_result()\n        self._combination._process.runnable = True',
  '        self._combination._process.runnable = True\n        self.compute_result()', "R-08b")
M("c08-rescan-only-if-waiting", ["C08"], PYSIM,
  '                        assert type(testbench.waits_on) is _PyTriggerState, \\\n                            "Async testbenches may only await simulation triggers"\n                    converged = False',
  '                        assert type(testbench.waits_on) is _PyTriggerState, \\\n                            "Async testbenches may only await simulation triggers"\n                        converged = False', "R-08f")
M("c08-assign-base-curr", ["C08", "C05", "C02"], PYEVAL,
  '        value = sim.slots[slot].next\n', '        value = sim.slots[slot].curr\n', "R-02g")
M("c08-period-float", ["C08"], "amaranth/hdl/_time.py",
  'self._femtoseconds = round(value * _TIME_UNITS[unit])', 'self._femtoseconds = value * _TIME_UNITS[unit]', "R-08e")
M("c08-testbench-sorted", ["C08"], PYSIM,
  '            for testbench in self._testbenches:\n                if testbench.runnable:',
  '            for testbench in reversed(self._testbenches):\n                if testbench.runnable:', "R-08d")
M("c08-sim-reads-next", ["C08"], PYRTL,
  '            return f"slots[{self.state.get_signal(value)}].{self.mode}"', '            return f"slots[{self.state.get_signal(value)}].next"', "R-08a")

# ------------------------------------------------------------------------------------------------ C09
M("c09-missing-domains-unsorted", ["C09"], IR,
  'for domain_name in sorted(collector.used_domains - collector.defined_domains):',
  'for domain_name in collector.used_domains - collector.defined_domains:', "R-09a")
M("c09-used-signals-set", ["C09"], IR, '        self.used_signals = _ast.SignalDict()', '        self.used_signals = set()', "R-09a")
M("c09-mem-queue-not-reset", ["C09"], PYSIM,
  '        self.data = list(self.memory._init._raw)\n        self.write_queue = {}', '        self.data = list(self.memory._init._raw)', "R-09b")
M("c09-archive-bare-filename", ["C09"], "amaranth/build/run.py",
  'archive.writestr(zipfile.ZipInfo(filename), self.files[filename])', 'archive.writestr(filename, self.files[filename])', "R-09c")
M("c09-digest-unsorted", ["C09"], "amaranth/build/run.py",
  '        hasher = hashlib.blake2b(digest_size=size)\n        for filename in sorted(self.files):',
  '        hasher = hashlib.blake2b(digest_size=size)\n        for filename in self.files:', "R-09c")
M("c09-timeline-now-not-reset", ["C09"], PYSIM,
  '    def reset(self):\n        self.now = 0\n        self.wakers.clear()', '    def reset(self):\n        self.wakers.clear()', "R-09b")
M("c09-clock-initial-not-reset", ["C09"], "amaranth/sim/_pyclock.py",
  '        self.critical = False\n\n        self.initial = True\n\n    def run', '        self.critical = False\n\n    def run', "R-09b")
M("c09-new-set-iteration", ["C09"], IR,
  '        for signal, value in self.netlist.signals.items():\n            fragment = self.design.signal_lca[signal]',
  '        for signal in set(self.netlist.signals):\n            value = self.netlist.signals[signal]\n            fragment = self.design.signal_lca[signal]', "R-09a")
M("c09-slots-not-reset", ["C09"], PYSIM,
  '        self.timeline.reset()\n        for state in self.slots:\n            state.reset()', '        self.timeline.reset()', "R-09b")
M("c09-id-in-name", ["C09"], IR,
  '                name = f"port${value[0].cell}${value[0].bit}"', '                name = f"port${id(value)}"', "R-09a")
M("c09-benign-sorted-ports", ["C09"], IR,
  'for net in sorted(module.net_flow):', 'for net in sorted(sorted(module.net_flow)):', "silent")

# ------------------------------------------------------------------------------------------------ C19
RES = "amaranth/build/res.py"
M("c19-no-rollback", ["C19"], RES,
  '        except BaseException:\n            self._phys_reqd, self._pins, self._io_clocks = phys_reqd, pins, io_clocks\n            raise',
  '        except BaseException:\n            raise', "R-19a")
M("c19-rollback-misses-pins", ["C19"], RES,
  '            self._phys_reqd, self._pins, self._io_clocks = phys_reqd, pins, io_clocks',
  '            self._phys_reqd, self._io_clocks = phys_reqd, io_clocks', "R-19a")
M("c19-requested-before-resolve", ["C19"], RES,
  '        # A request that is refused must leave the allocation unchanged.',
  '        self._requested[resource.name, resource.number] = None', "R-19b")
M("c19-alloc-before-clash-test", ["C19"], RES,
  '                for phys_name in phys_names:\n                    if phys_name in self._phys_reqd:',
  '                for phys_name in phys_names:\n                    self._phys_reqd.setdefault(phys_name, path)\n                    if phys_name in self._phys_reqd:', ["R-19b", "R-19a"])
M("c19-map-names-single-hop", ["C19"], "amaranth/build/dsl.py",
  '            while ":" in name:', '            if ":" in name:', "R-19c")
M("c19-metadata-sorted", ["C19"], RES,
  '                        PortMetadata(name, attrs)\n                        for name in phys_names\n                    ])',
  '                        PortMetadata(name, attrs)\n                        for name in sorted(phys_names)\n                    ])', "R-19c")
M("c19-invert-dropped", ["C19"], RES,
  'port = io.SingleEndedPort(iop, invert=phys.invert, direction=direction)', 'port = io.SingleEndedPort(iop, direction=direction)', "R-19c")
M("c02-match-cases-after-default", ["C02"], PYRTL,
  "                    if patterns is None:\n                        # Cases after the default one are unreachable; Python rejects a `match`\n                        # statement in which anything follows the wildcard pattern.\n                        break\n", "", "R-02b")
M("c19-hierarchy-leaf-only", ["C19"], "amaranth/build/plat.py",
  "return separator.join(self._name_map[net][1:])", "return separator.join(self._name_map[net][-1:])", "R-19e")
M("c19-hierarchy-keeps-design-name", ["C19"], "amaranth/build/plat.py",
  "return separator.join(self._name_map[net][1:])", "return separator.join(self._name_map[net])", "R-19e")
M("c19-siliconblue-clock-bare-name", ["C19"], "amaranth/vendor/_siliconblue.py",
  'set_frequency {{signal|hierarchy(".")}} {{frequency/1000000}}', 'set_frequency {{signal.name}} {{frequency/1000000}}', "R-19e")
M("c19-name-map-leaf-only", ["C19"], "amaranth/back/rtlil.py",
  "self.name_map[signal] = (*self.module.name, wire.name[1:])", "self.name_map[signal] = (self.module.name[0], wire.name[1:])", "R-19e")
M("c19-benign-hierarchy-local", ["C19"], "amaranth/build/plat.py",
  "                return separator.join(self._name_map[net][1:])", "                path = self._name_map[net]\n                return separator.join(path[1:])", "silent")
M("c19-set-io-swapped", ["C19"], "amaranth/vendor/_siliconblue.py",
  '                set_io {{port_name}} {{pin_name}}', '                set_io {{pin_name}} {{port_name}}', "R-19d", count=2)
M("c19-lattice-freq-mhz", ["C19"], "amaranth/vendor/_lattice.py",
  '                FREQUENCY PORT "{{port.name}}" {{frequency}} HZ;', '                FREQUENCY PORT "{{port.name}}" {{frequency/1000000}} HZ;', "R-19d")
M("c19-gowin-period-inverted", ["C19"], "amaranth/vendor/_gowin.py",
  '-period {{1000000000/frequency}} [get_nets', '-period {{frequency/1000000000}} [get_nets', "R-19d")
M("c19-bits-metadata-shifted", ["C19"], "amaranth/build/plat.py",
  '                    yield f"{name}[{bit}]", meta.name, meta.attrs', '                    yield f"{name}[{bit + 1}]", meta.name, meta.attrs', "R-19c")

# ------------------------------------------------------------------------------------------------ C12 / C13 / C17
FIFO = "amaranth/lib/fifo.py"
CDC = "amaranth/lib/cdc.py"
M("c12-wport-en-ungated", ["C12"], FIFO, '            w_port.en.eq(self.w_en & self.w_rdy),', '            w_port.en.eq(self.w_en),', "R-12a")
M("c12-buffered-wport-en-ungated", ["C12"], FIFO, '            w_port.en.eq(do_write),\n        ]\n        with m.If(do_write):\n            m.d.sync += produce.eq(_incr(produce, inner_depth))',
  '            w_port.en.eq(self.w_en),\n        ]\n        with m.If(do_write):\n            m.d.sync += produce.eq(_incr(produce, inner_depth))', "R-12a")
M("c12-do-write-ungated", ["C12"], FIFO, '        do_read  = self.r_rdy & self.r_en\n        do_write = self.w_rdy & self.w_en\n',
  '        do_read  = self.r_rdy & self.r_en\n        do_write = self.w_en\n', "R-12a")
M("c12-level-range", ["C12"], FIFO, '        self.level = Signal(range(depth + 1))', '        self.level = Signal(range(depth))', "R-12b", count=2)
M("c12-level-dec-guard", ["C12"], FIFO, '        with m.If(do_read & ~do_write):\n            m.d.sync += self.level.eq(self.level - 1)',
  '        with m.If(do_read & ~self.w_en):\n            m.d.sync += self.level.eq(self.level - 1)', "R-12c")
M("c12-wrdy-off-by-one", ["C12"], FIFO, '            self.w_rdy.eq(self.level != self.depth),', '            self.w_rdy.eq(self.level != self.depth - 1),', "R-12d")
M("c12-pointer-modulus", ["C12"], FIFO, 'm.d.sync += consume.eq(_incr(consume, self.depth))', 'm.d.sync += consume.eq(_incr(consume, self.depth + 1))', "R-12b")
M("c12-buffered-level", ["C12"], FIFO, '            self.level.eq(inner_level + self.r_rdy),', '            self.level.eq(inner_level),', "R-12c")
M("c13-wfull-index-unguarded", ["C13"], FIFO,
  '        if self._ctr_bits == 1:\n            # A queue of depth 1 has one-bit counters; it is full whenever they differ.\n            m.d.comb += w_full.eq(produce_w_gry != consume_w_gry)\n        else:\n            m.d.comb += w_full.eq(',
  '        if True:\n            m.d.comb += w_full.eq(', "R-13c")
M("c13-produce-in-read-domain", ["C13"], FIFO, 'm.d[self._w_domain] += produce_w_bin.eq(produce_w_nxt)', 'm.d[self._r_domain] += produce_w_bin.eq(produce_w_nxt)', "R-13b")
M("c13-cdc-wrong-domain", ["C13"], FIFO, 'FFSynchronizer(produce_w_gry, produce_r_gry, o_domain=self._r_domain)', 'FFSynchronizer(produce_w_gry, produce_r_gry, o_domain=self._w_domain)', "R-13b")
M("c13-gray-encode-shift2", ["C13"], FIFO, "    return val ^ val[1:]", "    return val ^ val[2:]", "R-13e")
M("c13-gray-decode-forward", ["C13"], FIFO, "    for i in reversed(range(len(val))):", "    for i in range(len(val)):", "R-13e")
M("c13-gray-decode-prefix-short", ["C13"], FIFO,
  "    rhs = Const(0)\n    out = [None] * len(val)\n    for i in reversed(range(len(val))):\n        rhs = rhs ^ val[i]\n        out[i] = rhs\n    return Cat(*out)",
  "    for level in range(ceil_log2(len(val) - 1)):\n        val = val ^ (val >> (1 << level))\n    return val", "R-13e")
M("c13-benign-gray-decode-prefix", ["C13"], FIFO,
  "    rhs = Const(0)\n    out = [None] * len(val)\n    for i in reversed(range(len(val))):\n        rhs = rhs ^ val[i]\n        out[i] = rhs\n    return Cat(*out)",
  "    for level in range(ceil_log2(len(val))):\n        val = val ^ (val >> (1 << level))\n    return val", "silent")
M("c13-benign-gray-encode-shift", ["C13"], FIFO, "    return val ^ val[1:]", "    return val ^ (val >> 1)", "silent")
M("c13-rst-cdc-three-stages", ["C13"], FIFO, "AsyncFFSynchronizer(w_rst, r_rst, o_domain=self._r_domain)",
  "AsyncFFSynchronizer(w_rst, r_rst, o_domain=self._r_domain, stages=3)", "R-13f")
M("c13-async-ff-default-stages", ["C13"], CDC, 'def __init__(self, i, o, *, o_domain="sync", stages=2, async_edge="pos", max_input_delay=None):',
  'def __init__(self, i, o, *, o_domain="sync", stages=3, async_edge="pos", max_input_delay=None):', "R-13f")
M("c13-benign-ptr-cdc-three-stages", ["C13"], FIFO, "FFSynchronizer(produce_w_gry, produce_r_gry, o_domain=self._r_domain)",
  "FFSynchronizer(produce_w_gry, produce_r_gry, o_domain=self._r_domain, stages=3)", "silent")
M("c13-binary-crosses", ["C13"], FIFO, 'm.d[self._w_domain] += produce_w_gry.eq(_gray_encode(produce_w_nxt))', 'm.d[self._w_domain] += produce_w_gry.eq(produce_w_nxt)', "R-13b")
M("c13-do-read-ungated", ["C13"], FIFO, '        do_write = self.w_rdy & self.w_en\n        do_read  = self.r_rdy & self.r_en\n\n        # TODO: extract',
  '        do_write = self.w_rdy & self.w_en\n        do_read  = self.r_en\n\n        # TODO: extract', "R-13a")
M("c13-ctr-bits", ["C13"], FIFO, '        self._ctr_bits = depth_bits + 1', '        self._ctr_bits = depth_bits', ["R-13d", "R-13c"])
M("c17-ff-sync-domain", ["C17"], CDC, '            m.d[self._o_domain] += o.eq(i)\n        m.d.comb += self.o.eq(flops[-1])', '            m.d.sync += o.eq(i)\n        m.d.comb += self.o.eq(flops[-1])', "R-17a")
M("c17-ff-sync-stages", ["C17"], CDC, '                 for index in range(self._stages)]\n        for i, o in zip((self.i, *flops), flops):',
  '                 for index in range(self._stages - 1)]\n        for i, o in zip((self.i, *flops), flops):', "R-17a")
M("c17-ff-sync-output-first", ["C17"], CDC, '            m.d[self._o_domain] += o.eq(i)\n        m.d.comb += self.o.eq(flops[-1])', '            m.d[self._o_domain] += o.eq(i)\n        m.d.comb += self.o.eq(flops[0])', "R-17a")
M("c07-ioport-zero-width-first-net", ["C07"], RTLIL, '            if self.module.parent is None and len(value) > 0:\n                port = self.netlist.io_ports[value[0].port]', '            if self.module.parent is None:\n                port = self.netlist.io_ports[value[0].port]', "R-07h")
M("c17-pulse-input-domain-swapped", ["C17"], CDC, 'self._i_domain = i_domain', 'self._i_domain = o_domain', "R-17c")
M("c19-attrs-deleted-while-iterated", ["C19"], "amaranth/build/res.py", 'for attr_key, attr_value in list(attrs.items()):', 'for attr_key, attr_value in attrs.items():', "R-19b")
M("c17-stages-one-accepted", ["C17"], CDC, '    if stages < 2:\n        raise ValueError("Synchronization stage count may not', '    if stages < 1:\n        raise ValueError("Synchronization stage count may not', "R-17a")
M("c17-stages-nonint-accepted", ["C17"], CDC, 'if not isinstance(stages, int) or stages < 1:', 'if not isinstance(stages, int) and stages < 1:', "R-17a")
M("c17-stages-check-dropped", ["C17"], CDC, '    if stages < 2:\n        raise ValueError("Synchronization stage count may not safely be less than 2")', '    if stages < 2:\n        pass', "R-17a")
M("c17-async-no-posedge-req", ["C17"], CDC, '        m.submodules += RequirePosedge(self._o_domain)\n', '', "R-17b")
M("c17-async-init-zero", ["C17"], CDC, 'flops = [Signal(1, name=f"stage{index}", init=1)', 'flops = [Signal(1, name=f"stage{index}", init=0)', "R-17b")
M("c17-async-neg-not-inverted", ["C17"], CDC, '            m.d.comb += ResetSignal("async_ff").eq(~self.i)', '            m.d.comb += ResetSignal("async_ff").eq(self.i)', "R-17b")
M("c17-pulse-toggle-domain", ["C17"], CDC, 'm.d[self._i_domain] += i_toggle.eq(i_toggle ^ self.i)', 'm.d[self._o_domain] += i_toggle.eq(i_toggle ^ self.i)', "R-17c")
M("c17-pulse-stages-dropped", ["C17"], CDC, 'FFSynchronizer(i_toggle, o_toggle, o_domain=self._o_domain, stages=self._stages)', 'FFSynchronizer(i_toggle, o_toggle, o_domain=self._o_domain)', "R-17c")

# ------------------------------------------------------------------------------------------------ C10 / C11
MEMF = "amaranth/hdl/_mem.py"
M("c10-signal-init-raw", ["C10"], AST, "        self._init = _get_init_value(init, unsigned(1) if orig_shape is None else orig_shape)", "        self._init = 0 if init is None else int(init)", "R-10a")
M("c10-range-check-dropped", ["C10"], AST, "        if isinstance(orig_shape, range) and orig_init is not None and orig_init not in orig_shape:", "        if False:", "R-10a")
M("c10-range-check-wrapped", ["C10"], AST, "        if isinstance(orig_shape, range) and orig_init is not None and orig_init not in orig_shape:",
  "        if isinstance(orig_shape, range) and orig_init is not None and Const(init.value, shape).value not in orig_shape:", "R-10a")
M("c10-range-sign-one-end", ["C10"], AST, "                signed = obj[0] < 0 or obj[-1] < 0", "                signed = obj[0] < 0", "R-10c")
M("c10-range-width-one-end", ["C10"], AST, "                width  = max(bits_for(obj[0], signed),\n                             bits_for(obj[-1], signed))", "                width  = bits_for(obj[-1], signed)", "R-10c")
M("c10-const-wrap-bit", ["C10"], AST, "        if shape.signed and value >> (shape.width - 1) & 1:", "        if shape.signed and value >> shape.width & 1:", "R-10d")
M("c10-const-cast-concat-signed-part", ["C10"], AST, "                part_value = Const(const.value, unsigned(len(const))).value", "                part_value = const.value", "R-10b")
M("c10-const-cast-slice-no-shift", ["C10"], AST, "            return Const(value.value >> obj.start, unsigned(obj.stop - obj.start))", "            return Const(value.value, unsigned(obj.stop - obj.start))", "R-10b")
M("c10-mem-slice-direct-store", ["C10"], MEMF, "                for actual_index, actual_value in zip(indices, value):\n                    self[actual_index] = actual_value",
  "                for actual_index, actual_value in zip(indices, value):\n                    self._elems[actual_index] = actual_value", "R-10a")
M("c10-enum-unify-case", ["C10"], AST, "                width  = max(width, member_shape.width + 1)", "                width  = max(width, member_shape.width)", "R-10c")
M("c11-write-loop-filtered", ["C11"], PYRTL, "                    for idx, port in enumerate(fragment._write_ports):\n                        if port._domain != domain_name:\n                            continue\n",
  "                    for idx, port in enumerate(p for p in fragment._write_ports if p._domain == domain_name):\n", "R-11b")
M("c11-patch-before-read", ["C11"], PYRTL, "                            data = emitter.def_var(\"read_data\", f\"slots[{memory_index}].read({addr})\")\n\n                            for idx in port._transparent_for:",
  "                            data = \"read_data_x\"\n                            for idx in port._transparent_for:", "R-11b")
M("c11-patch-wrong-polarity", ["C11"], PYRTL, '                                    emitter.append(f"{data} |= {wdata} & {wen}")', '                                    emitter.append(f"{data} |= {wdata} & ~{wen}")', "R-11b")
M("c11-write-bounds-dropped", ["C11"], PYSIM, "    def write(self, addr, value, mask=None):\n        if addr in range(self.memory.depth):", "    def write(self, addr, value, mask=None):\n        if True:", "R-11a")
M("c11-write-direct-data", ["C11", "C08"], PYSIM, "            self.write_queue[addr] = value\n            self.pending.add(self)", "            self.data[addr] = value\n            self.pending.add(self)", ["R-11a", "R-08a"])
M("c11-lib-transparent-unmapped", ["C11"], "amaranth/lib/memory.py", "            transparent_for = tuple(write_ports[write_port] for write_port in port.transparent_for)",
  "            transparent_for = tuple(range(len(port.transparent_for)))", "R-11d")
M("c11-read-addr-unmasked", ["C11"], PYRTL, '                            addr = emitter.def_var("read_addr", f"({(1 << len(port._addr)) - 1:#x} & {addr})")', '                            addr = emitter.def_var("read_addr", f"{addr}")', "R-11c")
M("c11-read-no-enable", ["C11"], PYRTL, '                        emitter.append(f"if {en}:")\n                        with emitter.indent():\n                            addr = rhs(port._addr)\n                            addr = emitter.def_var("read_addr"',
  '                        emitter.append(f"if True:")\n                        with emitter.indent():\n                            addr = rhs(port._addr)\n                            addr = emitter.def_var("read_addr"', "R-11b")

# ------------------------------------------------------------------------------------------------ C14 / C15 / C18 / C20
WIR = "amaranth/lib/wiring.py"
DAT = "amaranth/lib/data.py"
ENU = "amaranth/lib/enum.py"
LIO = "amaranth/lib/io.py"
M("c14-flipped-getitem-noflip", ["C14"], WIR, "        return self.__unflipped.__getitem__(name).flip()", "        return self.__unflipped.__getitem__(name)", "R-14a")
M("c14-flipped-setitem-noflip", ["C14"], WIR, "        self.__unflipped.__setitem__(name, member.flip())", "        self.__unflipped.__setitem__(name, member)", "R-14a")
M("c14-connect-out-classified-as-in", ["C14"], WIR, '                if member.flow == Out:\n                    out_kind.append(', '                if member.flow == In:\n                    out_kind.append(', "R-14b")
M("c14-connect-signature-classified-as-port", ["C14"], WIR, '            if member.is_port:\n                if member.flow == Out:\n                    out_kind.append(', '            if True:\n                if member.flow == Out:\n                    out_kind.append(', "R-14b")
M("c14-member-signature-flips-out", ["C14"], WIR, "        if self.flow == Out:\n            return self._description\n        if self.flow == In:\n            return self._description.flip()",
  "        if self.flow == In:\n            return self._description\n        if self.flow == Out:\n            return self._description.flip()", "R-14a")
M("c14-connect-eq-reversed", ["C14"], WIR, "                    eq = in_value.eq\n", "                    eq = out_value.eq\n", "R-14b")
M("c14-connect-valueerror", ["C14"], WIR, "            raise ConnectionError(\n                f\"Cannot connect several output members {out_member_paths_as_string} together\")",
  "            raise ValueError(\n                f\"Cannot connect several output members {out_member_paths_as_string} together\")", "R-14c")
M("c14-connect-sync", ["C14"], WIR, "    m.d.comb += connections", "    m.d.sync += connections", "R-14b")
M("c14-metadata-dir-swapped", ["C14"], WIR, '"dir": "in" if member.flow == In else "out",', '"dir": "out" if member.flow == In else "in",', "R-14d")
M("c14-metadata-no-validate", ["C14"], WIR, "        self.validate(instance)\n        return instance", "        return instance", "R-14d")
M("c14-width-check-dropped", ["C14"], WIR, "            if Shape.cast(first_member_shape).width != Shape.cast(member_shape).width:", "            if False:", "R-14c")
M("c14-flow-flip-identity", ["C14"], WIR, "        if self == Out:\n            return In\n        if self == In:\n            return Out", "        if self == Out:\n            return Out\n        if self == In:\n            return In", "R-14a")
M("c15-const-getitem-index-shift", ["C15"], DAT, "                value = (self.__target >> key * elem_width) & ((1 << elem_width) - 1)", "                value = (self.__target >> (key + 1) * elem_width) & ((1 << elem_width) - 1)", "R-15a")
M("c15-const-getitem-field-width", ["C15"], DAT, "            value = (self.__target >> field.offset) & ((1 << field.width) - 1)", "            value = (self.__target >> field.offset) & ((1 << field.offset) - 1)", "R-15a")
M("c15-struct-offset-before", ["C15"], DAT, "            self._fields[key] = Field(shape, offset)\n            offset += cast_shape.width", "            offset += cast_shape.width\n            self._fields[key] = Field(shape, offset)", "R-15b")
M("c15-union-size-sum", ["C15"], DAT, "        return max((field.width for field in self._fields.values()), default=0)", "        return sum(field.width for field in self._fields.values())", "R-15b")
M("c15-array-getitem-offset", ["C15"], DAT, "            return Field(self._elem_shape, key * Shape.cast(self._elem_shape).width)", "            return Field(self._elem_shape, key)", "R-15b")
M("c15-layout-const-mask-no-shift", ["C15"], DAT, "            mask = ((1 << cast_field_shape.width) - 1) << field.offset", "            mask = ((1 << cast_field_shape.width) - 1)", "R-15c")
M("c15-const-stride-pos-by-index", ["C15"], DAT,
  "                    pos = 0\n                    for index in range(start, stop, stride):\n                        elem_value = (self.__target >> index * elem_width) & ((1 << elem_width) - 1)\n                        value |= elem_value << pos\n                        pos += elem_width",
  "                    for index in range(start, stop, stride):\n                        elem_value = (self.__target >> index * elem_width) & ((1 << elem_width) - 1)\n                        value |= elem_value << abs(index - start) * elem_width", "R-15e")
M("c15-const-stride-advance-first", ["C15"], DAT,
  "                        value |= elem_value << pos\n                        pos += elem_width",
  "                        pos += elem_width\n                        value |= elem_value << pos", "R-15e")
M("c15-const-stride-range-unit", ["C15"], DAT,
  "                    for index in range(start, stop, stride):\n                        elem_value",
  "                    for index in range(start, stop):\n                        elem_value", "R-15e")
M("c15-benign-const-stride-enumerate", ["C15"], DAT,
  "                    pos = 0\n                    for index in range(start, stop, stride):\n                        elem_value = (self.__target >> index * elem_width) & ((1 << elem_width) - 1)\n                        value |= elem_value << pos\n                        pos += elem_width",
  "                    for k, index in enumerate(range(start, stop, stride)):\n                        elem_value = (self.__target >> index * elem_width) & ((1 << elem_width) - 1)\n                        value |= elem_value << k * elem_width", "silent")
M("c15-flag-and-as-or", ["C15"], ENU, "        return self.__bitop(other, operator.__and__)", "        return self.__bitop(other, operator.__or__)", "R-15d")
M("c15-view-signed-not-reinterpreted", ["C15"], DAT, "        if Shape.cast(shape).signed:\n            return value.as_signed()\n        else:\n            return value\n\n    def __getattr__(self, name):\n        \"\"\"Access a field of the underlying value.\n\n        Returns :py:`self[name]`.",
  "        return value\n\n    def __getattr__(self, name):\n        \"\"\"Access a field of the underlying value.\n\n        Returns :py:`self[name]`.", "R-15a")
M("c15-enum-from-bits", ["C15"], ENU, "    def from_bits(cls, bits):\n        return cls(bits)", "    def from_bits(cls, bits):\n        return cls(bits & 1)", "R-15d")
M("c18-diff-getitem-n-unsliced", ["C18"], LIO, "        return DifferentialPort(self._p[index], self._n[index], invert=self._invert[index],", "        return DifferentialPort(self._p[index], self._n, invert=self._invert[index],", "R-18a")
M("c18-single-add-swapped", ["C18"], LIO, "        return SingleEndedPort(Cat(self._io, other._io), invert=self._invert + other._invert,", "        return SingleEndedPort(Cat(other._io, self._io), invert=self._invert + other._invert,", "R-18a")
M("c18-buffer-raw-o", ["C18"], LIO, "                m.submodules += IOBufferInstance(self._port.io, o=o_inv, oe=self.oe)", "                m.submodules += IOBufferInstance(self._port.io, o=self.o, oe=self.oe)", "R-18b")
M("c18-diff-n-not-inverted", ["C18"], LIO, "                m.submodules += IOBufferInstance(self._port.n, o=~o_inv, oe=self.oe)\n            else:", "                m.submodules += IOBufferInstance(self._port.n, o=o_inv, oe=self.oe)\n            else:", "R-18b")
M("c18-ffbuffer-i-domain", ["C18"], LIO, "            m.d[self.i_domain] += i_ff.eq(io_buffer.i)", "            m.d[self.o_domain] += i_ff.eq(io_buffer.i)", "R-18c")
M("c18-ffbuffer-oe-unregistered", ["C18"], LIO, "            m.d.comb += io_buffer.oe.eq(oe_ff)", "            m.d.comb += io_buffer.oe.eq(self.oe)", "R-18c")
M("c18-sim-oe-not-replicated", ["C18"], LIO, "                m.d.comb += self._port.oe.eq(self.oe.replicate(len(self._port)))", "                m.d.comb += self._port.oe.eq(self.oe)", "R-18b")
M("c18-sim-invert-int-key", ["C18"], LIO, "            result._invert = (self._invert[key],)", "            result._invert = self._invert[key:key + 1]", "R-18a")
M("c20-assert-lsb-only", ["C20"], PYRTL, '            self.emitter.append(f"if not {self.rhs.sign(stmt.test)}:")', '            self.emitter.append(f"if not (1 & {self.rhs(stmt.test)}):")', ["R-20c", "R-01c"])
M("c20-eval-format-no-s", ["C20"], PYEVAL, "            if spec.endswith(\"s\"):\n                chunks.append(format(value_to_string(value), spec[:-1]))\n            else:\n                chunks.append(format(value, spec))", "            chunks.append(format(value, spec))", "R-20a")
M("c20-format-skip-validation", ["C20"], AST, "                    # Perform validation.\n                    self._parse_format_spec(format_spec, obj.shape())\n", "", "R-20b")
M("c20-spec-allows-caret", ["C20"], AST, "        if match[\"align\"] == \"^\":\n            raise ValueError(f\"Alignment {match['align']!r} is not supported\")\n", "", "R-20b")
M("c20-emit-format-spliced", ["C20"], PYRTL, '                gen_chunks.append(f"format({value}, {format_desc!r})")', '                gen_chunks.append(f"\'{{:{format_desc}}}\'.format({value})")', "R-20a")
M("c20-value-to-string-chr", ["C20"], PYEVAL, "    return msg.decode()", "    return \"\".join(chr(b) for b in msg)", "R-20a")
M("c20-print-unnormalised", ["C20"], PYRTL, "                value = self.rhs.sign(value)\n                if format_desc.endswith", "                value = self.rhs(value)\n                if format_desc.endswith", ["R-20a", "R-01c"])
M("c20-sync-print-no-edge", ["C20"], IR, "                cell = _nir.SyncPrint(module_idx, en=cond,\n                                      clk=clk, clk_edge=cd.clk_edge,", "                cell = _nir.SyncPrint(module_idx, en=cond,\n                                      clk=clk, clk_edge=\"pos\",", "R-20c")


# ------------------------------------------------------------------------------------------------ refactored, then broken
# a behaviour-preserving refactoring of the benign corpus is applied first (base=...), then one edit breaks the refactored
# code: the rules must see through the new spelling AND still catch the defect
M("rb-c05-3-concat-first-min", ["C02", "C05"], PYEVAL, "first = max(lhs_start, part_start)", "first = min(lhs_start, part_start)", "R-02e", base="C05-3")
M("rb-c05-3-concat-last-unclipped", ["C02", "C05"], PYEVAL, "last  = min(lhs_stop, part_stop)", "last  = lhs_stop", "R-02e", base="C05-3")
M("rb-c02-4-concat-rhs-start", ["C02", "C04"], IR, "part_rhs_start = max(part_start - lhs_start, 0)", "part_rhs_start = max(lhs_start - part_start, 0)", "R-02e", base="C02-4")
M("rb-c05-5-table-sub-as-add", ["C01", "C05"], PYEVAL, '"-":  operator.sub,', '"-":  operator.add,', "R-01b", base="C05-5")
M("rb-c05-1-xor-merge-wrong-base", ["C02", "C05", "C08"], PYSIM, "value = self.next ^ ((self.next ^ value) & mask)", "value = self.curr ^ ((self.curr ^ value) & mask)", "R-02g", base="C05-1")
M("rb-c05-4-setdefault-seeded-zero", ["C02", "C08", "C11"], PYSIM, "queued = self.write_queue.setdefault(addr, self.data[addr])", "queued = self.write_queue.setdefault(addr, 0)", "R-02g", base="C05-4")
M("rb-c11-6-helper-no-comb-check", ["C05"], PYEVAL, "    if sim.slots[slot].is_comb:\n        raise DriverConflict(\"Combinationally driven signals cannot be overriden by testbenches\")\n    value = sim.slots[slot].next\n    mask = _bit_range_mask(start, stop)", "    value = sim.slots[slot].next\n    mask = _bit_range_mask(start, stop)", "R-05c", base="C11-6")
M("rb-c08-5-helper-flag-after-run", ["C08"], PYSIM, "        process.runnable = False\n        process.run()", "        process.run()\n        process.runnable = False", "R-08b", base="C08-5")
M("rb-c17-6-chain-wrong-domain", ["C17", "C13"], "amaranth/lib/cdc.py", "        last = _chain_flops(m, self._o_domain, self.i, flops)", '        last = _chain_flops(m, "sync", self.i, flops)', ["R-17a", "R-13f"], base="C17-6")
M("rb-c13-4-chain-skips-input", ["C17", "C13"], "amaranth/lib/cdc.py", "        prev_stage = self.i\n", "        prev_stage = Const(0)\n", ["R-17a", "R-13f"], base="C13-4")
M("rb-c06-5-conflict-check-dropped", ["C06"], IR, "                    self._check_driver_conflict(sig, bit, driver, assign, *driven_bits[bit])", "                    pass", "R-06e", base="C06-5")
M("rb-c18-1-direction-bidir-input", ["C18"], LIO, "        if self is other or other is Direction.Bidir:", "        if self is other or other is Direction.Input:", "R-18a", base="C18-1")
M("rb-c10-4-enum-unify-dropped-member", ["C10"], AST, "                member_shapes.append(Const.cast(member.value).shape())", "                member_shapes = [Const.cast(member.value).shape()]", "R-10c", base="C10-4")
M("rb-c01-3-unify-no-zero-bit", ["C01", "C10"], AST, "return signed(max(*signed_widths, unsigned_width + 1))", "return signed(max(*signed_widths, unsigned_width))", ["R-01e", "R-10c"], base="C01-3")
M("rb-c15-5-field-bits-wrong-offset", ["C15"], "amaranth/lib/data.py", "    mask = ((1 << cast_shape.width) - 1) << field.offset\n    return mask, (value.value << field.offset) & mask", "    mask = ((1 << cast_shape.width) - 1) << field.offset\n    return mask, (value.value << field.width) & mask", "R-15c", base="C15-5")
M("rb-c19-3-map-name-single-hop", ["C19"], "amaranth/build/dsl.py", '            while ":" in name:', '            if ":" in name:', "R-19c", base="C19-3")
M("rb-c20-3-caret-allowed", ["C20"], AST, '        if align == "^":\n            raise ValueError(f"Alignment {align!r} is not supported")\n', "", "R-20b", base="C20-3")

# ------------------------------------------------------------------------------------------------ rules added after round 2
UTILS = "amaranth/utils.py"
WIRING = "amaranth/lib/wiring.py"
MEMLIB = "amaranth/lib/memory.py"
DSLB = "amaranth/build/dsl.py"
PYCORO = "amaranth/sim/_pycoro.py"
M("c03-chunks-skip-last-bit", ["C03"], XFRM,
  '                while start < len(signal):\n                    if ((mask >> start) & 1) == 0:',
  '                while start < len(signal) - 1:\n                    if ((mask >> start) & 1) == 0:', "R-03f")
M("c03-chunks-run-stops-early", ["C03"], XFRM,
  'while stop < len(signal) and ((mask >> stop) & 1) == 1:', 'while stop < len(signal) - 1 and ((mask >> stop) & 1) == 1:', "R-03f")
M("c03-propagate-overrides-child-domain", ["C03"], IR,
  '                if domain not in subfrag.domains:\n                    subfrag.add_domains(self.domains[domain])',
  '                if domain in subfrag.domains:\n                    del subfrag.domains[domain]\n                subfrag.add_domains(self.domains[domain])', "R-03f")
M("c04-rtlil-late-assign-unwrapped", ["C04"], RTLIL,
  '        if isinstance(contents[index], Assignment):\n            emit(f"switch {{}}")\n            with emit.indent():\n                emit(f"case")\n                with emit.indent():\n                    while index < len(contents) and isinstance(contents[index], Assignment):\n                        contents[index].emit(emit)\n                        index += 1\n            emit(f"end")\n        else:',
  '        if False:\n            pass\n        else:', "R-04h")
M("c05-coro-assign-raw-rhs", ["C05"], PYCORO,
  'context.set(command.lhs, context._engine.get_value(command.rhs))', 'context.set(command.lhs, command.rhs)', "R-05f")
M("c05-coro-value-not-read", ["C05"], PYCORO,
  'response = context._engine.get_value(command)', 'response = command', "R-05f")
M("c06-whole-signal-shortcut-any", ["C06"], IR,
  'if len(sig_drivers) == 1 and all(net not in self.netlist.connections for net in lhs):',
  'if len(sig_drivers) == 1 and any(net not in self.netlist.connections for net in lhs):', "R-06f")
M("c06-whole-signal-shortcut-unchecked", ["C06"], IR,
  'if len(sig_drivers) == 1 and all(net not in self.netlist.connections for net in lhs):',
  'if len(sig_drivers) == 1:', "R-06f")
M("c07-sigspec-merges-across-wires", ["C07"], RTLIL,
  '                        self.nets[value[end_pos]] == (wire, bit)):', '                        self.nets[value[end_pos]][0] == wire):', "R-07f")
M("c07-sigspec-bit-not-advanced", ["C07"], RTLIL,
  '                    end_pos += 1\n                    bit += 1\n                width = end_pos - begin_pos\n                if width == 1:\n                    chunks.append(f"{wire.name} [{start_bit}]")',
  '                    end_pos += 1\n                width = end_pos - begin_pos\n                if width == 1:\n                    chunks.append(f"{wire.name} [{start_bit}]")', "R-07f")
M("c08-edge-waker-dropped-after-mismatch", ["C08"], PYRTL,
  '        if next == polarity:\n            process.runnable = True\n        return True',
  '        if next == polarity:\n            process.runnable = True\n            return True', "R-08g")
M("c11-memory-waker-one-shot", ["C08", "C11"], PYRTL,
  '    def waker():\n        process.runnable = True\n        return True', '    def waker():\n        process.runnable = True', "R-08g")
M("c09-signal-attrs-updated-in-place", ["C09"], RTLIL,
  '            attrs = self.value_attrs.setdefault(value, {})\n            attrs.update(signal.attrs)',
  '            attrs = self.value_attrs.setdefault(value, signal.attrs)', "R-09d")
M("c10-ceil-log2-float", ["C10"], UTILS,
  '        return 0\n    return (n - 1).bit_length()\n', '        return 0\n    import math\n    return math.ceil(math.log2(n))\n', "R-10e")
M("c11-row-write-without-mask", ["C11"], PYEVAL,
  'sim.slots[slot].write(lhs._index, rhs << lhs_start, mask)', 'sim.slots[slot].write(lhs._index, rhs << lhs_start)', ["R-11f", "R-05d"])
M("c11-write-port-gated-by-addr", ["C11"], PYRTL,
  '                        emitter.append(f"slots[{memory_index}].write({addr}, {data}, {en})")',
  '                        emitter.append(f"if {addr}:")\n                        with emitter.indent():\n                            emitter.append(f"slots[{memory_index}].write({addr}, {data}, {en})")', "R-11b")
M("c11-write-port-gated-by-en-benign", ["C11"], PYRTL,
  '                        emitter.append(f"slots[{memory_index}].write({addr}, {data}, {en})")',
  '                        emitter.append(f"if {en}:")\n                        with emitter.indent():\n                            emitter.append(f"slots[{memory_index}].write({addr}, {data}, {en})")', "silent")
M("c12-memory-depth-truthiness", ["C12"], MEMLIB,
  '            if depth is None:\n                raise ValueError("Either \'data\' or \'depth\' needs to be given")',
  '            if not depth:\n                raise ValueError("Either \'data\' or \'depth\' needs to be given")', "R-12e")
M("c14-member-init-wrapped-to-shape", ["C14"], WIRING,
  'self._init_as_const = Const.cast(init or 0)', 'self._init_as_const = Const(init or 0, self._description)', "R-14e")
M("c14-compliance-init-low-bits-only", ["C14"], WIRING,
  'if attr_value_cast.init != member._init_as_const.value:',
  'if (attr_value_cast.init ^ member._init_as_const.value) & 0xff:', "R-14e")
M("c18-iovalue-negative-index-no-wrap", ["C18"], AST,
  "                raise IndexError(f\"Index {key} is out of bounds for a {n}-bit IO value\")\n            if key < 0:\n                key += n\n",
  "                raise IndexError(f\"Index {key} is out of bounds for a {n}-bit IO value\")\n            if key < 0:\n                key = -key\n", "R-18d")
M("c18-iovalue-stride-ignores-stop", ["C18"], AST,
  'return IOConcat((self[i] for i in range(start, stop, step)), src_loc_at=1)', 'return IOConcat((self[i] for i in range(start, n, step)), src_loc_at=1)', "R-18d")
M("c01-value-stride-ignores-start", ["C01"], AST,
  'return Cat(self[i] for i in range(start, stop, step))', 'return Cat(self[i] for i in range(0, stop, step))', "R-01i")
M("c19-pins-map-names-memoised", ["C19"], DSLB,
  '            mapped_names.append(name)\n        return mapped_names',
  '            mapped_names.append(name)\n        self.names = mapped_names\n        return mapped_names', "R-19g")
M("c19-connector-prefix-only-for-string-form", ["C19"], DSLB,
  '                            .format(io))\n\n        if conn is not None:\n            conn_name, conn_number = conn',
  '                            .format(io))\n\n        if conn is not None and isinstance(io, str):\n            conn_name, conn_number = conn', "R-19f")

# ------------------------------------------------------------------------------------------------ R-08h trigger machinery
ASYNC_ = "amaranth/sim/_async.py"
M("c08-edge-waker-any-change-fires", ["C08", "C05"], PYSIM,
  'if curr_bit == next_bit or next_bit != trigger.polarity:', 'if curr_bit == next_bit:', "R-08h")
M("c08-edge-waker-watches-bit0", ["C08", "C05"], PYSIM,
  '            next_bit = (next >> trigger.bit) & 1', '            next_bit = next & 1', "R-08h")
M("c08-trigger-run-samples-after-wake", ["C08", "C05"], PYSIM,
  '        self.compute_result()\n        self._combination._process.runnable = True\n        self._combination._process.waits_on = None\n        self._triggers_hit.clear()',
  '        self._combination._process.runnable = True\n        self._combination._process.waits_on = None\n        self._triggers_hit.clear()\n        self.compute_result()', "R-08h")
M("c08-trigger-hits-not-cleared", ["C08", "C05"], PYSIM,
  '        self._combination._process.waits_on = None\n        self._triggers_hit.clear()\n', '        self._combination._process.waits_on = None\n', "R-08h")
M("c08-activate-while-not-waiting-queues", ["C08"], PYSIM,
  '        if self._combination._process.waits_on is self:\n            self._active.add(self)\n        else:\n            self._broken = True',
  '        self._active.add(self)', "R-08h")
M("c08-engine-commit-stops-at-first-change", ["C08"], PYSIM,
  '            if state.commit():\n                converged = False\n        self.pending.clear()',
  '            if state.commit():\n                converged = False\n                break\n        self.pending.clear()', "R-08h")
M("c08-get-signal-index-after-append", ["C08", "C05"], PYSIM,
  '            index = len(self.slots)\n            self.slots.append(_PySignalState(signal, self.pending))',
  '            self.slots.append(_PySignalState(signal, self.pending))\n            index = len(self.slots)', "R-08h")
M("c05-tick-negedge-domain-waits-posedge", ["C05", "C08"], ASYNC_,
  'clk_polarity = (1 if self._domain.clk_edge == "pos" else 0)', 'clk_polarity = 1', "R-08h")
# (a swap of the two reset samples in TickTrigger._collect_trigger is behaviour-preserving only because __await__ ors them;
# R-08h compares the function alone and reports it: a known limit of reference rules, see DESIGN.md 9.7)
M("c05-repeat-one-too-many", ["C05", "C08"], ASYNC_,
  '        for _ in range(count):\n            clk, rst, *values = await tick.__anext__()', '        for _ in range(count + 1):\n            clk, rst, *values = await tick.__anext__()', "R-08h")
M("c05-edge-trigger-slice-bit0", ["C05", "C08"], ASYNC_,
  'self.signal, self.bit = cast_signal.value, cast_signal.start', 'self.signal, self.bit = cast_signal.value, 0', "R-08h")
M("c05-compute-result-raw-bits", ["C05", "C08"], PYSIM,
  '                if isinstance(trigger.shape, ShapeCastable):\n                    result.append(trigger.shape.from_bits(value))\n                else:\n                    result.append(value)',
  '                result.append(value)', "R-08h")
M("c08-trigger-loopvar-renamed-benign", ["C08"], PYSIM,
  '        for waker, interval_fs in self._delay_wakers.items():\n            self._engine.state.set_delay_waker(interval_fs, waker)',
  '        for w, fs in self._delay_wakers.items():\n            self._engine.state.set_delay_waker(fs, w)', "silent")
M("c08-process-flag-cleared-after-run", ["C08"], PYSIM,
  '                    process.runnable = False\n                    process.run()', '                    process.run()\n                    process.runnable = False', "R-08b")

# ------------------------------------------------------------------------------------------------ R-02i control-flow builder
DSL_ = "amaranth/hdl/_dsl.py"
M("c02-elif-test-prepended", ["C02"], DSL_,
  '            if_data["tests"].append(cond)\n            if_data["bodies"].append(self._statements)\n            if_data["src_locs"].append(src_loc)\n        finally:\n            self.domain._depth -= 1\n            self._statements = _outer_case\n\n    @_guardedcontextmanager("Else")',
  '            if_data["tests"].insert(0, cond)\n            if_data["bodies"].insert(0, self._statements)\n            if_data["src_locs"].append(src_loc)\n        finally:\n            self.domain._depth -= 1\n            self._statements = _outer_case\n\n    @_guardedcontextmanager("Else")', "R-02i")
M("c02-else-does-not-close-if", ["C02"], DSL_,
  '            self.domain._depth -= 1\n            self._statements = _outer_case\n        self._pop_ctrl()\n\n    @contextmanager\n    def Switch',
  '            self.domain._depth -= 1\n            self._statements = _outer_case\n\n    @contextmanager\n    def Switch', "R-02i")
M("c02-elif-attaches-to-any-depth", ["C02"], DSL_,
  '        if if_data is None or if_data["depth"] != self.domain._depth:\n            raise SyntaxError("Elif without preceding If")',
  '        if if_data is None:\n            raise SyntaxError("Elif without preceding If")', "R-02i")
M("c02-case-body-not-flushed", ["C02"], DSL_,
  '            yield\n            self._flush_ctrl()\n            switch_data["cases"].append((new_patterns, self._statements, src_loc))',
  '            yield\n            switch_data["cases"].append((new_patterns, self._statements, src_loc))', "R-02i")
M("c02-add-statement-no-flush", ["C02"], DSL_,
  '        while len(self._ctrl_stack) > self.domain._depth:\n            self._pop_ctrl()\n\n        for stmt in Statement.cast(assigns):',
  '        for stmt in Statement.cast(assigns):', "R-02i")
M("c02-add-statement-prepends", ["C02"], DSL_,
  'self._statements.setdefault(domain, []).append(stmt)', 'self._statements.setdefault(domain, []).insert(0, stmt)', "R-02i")
M("c02-state-encoding-from-states", ["C02"], DSL_,
  '        if name not in fsm_data["encoding"]:\n            fsm_name = fsm_data["name"]\n            fsm_data["encoding"][name] = len(fsm_data["encoding"])\n            fsm_data["ongoing"][name] = Signal(name="")\n        try:',
  '        if name not in fsm_data["encoding"]:\n            fsm_name = fsm_data["name"]\n            fsm_data["encoding"][name] = len(fsm_data["states"])\n            fsm_data["ongoing"][name] = Signal(name="")\n        try:', "R-02i")
M("c02-next-uses-outermost-fsm", ["C02"], DSL_,
  'for level, (ctrl_name, ctrl_data) in enumerate(reversed(self._ctrl_stack)):', 'for level, (ctrl_name, ctrl_data) in enumerate(self._ctrl_stack):', "R-02i")
M("c02-if-depth-not-restored", ["C02"], DSL_,
  '            if_data["src_locs"].append(src_loc)\n        finally:\n            self.domain._depth -= 1\n            self._statements = _outer_case\n\n    @_guardedcontextmanager("Elif")',
  '            if_data["src_locs"].append(src_loc)\n            self.domain._depth -= 1\n        finally:\n            self._statements = _outer_case\n\n    @_guardedcontextmanager("Elif")', "R-02i")
M("c02-if-locals-renamed-benign", ["C02"], DSL_,
  '            _outer_case, self._statements = self._statements, {}\n            self.domain._depth += 1\n            yield\n            self._flush_ctrl()\n            if_data["tests"].append(cond)\n            if_data["bodies"].append(self._statements)\n            if_data["src_locs"].append(src_loc)\n        finally:\n            self.domain._depth -= 1\n            self._statements = _outer_case\n\n    @_guardedcontextmanager("Elif")',
  '            saved = self._statements\n            self._statements = {}\n            self.domain._depth += 1\n            yield\n            self._flush_ctrl()\n            if_data["tests"].append(cond)\n            if_data["bodies"].append(self._statements)\n            if_data["src_locs"].append(src_loc)\n        finally:\n            self.domain._depth -= 1\n            self._statements = saved\n\n    @_guardedcontextmanager("Elif")', "silent")
M("c03-domain-lowerer-state-not-restored", ["C03"], XFRM,
  '        outer_domains = self.domains\n        self.domains = fragment.domains\n        try:\n            return super().on_fragment(fragment)\n        finally:\n            self.domains = outer_domains',
  '        self.domains = fragment.domains\n        return super().on_fragment(fragment)', "R-03g")
M("c03-domain-lowerer-restores-wrong-value", ["C03"], XFRM,
  '        finally:\n            self.domains = outer_domains', '        finally:\n            self.domains = fragment.domains', "R-03g")

# ------------------------------------------------------------------------------------------------ rules added after round 3
NIR_ = "amaranth/hdl/_nir.py"
M("c02-lhsmask-switchvalue-whole", ["C02"], XFRM,
  '            for (_, subvalue) in value.cases:\n                self.visit_value(subvalue, mask)', '            for (_, subvalue) in value.cases:\n                self.visit_value(subvalue, ~0)', "R-02f")
M("c02-lhs-part-offset-from-next", ["C02"], PYRTL,
  '            offset = f"({value.stride} * ({offset_mask:#x} & {self.rrhs(value.offset)}))"\n            self(value.value)',
  '            offset = f"({value.stride} * ({offset_mask:#x} & {self.lrhs(value.offset)}))"\n            self(value.value)', "R-02j", count=1)
M("c03-write-port-fixed-edge", ["C03", "C11"], IR,
  '                clk_edge=cd.clk_edge,\n', '                clk_edge="pos",\n', "R-03h")
M("c06-flipflop-no-arst-edge", ["C06"], NIR_,
  '        yield (self.clk, self.src_loc)\n        yield (self.arst, self.src_loc)', '        yield (self.clk, self.src_loc)', "R-06d")
M("c06-traverse-busy-after-recursion", ["C06"], NIR_,
  '            if net in busy:\n                return Cycle(net)\n            busy.add(net)\n\n            cycle = None',
  '            if net in busy:\n                return Cycle(net)\n\n            cycle = None', ["R-06d", "R-06a"])
M("c07-ionet-dirs-module-only", ["C07"], IR,
  '            while module_idx is not None:\n                netlist.modules[module_idx].ionet_dir[net] = dir\n                module_idx = netlist.modules[module_idx].parent',
  '            netlist.modules[module_idx].ionet_dir[net] = dir', "R-07g")
M("c07-iodirection-or-keeps-left", ["C07"], NIR_,
  '        if self == other:\n            return self\n        else:\n            return IODirection.Bidir', '        return self', "R-07g")
M("c07-use-net-lca-not-updated", ["C07"], IR,
  '        modules[def_module].net_flow[net] = _nir.ModuleNetFlow.Internal\n        lca[net] = def_module', '        modules[def_module].net_flow[net] = _nir.ModuleNetFlow.Internal', "R-07g")
M("c01-transformer-part-drops-stride", ["C01"], XFRM,
  'return Part(self.on_value(value.value), self.on_value(value.offset),\n                    value.width, value.stride)',
  'return Part(self.on_value(value.value), self.on_value(value.offset),\n                    value.width)', "R-01m")
M("c01-transformer-concat-reversed", ["C01"], XFRM,
  'return Concat(self.on_value(o) for o in value.parts)', 'return Concat(self.on_value(o) for o in reversed(value.parts))', "R-01m")
M("c01-const-cast-slice-signed", ["C01"], AST,
  'return Const(value.value >> obj.start, unsigned(obj.stop - obj.start))', 'return Const(value.value >> obj.start, obj.stop - obj.start)', "R-01m")
M("c15-flag-invert-mask-dropped", ["C15"], ENU, 'return enum_cls._amaranth_view_class_(enum_cls, ~self.as_value() & singles_mask)', 'return enum_cls._amaranth_view_class_(enum_cls, ~self.as_value())', "R-15d")
M("c15-flag-invert-wrong-single-test", ["C15"], ENU, 'if (flag.value & (flag.value - 1)) == 0:', 'if (flag.value & (flag.value + 1)) == 0:', "R-15d")
M("c15-flag-invert-keep-masked", ["C15"], ENU, 'enum_cls._boundary_ in (EJECT, KEEP):\n            return enum_cls._amaranth_view_class_(enum_cls, ~self.as_value())', 'enum_cls._boundary_ in (EJECT,):\n            return enum_cls._amaranth_view_class_(enum_cls, ~self.as_value())', "R-15d")
M("c15-flag-invert-mask-seeded", ["C15"], ENU, '            singles_mask = 0\n            for flag in enum_cls:', '            singles_mask = 1\n            for flag in enum_cls:', "R-15d")
M("c15-flag-invert-all-members", ["C15"], ENU, '                if (flag.value & (flag.value - 1)) == 0:\n                    singles_mask |= flag.value', '                if (flag.value & (flag.value - 1)) == 0 or True:\n                    singles_mask |= flag.value', "R-15d")
M("c15-view-castable-signed-not-reinterpreted", ["C15"], DAT, '            if Shape.cast(shape).signed:\n                # The slice is unsigned; a shape-castable with a signed underlying shape (e.g.\n                # an enumeration with negative members) expects a value of that shape.\n                value = value.as_signed()\n            value = shape(value)', '            value = shape(value)', "R-15a")
M("c15-array-format-castable-signed-raw", ["C15"], DAT, '            if shape.signed:\n                field_value = field_value.as_signed()\n            if isinstance(self._elem_shape, ShapeCastable):\n                fields.append(self._elem_shape.format(self._elem_shape(field_value), ""))\n            else:\n                fields.append(Format("{}", field_value))', '            if isinstance(self._elem_shape, ShapeCastable):\n                fields.append(self._elem_shape.format(self._elem_shape(field_value), ""))\n            else:\n                if shape.signed:\n                    field_value = field_value.as_signed()\n                fields.append(Format("{}", field_value))', "R-15d")
M("c15-array-format-signed-raw", ["C15"], DAT, '            if shape.signed:\n                field_value = field_value.as_signed()\n            if isinstance(self._elem_shape, ShapeCastable):', '            if isinstance(self._elem_shape, ShapeCastable):', "R-15d")
M("c15-enum-member-abs-value", ["C15"], "amaranth/lib/enum.py",
  'dict.__setitem__(namespace, member_name, member_const.value)', 'dict.__setitem__(namespace, member_name, abs(member_const.value))', "R-15f")
M("c14-flipped-proxy-whole-array", ["C14"], "amaranth/lib/wiring.py",
  '            return _flipped_array(getattr(self.__unflipped, name),\n                                  self.__unflipped.signature.members[name].dimensions)',
  '            return flipped(getattr(self.__unflipped, name))', "R-14f")
M("c14-flipped-array-skips-inner-dimensions", ["C14"], "amaranth/lib/wiring.py",
  '    return [_flipped_array(item, rest_of_dimensions) for item in value]', '    return [flipped(item) for item in value]', "R-14f")

# ------------------------------------------------------------------------------------------------ rules added after round 4
M("c07-enum-value-unmasked", ["C07", "C04"], RTLIL,
  'attrs["enum_value_" + to_binary(var_val & ((1 << len(signal)) - 1), len(signal))] = var_name',
  'attrs["enum_value_" + to_binary(var_val, len(signal))] = var_name', "R-07h")
M("c07-iobuffer-any-const-enable", ["C07", "C18"], RTLIL,
  'cell.oe == _nir.Net.from_const(1)', 'cell.oe.is_const', "R-07h", count=1)
M("c03-reset-inserter-whole-signal-from-bit0", ["C03"], XFRM,
  '            if start == 0 and stop is None:\n                stmts.append(signal.eq(Const(signal.init, signal.shape())))',
  '            if start == 0:\n                stmts.append(signal.eq(Const(signal.init, signal.shape())))', "R-03i")
M("c14-compliance-checks-first-element-only", ["C14"], "amaranth/lib/wiring.py",
  '                    result = False\n                    if reasons is None:\n                        break # short cicruit if detailed error message isn\'t required\n            return result',
  '                    result = False\n                if reasons is None:\n                    break # short cicruit if detailed error message isn\'t required\n            return result', "R-14i")
M("c15-from-bits-by-pattern", ["C15"], "amaranth/lib/enum.py",
  'return cls(Const(bits, cls.as_shape()).value)', 'return cls(bits)', "R-15d")
M("c15-view-signed-castable-not-reinterpreted", ["C15"], "amaranth/lib/data.py",
  '            if Shape.cast(shape).signed:\n                # The slice is unsigned; a shape-castable with a signed underlying shape (e.g.\n                # an enumeration with negative members) expects a value of that shape.\n                value = value.as_signed()\n            value = shape(value)',
  '            value = shape(value)', "R-15a")
