"""Local inference of hash-ordered (set-typed) expressions and their order-observing uses (rule R-09a)."""
import ast
from .astutil import dotted, unparse, last_name

ORDER_FREE_CALLS = {"sorted", "len", "min", "max", "sum", "any", "all", "set", "frozenset", "bool", "isinstance",
                    "SignalSet", "id", "union"}
ORDER_OBSERVING_CALLS = {"list", "tuple", "enumerate", "zip", "iter", "next", "reversed", "map", "filter", "dict", "OrderedDict"}


def is_set_ctor(e):
    if isinstance(e, (ast.Set, ast.SetComp)):
        return True
    if isinstance(e, ast.Call) and dotted(e.func) in ("set", "frozenset"):
        return True
    return False


class SetInfo:
    def __init__(self, model, files):
        self.model = model
        self.files = files
        self.set_attrs = set()       # attribute names assigned a set somewhere (self.X = set())
        self.set_funcs = set()       # function/method names whose every return is a set expression
        self.nonset_funcs = set()
        self._collect()

    def _collect(self):
        rets = {}
        for rel in self.files:
            m = self.model.mod(rel)
            for n in ast.walk(m.tree):
                if isinstance(n, (ast.Assign, ast.AnnAssign)):
                    v = n.value
                    tg = n.targets if isinstance(n, ast.Assign) else [n.target]
                    if v is not None and is_set_ctor(v):
                        for t in tg:
                            if isinstance(t, ast.Attribute):
                                self.set_attrs.add(t.attr)
                if isinstance(n, ast.FunctionDef):
                    rs = [r for r in ast.walk(n) if isinstance(r, ast.Return) and r.value is not None]
                    # do not count returns of nested defs
                    nested = {id(r) for d in ast.walk(n) if isinstance(d, (ast.FunctionDef, ast.Lambda)) and d is not n
                              for r in ast.walk(d) if isinstance(r, ast.Return)}
                    rs = [r for r in rs if id(r) not in nested]
                    if rs:
                        local = self.local_sets(n)
                        allset = all(self.is_set(r.value, local) for r in rs)
                        rets.setdefault(n.name, []).append(allset)
        for name, flags in rets.items():
            if all(flags):
                self.set_funcs.add(name)

    def local_sets(self, fn):
        """names bound to set-typed expressions inside fn (flow-insensitive, two passes)"""
        local = set()
        for _ in range(2):
            for n in ast.walk(fn):
                if isinstance(n, ast.Assign) and len(n.targets) == 1 and isinstance(n.targets[0], ast.Name):
                    if self.is_set(n.value, local):
                        local.add(n.targets[0].id)
                if isinstance(n, ast.AugAssign) and isinstance(n.target, ast.Name) and \
                        isinstance(n.op, (ast.BitOr, ast.BitAnd, ast.Sub, ast.BitXor)) and self.is_set(n.value, local):
                    local.add(n.target.id)
        return local

    def is_set(self, e, local=()):
        if is_set_ctor(e):
            return True
        if isinstance(e, ast.Name):
            return e.id in local
        if isinstance(e, ast.Attribute):
            return e.attr in self.set_attrs
        if isinstance(e, ast.BinOp) and isinstance(e.op, (ast.BitOr, ast.BitAnd, ast.Sub, ast.BitXor)):
            return self.is_set(e.left, local) or self.is_set(e.right, local)
        if isinstance(e, ast.Call):
            fn = last_name(e.func)
            if fn in self.set_funcs and fn not in ("get", "pop"):
                return True
            if isinstance(e.func, ast.Attribute) and e.func.attr in ("union", "intersection", "difference", "copy",
                                                                      "symmetric_difference") and self.is_set(e.func.value, local):
                return True
        if isinstance(e, ast.IfExp):
            return self.is_set(e.body, local) and self.is_set(e.orelse, local)
        return False

    def uses(self, rel):
        """order-observing uses of set-typed expressions in a file: [(qualname, kind, expr-text, node)]"""
        m = self.model.mod(rel)
        out = []
        funcs = [n for n in ast.walk(m.tree) if isinstance(n, (ast.FunctionDef, ast.AsyncFunctionDef))]
        for fn in funcs:
            local = self.local_sets(fn)
            q = m.qualname_of(fn)
            for n in ast.walk(fn):
                # skip nodes that belong to nested function definitions (they are visited on their own)
                if isinstance(n, (ast.For, ast.AsyncFor)) and self.is_set(n.iter, local):
                    if m.enclosing_def(n) is fn:
                        out.append((q, "for", unparse(n.iter), n))
                if isinstance(n, (ast.ListComp, ast.GeneratorExp, ast.DictComp)):
                    for g in n.generators:
                        if self.is_set(g.iter, local) and m.enclosing_def(n) is fn:
                            # a generator consumed by an order-free call is fine
                            p = m.parent(n)
                            if isinstance(n, ast.GeneratorExp) and isinstance(p, ast.Call) and \
                                    last_name(p.func) in ORDER_FREE_CALLS:
                                continue
                            out.append((q, "comprehension", unparse(g.iter), n))
                if isinstance(n, ast.Call) and last_name(n.func) in ORDER_OBSERVING_CALLS and n.args and \
                        m.enclosing_def(n) is fn:
                    for a in n.args:
                        if self.is_set(a, local):
                            out.append((q, last_name(n.func) + "()", unparse(a), n))
                if isinstance(n, ast.Call) and isinstance(n.func, ast.Attribute) and n.func.attr in ("join", "pop") and \
                        m.enclosing_def(n) is fn:
                    if n.func.attr == "join" and n.args and self.is_set(n.args[0], local):
                        out.append((q, "join()", unparse(n.args[0]), n))
                    if n.func.attr == "pop" and not n.args and self.is_set(n.func.value, local):
                        out.append((q, "pop()", unparse(n.func.value), n))
                if isinstance(n, ast.Starred) and self.is_set(n.value, local) and m.enclosing_def(n) is fn:
                    out.append((q, "*unpack", unparse(n.value), n))
        return out
