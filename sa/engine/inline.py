"""E6b — AST-level expansion of calls to same-class / same-module helpers ("undo extract-method").

Rules that look for constructs inside one function body (statement order, templates appended to an emitter, loops
over ports, ...) should not care whether a block of that body has been moved into a helper method.  `expand()` returns
a *copy* of a function in which

  * a statement `self.helper(args)` / `helper(args)` whose callee is a procedure (no `return <value>`) is replaced by
    the callee's body, preceded by `param = arg` bindings for parameters whose argument is not the same name;
  * `x = self.helper(args)` / `return self.helper(args)` whose callee is straight-line code ending in one
    `return E` is replaced by the callee's body followed by `x = E` / `return E`;
  * a call appearing inside an expression whose callee's body is a single `return E` is replaced by `E` with the
    parameters substituted.

Callee locals keep their names (that is what makes the moved code look as it did before the move); expansion is
bounded by `depth` and never follows recursion.  Line numbers of inlined statements are those of the callee.
Nothing is executed."""
import ast
import copy
from .astutil import dotted
from .symx import subst, bind_call


def _callee_table(model, rel, cls):
    mod = model.mod(rel)
    table = {}
    for st in mod.tree.body:
        if isinstance(st, ast.FunctionDef):
            table[st.name] = st
        elif isinstance(st, ast.ClassDef) and cls is not None and st.name == cls:
            for m in st.body:
                if isinstance(m, ast.FunctionDef) and not any(dotted(d) == "property" for d in m.decorator_list):
                    table[f"self.{m.name}"] = m
                    table[f"cls.{m.name}"] = m
                    table[f"{cls}.{m.name}"] = m
    return table


def _body(fn):
    return [b for b in fn.body if not (isinstance(b, ast.Expr) and isinstance(b.value, ast.Constant))]


def _returns(fn):
    out = []
    stack = list(fn.body)
    while stack:
        n = stack.pop()
        if isinstance(n, (ast.FunctionDef, ast.AsyncFunctionDef, ast.Lambda, ast.ClassDef)):
            continue
        if isinstance(n, ast.Return):
            out.append(n)
        stack.extend(ast.iter_child_nodes(n))
    return out


def _is_procedure(fn):
    rs = _returns(fn)
    if any(r.value is not None for r in rs):
        return False
    body = _body(fn)
    # a bare `return` is allowed only as the last top-level statement
    return all(r is body[-1] for r in rs) if rs else True


def _single_tail_return(fn):
    rs = _returns(fn)
    body = _body(fn)
    return len(rs) == 1 and body and rs[0] is body[-1] and rs[0].value is not None


def _has_yield(fn):
    return any(isinstance(n, (ast.Yield, ast.YieldFrom, ast.Await)) for n in ast.walk(fn))


def _bindings(penv):
    out = []
    for p, a in penv.items():
        if not (isinstance(a, ast.Name) and a.id == p):
            out.append(ast.Assign(targets=[ast.Name(id=p, ctx=ast.Store())], value=copy.deepcopy(a), lineno=getattr(a, "lineno", 0)))
    return out


class _ExprInliner(ast.NodeTransformer):
    def __init__(self, table, depth, stack):
        self.table, self.depth, self.stack = table, depth, stack

    def visit_Lambda(self, node):
        return node

    def visit_Call(self, node):
        node = self.generic_visit(node)
        name = dotted(node.func)
        callee = self.table.get(name) if name else None
        if callee is None or self.depth <= 0 or callee.name in self.stack or _has_yield(callee):
            return node
        body = _body(callee)
        if len(body) == 1 and isinstance(body[0], ast.Return) and body[0].value is not None:
            penv = bind_call(callee, node, isinstance(node.func, ast.Attribute))
            if penv is not None:
                e = subst(body[0].value, penv)
                return _ExprInliner(self.table, self.depth - 1, self.stack | {callee.name}).visit(e)
        return node


def _expand_stmts(stmts, table, depth, stack):
    out = []
    for s in stmts:
        call = None
        kind = None
        if isinstance(s, ast.Expr) and isinstance(s.value, ast.Call):
            call, kind = s.value, "expr"
        elif isinstance(s, ast.Assign) and isinstance(s.value, ast.Call):
            call, kind = s.value, "assign"
        elif isinstance(s, ast.Return) and isinstance(s.value, ast.Call):
            call, kind = s.value, "return"
        name = dotted(call.func) if call is not None else None
        callee = table.get(name) if name else None
        if callee is not None and depth > 0 and callee.name not in stack and not _has_yield(callee):
            penv = bind_call(callee, call, isinstance(call.func, ast.Attribute))
            if penv is not None:
                body = copy.deepcopy(_body(callee))
                inner = _expand_stmts(body, table, depth - 1, stack | {callee.name})
                if kind == "expr" and _is_procedure(callee):
                    if inner and isinstance(inner[-1], ast.Return):
                        inner = inner[:-1]
                    out.extend(_bindings(penv) + inner)
                    continue
                if kind in ("assign", "return") and _single_tail_return(callee) and len(body) > 1:
                    ret = inner[-1]
                    tail = ast.Assign(targets=s.targets, value=ret.value, lineno=ret.lineno) if kind == "assign" else ret
                    out.extend(_bindings(penv) + inner[:-1] + [tail])
                    continue
        # recurse into compound statements, expand expression-level calls
        s2 = copy.copy(s)
        for field in ("body", "orelse", "finalbody"):
            b = getattr(s, field, None)
            if isinstance(b, list) and b and isinstance(b[0], ast.stmt):
                setattr(s2, field, _expand_stmts(b, table, depth, stack))
        if isinstance(s, ast.Try):
            s2.handlers = []
            for h in s.handlers:
                h2 = copy.copy(h)
                h2.body = _expand_stmts(h.body, table, depth, stack)
                s2.handlers.append(h2)
        if isinstance(s, (ast.FunctionDef, ast.AsyncFunctionDef, ast.ClassDef)):
            out.append(s2)
            continue
        inl = _ExprInliner(table, depth, stack)
        for field, value in ast.iter_fields(s2):
            if field in ("body", "orelse", "finalbody", "handlers"):
                continue
            if isinstance(value, ast.expr):
                setattr(s2, field, inl.visit(copy.deepcopy(value)))
            elif isinstance(value, list) and value and isinstance(value[0], ast.expr):
                setattr(s2, field, [inl.visit(copy.deepcopy(v)) for v in value])
            elif isinstance(value, list) and value and isinstance(value[0], ast.withitem):
                items = []
                for w in value:
                    w2 = copy.copy(w)
                    w2.context_expr = inl.visit(copy.deepcopy(w.context_expr))
                    items.append(w2)
                setattr(s2, field, items)
        out.append(s2)
    return out


def expand(model, ref, depth=2, exclude=()):
    """copy of the function `rel::Qual.name` with helper calls expanded (see module docstring); `exclude`: names of helpers
    that carry meaning for the rule and must stay calls"""
    rel, qual = ref.split("::")
    fn = model.func(ref)
    cls = qual.split(".")[0] if "." in qual else None
    table = _callee_table(model, rel, cls)
    # closures defined inside the function are helpers too
    for n in ast.walk(fn):
        if n is not fn and isinstance(n, ast.FunctionDef):
            table.setdefault(n.name, n)
    table = {k: v for k, v in table.items() if v is not fn and v.name not in exclude}
    new = copy.copy(fn)
    new.body = _expand_stmts(list(fn.body), table, depth, frozenset({fn.name}))
    ast.fix_missing_locations(new)
    return new


# ---------------------------------------------------------------------------------------------- copy propagation

_PURE_CALLS = {"len", "range", "min", "max", "abs"}
# constructors of immutable value expressions (safe to treat as sub-expressions); other capitalised callees create objects
# with an identity (Signal, Module, Memory, processes, collectors, ...) and stay named locals
_VALUE_CTORS = {"Cat", "Const", "C", "Mux", "Shape", "Slice", "Part", "Concat", "Operator", "Field", "Repl", "Period"}


def _pure(e):
    if isinstance(e, (ast.Name, ast.Constant)):
        return True
    if isinstance(e, ast.Attribute):
        return _pure(e.value)
    if isinstance(e, ast.Subscript):
        return _pure(e.value) and (isinstance(e.slice, ast.Slice) and all(x is None or _pure(x) for x in (e.slice.lower, e.slice.upper, e.slice.step))
                                   or (not isinstance(e.slice, ast.Slice) and _pure(e.slice)))
    if isinstance(e, ast.BinOp):
        return _pure(e.left) and _pure(e.right)
    if isinstance(e, ast.UnaryOp):
        return _pure(e.operand)
    if isinstance(e, ast.Compare):
        return _pure(e.left) and all(_pure(c) for c in e.comparators)
    if isinstance(e, ast.Tuple):
        return all(_pure(x) for x in e.elts)
    if isinstance(e, ast.BoolOp):
        return all(_pure(x) for x in e.values)
    if isinstance(e, ast.IfExp):
        return _pure(e.test) and _pure(e.body) and _pure(e.orelse)
    if isinstance(e, ast.Call):
        return dotted(e.func) in _PURE_CALLS and not e.keywords and all(_pure(a) for a in e.args)
    return False


def propagate_locals(fn):
    """copy of `fn` in which every local that is assigned exactly once from a pure expression (names, attributes,
    constants, subscripts, arithmetic, len()) is replaced by that expression at its uses, and the assignment dropped —
    provided all uses come after the assignment inside the statement list that contains it, and nothing the expression
    mentions is re-bound in between.  (Hoisting a sub-expression into a local, or inlining one, then yields the same
    view of the function.)"""
    fn = copy.deepcopy(fn)
    changed = True
    rounds = 0
    while changed and rounds < 10:
        changed = False
        rounds += 1
        stores, loads = {}, {}
        parents = {}
        for parent in ast.walk(fn):
            for child in ast.iter_child_nodes(parent):
                parents[child] = parent
        nested_scopes = [n for n in ast.walk(fn) if n is not fn and isinstance(n, (ast.FunctionDef, ast.AsyncFunctionDef, ast.Lambda,
                                                                                 ast.ListComp, ast.SetComp, ast.DictComp, ast.GeneratorExp))]
        comp_bound = set()
        for sc in nested_scopes:
            if isinstance(sc, (ast.ListComp, ast.SetComp, ast.DictComp, ast.GeneratorExp)):
                for g in sc.generators:
                    comp_bound |= {n.id for n in ast.walk(g.target) if isinstance(n, ast.Name)}
            elif isinstance(sc, (ast.FunctionDef, ast.AsyncFunctionDef)):
                comp_bound |= {a.arg for a in sc.args.args + sc.args.kwonlyargs}
                comp_bound |= {n.id for n in ast.walk(sc) if isinstance(n, ast.Name) and isinstance(n.ctx, ast.Store)}
            elif isinstance(sc, ast.Lambda):
                comp_bound |= {a.arg for a in sc.args.args}
        for n in ast.walk(fn):
            if isinstance(n, ast.Name):
                (stores if isinstance(n.ctx, (ast.Store, ast.Del)) else loads).setdefault(n.id, []).append(n)
        params = {a.arg for a in fn.args.args + fn.args.kwonlyargs + fn.args.posonlyargs}
        cands = []
        for name, sts in stores.items():
            if name in params or name in comp_bound:
                continue
            for tgt in sts:
                cands.append((name, tgt))
        for name, tgt in cands:
            asg = parents.get(tgt)
            if not (isinstance(asg, ast.Assign) and len(asg.targets) == 1 and asg.targets[0] is tgt):
                continue
            holder = parents.get(asg)
            body = None
            for field in ("body", "orelse", "finalbody"):
                b = getattr(holder, field, None)
                if isinstance(b, list) and asg in b:
                    body = b
            if body is None:
                continue
            idx = body.index(asg)
            later = set()
            for s in body[idx + 1:]:
                later |= {id(x) for x in ast.walk(s)}
            # the definition must be the only one that reaches its uses: no other store in the rest of the block, and no
            # load after the block (which could see this definition through a merge)
            if any(id(o) in later for o in stores[name] if o is not tgt):
                continue
            uses = [u for u in loads.get(name, []) if id(u) in later]
            block_end = max((getattr(x, "end_lineno", None) or getattr(x, "lineno", 0)) for x in body)
            if any(id(u) not in later and getattr(u, "lineno", 0) > block_end for u in loads.get(name, [])):
                continue
            if any(id(u) not in later and asg.lineno < getattr(u, "lineno", 0) <= block_end for u in loads.get(name, [])):
                continue
            # inside a loop a later iteration could read the value before this assignment runs again
            in_loop = False
            q = holder
            while q is not None and q is not fn:
                if isinstance(q, (ast.For, ast.While, ast.AsyncFor)):
                    in_loop = True
                q = parents.get(q)
            if in_loop and any(id(u) not in later for u in loads.get(name, [])):
                continue
            # an object creation (Signal(..), Module(), ..) is an identity, not a sub-expression: it stays a named local
            callee = (dotted(asg.value.func) or "x").split(".")[-1] if isinstance(asg.value, ast.Call) else "x"
            creates = callee[:1].isupper() and callee not in _VALUE_CTORS
            single_use = len(uses) == 1 and not creates and not any(
                isinstance(x, (ast.Yield, ast.YieldFrom, ast.Await, ast.NamedExpr)) for x in ast.walk(asg.value))
            if not (_pure(asg.value) or single_use):
                continue
            if isinstance(asg.value, (ast.Constant,)) and not uses:
                continue
            if not uses:
                continue
            last = max(getattr(u, "lineno", 0) for u in uses)
            rhs_names = {x.id for x in ast.walk(asg.value) if isinstance(x, ast.Name)}
            rebound = False
            for rn in rhs_names:
                for s_ in stores.get(rn, []):
                    if asg.lineno < getattr(s_, "lineno", 0) <= last:
                        rebound = True
            # an attribute/subscript the expression reads must not be stored to in between either
            rhs_text = {ast.unparse(x) for x in ast.walk(asg.value) if isinstance(x, (ast.Attribute, ast.Subscript))}
            for s_ in body[idx + 1:]:
                for x in ast.walk(s_):
                    if isinstance(x, (ast.Attribute, ast.Subscript)) and isinstance(getattr(x, "ctx", None), ast.Store) and \
                            ast.unparse(x) in rhs_text and getattr(x, "lineno", 0) <= last:
                        rebound = True
            if rebound:
                continue

            class R(ast.NodeTransformer):
                def visit_Name(self, node):
                    if node.id == name and isinstance(node.ctx, ast.Load):
                        return copy.deepcopy(asg.value)
                    return node
            for k in range(idx + 1, len(body)):
                body[k] = R().visit(body[k])
            del body[idx]
            if not body:
                body.append(ast.Pass())
            changed = True
            break
    ast.fix_missing_locations(fn)
    return fn


def reachable_helpers(model, ref, depth=2):
    """[fn] + the same-class / same-module functions it calls (transitively up to `depth`): the code a rule about `fn`
    should look at when part of its body may have been moved into helpers"""
    rel, qual = ref.split("::")
    fn = model.func(ref)
    cls = qual.split(".")[0] if "." in qual else None
    table = _callee_table(model, rel, cls)
    out, seen, frontier = [fn], {id(fn)}, [fn]
    for _ in range(depth):
        nxt = []
        for f in frontier:
            for n in ast.walk(f):
                if isinstance(n, ast.Call):
                    c = table.get(dotted(n.func) or "")
                    if c is not None and id(c) not in seen:
                        seen.add(id(c))
                        out.append(c)
                        nxt.append(c)
        frontier = nxt
    return out
