"""E5d — comparison of a function's path summary with reference semantics written as a tiny Python function.

A *summary* is the set of paths of a function body (engine/symx.run_paths: substitution of locals, constant folding,
bounded inlining), each reduced to
    (open conditions, side effects in order, returned value | raised exception class)
with every expression in the canonical form of engine/bitalg.  Two pieces of code with equal summaries compute the same
results and perform the same stores and calls under the same conditions, however they are spelled (guard clauses vs
nested ifs, `setdefault` vs test-and-store, local aliases, mask idioms, operand order of commutative operators,
`if/elif` chains vs table look-ups vs helper functions).

`compare()` reports
  * holds      — the summary equals one of the reference alternatives;
  * VIOLATION  — it differs and is written in the vocabulary of the references (same kinds of operators, same callees):
                 a recognised construct computes something else;
  * exit 2     — it differs and uses constructs the references do not (an arithmetic identity in place of a bitwise
                 idiom, try/except, a loop, an unknown helper): the extractor cannot tell, and says so.
"""
import ast
from .core import AnalysisError, need
from .astutil import unparse, dotted
from .symx import run_paths
from .bitalg import Canon


def _truthy(term):
    if isinstance(term, tuple) and term and term[0] in ("cmp", "and", "or", "not"):
        return term
    zero = ("int", 0)
    return ("cmp", "!=", zero, term) if repr(zero) < repr(term) else ("cmp", "!=", term, zero)


def negate(canon, t):
    if t[0] == "cmp" and t[1] in Canon._NEG:
        return canon._cmp(Canon._NEG[t[1]], t[2], t[3])
    if t[0] == "not":
        return t[1]
    return ("not", t)


def cond_term(canon, test, pol):
    t = _truthy(canon.term(test))
    return t if pol else negate(canon, t)


def _as_append(e):
    """x.extend([y]) / x += [y]  ->  x.append(y)"""
    if isinstance(e, ast.Call) and isinstance(e.func, ast.Attribute) and e.func.attr == "extend" and len(e.args) == 1 and \
            not e.keywords and isinstance(e.args[0], (ast.List, ast.Tuple)) and len(e.args[0].elts) == 1:
        return ast.Call(func=ast.Attribute(value=e.func.value, attr="append", ctx=ast.Load()), args=[e.args[0].elts[0]], keywords=[])
    if isinstance(e, ast.AugAssign) and isinstance(e.op, ast.Add) and isinstance(e.value, ast.List) and len(e.value.elts) == 1:
        return ast.Call(func=ast.Attribute(value=e.target, attr="append", ctx=ast.Load()), args=[e.value.elts[0]], keywords=[])
    return e


# methods of the built-in containers: their meaning is fixed, so a summary that differs in one of them differs decidedly
CONTAINER_METHODS = {"append", "insert", "extend", "add", "update", "pop", "remove", "clear", "discard", "setdefault", "get",
                     "items", "keys", "values", "popitem", "appendleft", "popleft", "index", "count", "sort", "reverse", "copy"}


def effect_term(canon, e):
    e = _as_append(e)
    if isinstance(e, ast.Assign):
        return ("store", tuple(canon.term(t) for t in e.targets), canon(e.value))
    if isinstance(e, ast.AugAssign):
        return ("aug", type(e.op).__name__, canon.term(e.target), canon(e.value))
    if isinstance(e, ast.expr):
        return ("do", canon.term(e))
    if isinstance(e, (ast.For, ast.AsyncFor, ast.While)):
        return loop_term(canon, e)
    return ("stmt", unparse(e))


class _Rename(ast.NodeTransformer):
    def __init__(self, table):
        self.table = table

    def visit_Name(self, node):
        if node.id in self.table:
            return ast.copy_location(ast.Name(id=self.table[node.id], ctx=node.ctx), node)
        return node


def loop_term(canon, e, depth=0):
    """a loop as a term: kind, what it iterates over / its condition, and the path summary of its body with the loop
    variables renamed positionally — two loops that differ in the names of their variables, or in how their bodies spell
    the same branches, get the same term.  Loops too large to enumerate stay textual."""
    from .symx import assigned_names
    import copy
    try:
        if isinstance(e, ast.While):
            head = ("while", _truthy(canon.term(e.test)))
            table = {}
        else:
            tnames = [n.id for n in ast.walk(e.target) if isinstance(n, ast.Name)]
            table = {n: f"_it{depth}_{k}" for k, n in enumerate(tnames)}
            shape = _Rename(table).visit(copy.deepcopy(e.target))
            head = ("async for" if isinstance(e, ast.AsyncFor) else "for", unparse(shape), canon.term(e.iter))
        body = [_Rename(table).visit(copy.deepcopy(b)) for b in e.body]
        carried = tuple(sorted(assigned_names(body) - set(table.values())))
        paths = run_paths(body, max_paths=256)
        summ = summarise(paths, canon, "loop body", track=carried)
        orelse = ()
        if e.orelse:
            orelse = frozenset(summarise(run_paths(list(e.orelse), max_paths=64), canon, "loop else"))
        return ("loop",) + head + (frozenset(summ), orelse)
    except AnalysisError:
        return ("loop", "text", unparse(e))


DIAGNOSTIC_CALLS = ("warnings.warn", "warn")


def _diagnostic(e):
    """a call that only reports (warnings.warn): not part of the behaviour compared"""
    return isinstance(e, ast.Call) and dotted(e.func) in DIAGNOSTIC_CALLS


def summarise(paths, canon, what, raises=True, track=()):
    """track: local names whose final value is part of the summary (for comparing a block of statements rather than a
    whole function)"""
    out = set()
    for p in paths:
        conds = frozenset(cond_term(canon, t, pol) for t, pol in p.conds_open(frozen=True))
        effects = tuple(effect_term(canon, e) for e in p.effects_frozen if not _diagnostic(e))
        for name in track:
            if name in p.env:
                effects = effects + (("store", (("name", name),), canon(p.env[name])),)
        if "try" in getattr(p, "flags", ()):
            effects = (("stmt", "try/except"),) + effects
        if p.how == "raise":
            if not raises:
                continue
            exc = p.ret
            name = dotted(exc.func) if isinstance(exc, ast.Call) else (dotted(exc) if exc is not None else None)
            res = ("raise", name or "?")
        elif p.how == "return":
            res = ("return", canon(p.ret_frozen) if p.ret_frozen is not None else ("const", "None"))
        elif p.how == "fall":
            res = ("return", ("const", "None"))
        else:
            res = (p.how,)
        out.add((conds, effects, res))
    # merge paths that differ only in the polarity of one test
    changed = True
    while changed:
        changed = False
        items = list(out)
        for i, (c1, e1, r1) in enumerate(items):
            for c2, e2, r2 in items[i + 1:]:
                if r1 != r2 or e1 != e2 or len(c1) != len(c2):
                    continue
                d1, d2 = c1 - c2, c2 - c1
                if len(d1) == 1 and len(d2) == 1 and negate(canon, next(iter(d1))) == next(iter(d2)):
                    out.discard((c1, e1, r1))
                    out.discard((c2, e2, r2))
                    out.add((c1 & c2, e1, r1))
                    changed = True
                    break
            if changed:
                break
    return out


def vocabulary(summary):
    """kinds of constructs used by a summary: operator classes, callee names, statement kinds"""
    voc = set()

    def walk(t, inwidth=False):
        if isinstance(t, frozenset):
            for y in t:
                walk(y, inwidth)
            return
        if not isinstance(t, tuple) or not t:
            return
        k = t[0]
        if not isinstance(k, str):
            for y in t:
                walk(y, inwidth)
            return
        if k == "call":
            f = t[1]
            voc.add("call:" + (f[1] if isinstance(f, tuple) and f[0] == "name" else (f[2] if isinstance(f, tuple) and f[0] == "attr" else "?")))
        elif k == "poly":
            # arithmetic on widths/positions (shift amounts, mask widths) is ordinary; arithmetic on *values* is a
            # different vocabulary from bitwise code (two's-complement identities are not decided here)
            voc.add("poly@width" if inwidth else "poly@value")
        elif k in ("tt", "shl", "shr", "mod", "floordiv", "pow", "cmp", "ifexp", "loop", "stmt", "aug", "slice", "index",
                   "mask", "and", "or", "not", "raise", "seq", "star", "src", "bitexpr"):
            voc.add(k)
        if k == "mask":
            walk(t[1], True)
            return
        if k in ("shl", "shr"):
            walk(t[1], inwidth)
            walk(t[2], True)
            return
        for x in t[1:]:
            if isinstance(x, tuple):
                walk(x, inwidth)
            elif isinstance(x, frozenset):
                for y in x:
                    walk(y, inwidth)
    for conds, effects, res in summary:
        for c in conds:
            walk(c)
        for e in effects:
            walk(e)
        walk(res)
    return voc


def reference_summary(src, names, canon, what, inline=None, track=()):
    body = ast.parse(src).body
    env = {k: (ast.parse(v, mode="eval").body if isinstance(v, str) else v) for k, v in (names or {}).items()}
    return summarise(run_paths(body, env=env, inline=inline), canon, what + " (reference)", track=track)


def text(summary):
    from ..rules.evalspec import term_text  # rendering only

    def one(c, e, r):
        s = ("if " + " and ".join(sorted(map(term_text, c))) + ": ") if c else ""
        for x in e:
            if x[0] == "store":
                s += ", ".join(term_text(t) for t in x[1]) + " = " + term_text(x[2]) + "; "
            elif x[0] == "do":
                s += term_text(x[1]) + "; "
            elif x[0] == "loop" and len(x) >= 4 and isinstance(x[-2], frozenset):
                head = f"while {term_text(x[2])}" if x[1] == "while" else f"{x[1]} {x[2]} in {term_text(x[3])}"
                s += head + ": { " + text(x[-2]) + " }" + ((" else { " + text(x[-1]) + " }") if x[-1] else "") + "; "
            else:
                s += str(x[0]) + "(" + ", ".join(term_text(y) if isinstance(y, tuple) else str(y) for y in x[1:]) + "); "
        if r[0] == "return":
            s += "return " + term_text(r[1])
        elif r[0] == "raise":
            s += "raise " + r[1]
        else:
            s += r[0]
        return s
    return " | ".join(sorted(one(c, e, r) for c, e, r in summary))


def compare(ctx, rule, construct, where, what, found_paths, refs, names=None, hook=None, raises=True, fact=None, why="",
            track=(), rewrite=None, undecided=None, strict_expr=False):
    """undecided: a reason why a difference between the summaries cannot be called a violation (e.g. the function contains
    nested function definitions, whose bodies are outside the summary)"""
    canon = Canon(atom_hook=hook, rewrite=rewrite)
    need(found_paths, f"{what}: no path")
    found = summarise(found_paths, canon, what, raises=raises, track=track)
    wants = [reference_summary(r, names, canon, what, track=track) if isinstance(r, str) else r for r in refs]
    if not raises:
        wants = [{w for w in ws if w[2][0] != "raise"} for ws in wants]
    if any(found == w for w in wants):
        ctx.ok(rule, construct, fact or f"computes {text(found)[:300]}", where)
        return True
    ref_voc = set()
    for w in wants:
        ref_voc |= vocabulary(w)
    extra = vocabulary(found) - ref_voc - {"call:" + m for m in CONTAINER_METHODS}
    # nested function definitions are compared as text: a difference there (a closure restructured, merged or renamed) is
    # not a decided difference
    def _has_nested_def(t):
        if isinstance(t, (set, frozenset, list)):
            return any(_has_nested_def(x) for x in t)
        if isinstance(t, tuple):
            if len(t) >= 2 and t[0] == "stmt" and isinstance(t[1], str) and t[1].lstrip().startswith(("def ", "async def ")):
                return True
            return any(_has_nested_def(x) for x in t)
        return False
    if _has_nested_def(found) or any(_has_nested_def(w) for w in wants):
        extra = set(extra) | {"nested function definitions"}
    if undecided:
        extra = set(extra) | {undecided}
    if strict_expr and not extra:
        # reference rules: a difference is called a violation when it is structural (another sequence of calls / stores /
        # results, other callees or targets, other plain operands) or lies in a fragment the canonical form decides completely
        # (polynomials against polynomials; truth tables over the same leaves).  A difference confined to operator
        # expressions outside those fragments (comparisons of bit expressions, shifts, mixed arithmetic) may be a re-spelling.
        EXPR = {"tt", "cmp", "shr", "shl", "poly", "mask", "mod", "floordiv", "pow", "ifexp", "bitexpr", "and", "or", "not"}

        def skel(t, out):
            if isinstance(t, frozenset):
                return frozenset(skel(x, out) for x in t)
            if isinstance(t, tuple):
                if t and isinstance(t[0], str) and t[0] in EXPR:
                    out.append(t)
                    return ("expr",)
                return tuple(skel(x, out) for x in t)
            return t

        def leaves(t, acc):
            if isinstance(t, (tuple, frozenset)):
                if isinstance(t, tuple) and t and t[0] in ("name", "attr", "int", "const", "call", "index"):
                    acc.add(t)
                    return
                for x in t:
                    leaves(x, acc)

        ef = []
        sf = skel(frozenset(found), ef)
        for w in wants:
            ew = []
            if skel(frozenset(w), ew) != sf:
                continue
            import collections
            df = list((collections.Counter(ef) - collections.Counter(ew)).elements())
            dw = list((collections.Counter(ew) - collections.Counter(ef)).elements())
            lf, lw = set(), set()
            for t in df:
                leaves(t, lf)
            for t in dw:
                leaves(t, lw)
            pure = all(t[0] in ("poly", "tt") for t in df + dw) and lf == lw

            def atoms(t, acc):
                if isinstance(t, tuple) and t and t[0] in ("and", "or", "not"):
                    for x in t[1:]:
                        atoms(x, acc) if isinstance(x, tuple) else None
                    if len(t) > 1 and isinstance(t[1], frozenset):
                        for x in t[1]:
                            atoms(x, acc)
                elif isinstance(t, tuple) and len(t) == 4 and t[0] == "cmp" and t[1] in Canon._NEG:
                    # a comparison and its complement are the same atom
                    acc.add(("cmp", min(t[1], Canon._NEG[t[1]]), t[2], t[3]))
                else:
                    acc.add(t)
            if not pure:
                # the same atomic conditions recombined (one dropped, negated, and/or exchanged) is a decided difference
                known, used = set(), set()
                for t in ew:
                    atoms(t, known)
                for t in df:
                    atoms(t, used)
                pure = bool(df or dw) and used <= known
            if not pure:
                extra = {"an expression spelt differently (" + text_terms(df)[:120] + " for " + text_terms(dw)[:120] + ")"}
            break
    if not (ref_voc & {"tt", "mask", "shl", "shr", "bitexpr", "mod", "floordiv", "pow"}):
        # a reference without bit-level or division constructs: integer polynomials are compared exactly by the canonical form
        extra -= {"poly@value", "poly@width"}
    if extra:
        msg = (f"{what}: the code uses constructs {sorted(extra)} that the reference semantics of this rule does not "
               f"({where}); equivalence cannot be decided — found `{text(found)[:400]}`")
        if hasattr(ctx, "defer"):
            ctx.defer(rule, msg)
            ctx.ok(rule, construct + ":unrecognised", "not comparable with the reference (reported as analysis error)", where)
            return None
        raise AnalysisError(msg)
    ctx.viol(rule, construct, f"{what} computes `{text(found)[:500]}`; required: `{text(wants[0])[:500]}`. {why}".strip(), where)
    return False


def text_terms(terms):
    from ..rules.evalspec import term_text
    return "; ".join(term_text(t) for t in terms)


def inline_table(model, rel, cls=None, exclude=()):
    """callees that may be expanded when summarising code of module `rel` (and, for methods, of class `cls`):
    module-level functions, lambdas and literal tables; `self.<m>` / `cls.<m>` for the methods of the class"""
    mod = model.mod(rel)
    inline = {}
    for st in mod.tree.body:
        if isinstance(st, ast.FunctionDef) and st.name not in exclude:
            inline[st.name] = st
        elif isinstance(st, ast.Assign) and len(st.targets) == 1 and isinstance(st.targets[0], ast.Name) and \
                isinstance(st.value, (ast.Dict, ast.Tuple, ast.Set, ast.List, ast.Lambda)):
            inline[st.targets[0].id] = st.value
        elif isinstance(st, ast.ClassDef) and cls is not None and st.name == cls.split(".")[-1]:
            for m in st.body:
                if isinstance(m, ast.FunctionDef) and m.name not in exclude:
                    deco = {dotted(d) for d in m.decorator_list}
                    if "property" in deco:
                        continue
                    inline[f"self.{m.name}"] = m
                    inline[f"cls.{m.name}"] = m
                elif isinstance(m, ast.Assign) and len(m.targets) == 1 and isinstance(m.targets[0], ast.Name) and \
                        isinstance(m.value, (ast.Dict, ast.Tuple, ast.Set, ast.List)):
                    inline.setdefault(m.targets[0].id, m.value)
    return inline


def method_paths(model, ref, fold=None, max_paths=1024, depth=3, decide=None, inline=True):
    """path summary of the function `rel::Qual.name` with same-module helpers and same-class methods expanded
    (inline=False: no expansion; or a table as produced by inline_table)"""
    rel, qual = ref.split("::")
    fn = model.func(ref)
    cls = qual.rsplit(".", 1)[0] if "." in qual else None
    if inline is True:
        inline = inline_table(model, rel, cls, exclude=(fn.name,))
    elif inline is False:
        inline = None
    body = [b for b in fn.body if not (isinstance(b, ast.Expr) and isinstance(b.value, ast.Constant))]
    return fn, run_paths(body, inline=inline, fold=fold, max_paths=max_paths, depth=depth, decide=decide)


def compare_block(ctx, rule, construct, where, what, stmts, refs, track, names=None, hook=None, fact=None, why="", inline=None):
    """compare a block of statements (not a whole function) by the final values of the `track`ed locals, its stores and calls"""
    paths = run_paths(list(stmts), inline=inline)
    return compare(ctx, rule, construct, where, what, paths, refs, names=names, hook=hook, fact=fact, why=why, track=tuple(track))


def class_fold(var, cls):
    """fold(node) for run_paths: pins `isinstance(var, C)` / `type(var) is C` tests to the class named `cls`
    (`var`: the variable's text, or a collection of texts that denote the same object after substitution)"""
    vars_ = {var} if isinstance(var, str) else set(var)

    def fold(node):
        if isinstance(node, ast.Call) and dotted(node.func) == "isinstance" and len(node.args) == 2 and unparse(node.args[0]) in vars_:
            classes = node.args[1].elts if isinstance(node.args[1], ast.Tuple) else [node.args[1]]
            names = [dotted(c) for c in classes]
            if all(n is not None for n in names):
                return ast.Constant(value=any(n.split(".")[-1] == cls.split(".")[-1] for n in names))
        if isinstance(node, ast.Compare) and len(node.ops) == 1 and isinstance(node.ops[0], (ast.Is, ast.Eq)) and \
                unparse(node.left) in {f"type({v})" for v in vars_} and dotted(node.comparators[0]) is not None:
            return ast.Constant(value=dotted(node.comparators[0]).split(".")[-1] == cls.split(".")[-1])
        return None
    return fold


def eval_under(test, facts):
    """three-valued truth of `test` given facts {source text of an atom: bool}; understands not/and/or, `is not` / `not in`
    as negations of `is` / `in`, and constants"""
    if isinstance(test, ast.Constant) and isinstance(test.value, (bool, int)) and not isinstance(test.value, str):
        return bool(test.value)
    tx = unparse(test)
    if tx in facts:
        return facts[tx]
    if isinstance(test, ast.UnaryOp) and isinstance(test.op, ast.Not):
        v = eval_under(test.operand, facts)
        return None if v is None else not v
    if isinstance(test, ast.BoolOp):
        vals = [eval_under(v, facts) for v in test.values]
        if isinstance(test.op, ast.And):
            if any(v is False for v in vals):
                return False
            return True if all(v is True for v in vals) else None
        if any(v is True for v in vals):
            return True
        return False if all(v is False for v in vals) else None
    if isinstance(test, ast.Compare) and len(test.ops) == 1:
        flip = {ast.IsNot: ast.Is, ast.NotIn: ast.In, ast.NotEq: ast.Eq}
        for neg, pos in flip.items():
            if isinstance(test.ops[0], neg):
                v = eval_under(ast.Compare(left=test.left, ops=[pos()], comparators=test.comparators), facts)
                return None if v is None else not v
    return None


def feasible_under(path, facts):
    """False when some condition taken on the path contradicts the facts"""
    for t, pol in path.conds:
        v = eval_under(t, facts)
        if v is not None and v != pol:
            return False
    return True
