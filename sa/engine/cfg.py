"""E4: statement-level control-flow graph for the statement kinds this repository uses.

Nodes are simple statements and the headers of compound statements.  Nested closures defined in
the analysed function can be linked in as a (context-insensitive) supergraph: a statement that calls
closure `f` gets an edge to f's entry and f's normal exits get edges to the statement's successors.
"""
import ast
from collections import defaultdict
from .astutil import walk_no_nested

ENTRY, EXIT, RAISE = "ENTRY", "EXIT", "RAISE"


def header_exprs(s):
    if isinstance(s, (ast.If, ast.While)):
        return [s.test]
    if isinstance(s, (ast.For, ast.AsyncFor)):
        return [s.target, s.iter]
    if isinstance(s, (ast.With, ast.AsyncWith)):
        out = []
        for it in s.items:
            out.append(it.context_expr)
            if it.optional_vars is not None:
                out.append(it.optional_vars)
        return out
    if isinstance(s, ast.Try):
        return []
    if isinstance(s, ast.Match):
        return [s.subject]
    if isinstance(s, (ast.FunctionDef, ast.AsyncFunctionDef, ast.ClassDef)):
        return []
    return [s]


class CFG:
    def __init__(self, fn, inline_closures=True, implicit_raise_in_try=True):
        self.fn = fn
        self.succ = defaultdict(set)
        self.stmt = {}            # node id -> ast stmt
        self.owner = {}           # node id -> function name the node belongs to
        self._n = 0
        self.closures = {}
        if inline_closures:
            for s in ast.walk(fn):
                if s is not fn and isinstance(s, ast.FunctionDef):
                    self.closures.setdefault(s.name, s)
        self._entries = {}
        self._pending_calls = []  # (node id, closure name, successors' holder)
        self.entry = self._function(fn, EXIT, RAISE, fn.name)
        self.succ[ENTRY].add(self.entry)
        # link closures
        built = {}
        work = list(self._pending_calls)
        self._pending_calls = []
        while work:
            nid, cname, exc = work.pop()
            if cname not in built:
                ret = ("RET", cname)
                rz = ("RZ", cname)
                built[cname] = (self._function(self.closures[cname], ret, rz, cname), ret, rz)
                work.extend(self._pending_calls)
                self._pending_calls = []
            centry, ret, rz = built[cname]
            succs = set(self.succ[nid])
            self.succ[nid].add(centry)
            for s in succs:
                self.succ[ret].add(s)
            self.succ[rz].add(exc)

    # ------------------------------------------------------------------ construction
    def _new(self, s, owner):
        self._n += 1
        nid = self._n
        self.stmt[nid] = s
        self.owner[nid] = owner
        return nid

    def _function(self, fn, exit_, exc, owner):
        return self._block(fn.body, exit_, None, None, exc, exit_, owner)

    def _block(self, stmts, nxt, brk, cont, exc, ret, owner):
        for s in reversed(stmts):
            nxt = self._stmt(s, nxt, brk, cont, exc, ret, owner)
        return nxt

    def _calls_closure(self, s, nid, exc):
        for e in header_exprs(s):
            for n in walk_no_nested(e):
                if isinstance(n, ast.Call) and isinstance(n.func, ast.Name) and n.func.id in self.closures:
                    self._pending_calls.append((nid, n.func.id, exc))

    def _stmt(self, s, nxt, brk, cont, exc, ret, owner):
        if isinstance(s, (ast.FunctionDef, ast.AsyncFunctionDef, ast.ClassDef)):
            return nxt
        nid = self._new(s, owner)
        self._calls_closure(s, nid, exc)
        E = self.succ[nid]
        if isinstance(s, ast.If):
            E.add(self._block(s.body, nxt, brk, cont, exc, ret, owner))
            E.add(self._block(s.orelse, nxt, brk, cont, exc, ret, owner) if s.orelse else nxt)
        elif isinstance(s, (ast.For, ast.AsyncFor, ast.While)):
            after = self._block(s.orelse, nxt, brk, cont, exc, ret, owner) if s.orelse else nxt
            body = self._block(s.body, nid, nxt, nid, exc, ret, owner)
            E.add(body)
            infinite = isinstance(s, ast.While) and isinstance(s.test, ast.Constant) and s.test.value is True
            if not infinite:
                E.add(after)
        elif isinstance(s, ast.Return):
            E.add(ret)
        elif isinstance(s, ast.Raise):
            E.add(exc)
        elif isinstance(s, ast.Break):
            E.add(brk if brk is not None else nxt)
        elif isinstance(s, ast.Continue):
            E.add(cont if cont is not None else nxt)
        elif isinstance(s, ast.Assert):
            if isinstance(s.test, ast.Constant) and s.test.value is False:
                E.add(exc)
            else:
                E.add(nxt)
                E.add(exc)
        elif isinstance(s, (ast.With, ast.AsyncWith)):
            E.add(self._block(s.body, nxt, brk, cont, exc, ret, owner))
        elif isinstance(s, ast.Try):
            fin_norm = self._block(s.finalbody, nxt, brk, cont, exc, ret, owner) if s.finalbody else nxt
            fin_exc = self._block(s.finalbody, exc, brk, cont, exc, ret, owner) if s.finalbody else exc
            hdisp = self._new(ast.Pass(), owner)  # handler dispatch
            for h in s.handlers:
                self.succ[hdisp].add(self._block(h.body, fin_norm, brk, cont, fin_exc, ret, owner))
            catch_all = any(h.type is None or (isinstance(h.type, ast.Name) and h.type.id in ("Exception", "BaseException"))
                            for h in s.handlers)
            if not catch_all:
                self.succ[hdisp].add(fin_exc)
            orelse = self._block(s.orelse, fin_norm, brk, cont, fin_exc, ret, owner) if s.orelse else fin_norm
            n0 = self._n
            body = self._block(s.body, orelse, brk, cont, hdisp, ret, owner)
            # any statement of the try body may raise
            for k in range(n0 + 1, self._n + 1):
                self.succ[k].add(hdisp)
            E.add(body)
        elif isinstance(s, ast.Match):
            has_wild = False
            for c in s.cases:
                E.add(self._block(c.body, nxt, brk, cont, exc, ret, owner))
                if isinstance(c.pattern, ast.MatchAs) and c.pattern.pattern is None and c.guard is None:
                    has_wild = True
            if not has_wild:
                E.add(nxt)
        else:
            E.add(nxt)
        return nid

    # ------------------------------------------------------------------ queries
    def nodes(self, pred=None, owner=None):
        out = []
        for nid, s in self.stmt.items():
            if owner is not None and self.owner[nid] != owner:
                continue
            if pred is None or pred(s):
                out.append(nid)
        return sorted(out)

    def nodes_with(self, pred_expr, owner=None):
        """node ids whose own header/statement contains an AST node satisfying pred_expr."""
        out = []
        for nid, s in self.stmt.items():
            if owner is not None and self.owner[nid] != owner:
                continue
            hit = False
            for e in header_exprs(s):
                for n in walk_no_nested(e):
                    if pred_expr(n):
                        hit = True
                        break
                if hit:
                    break
            if hit:
                out.append(nid)
        return sorted(out)

    def reach(self, starts, blocked=()):
        blocked = set(blocked)
        seen = set()
        stack = list(starts)
        while stack:
            n = stack.pop()
            if n in seen or n in blocked:
                continue
            seen.add(n)
            stack.extend(self.succ.get(n, ()))
        return seen

    def after(self, nid, blocked=()):
        """nodes reachable strictly after executing nid"""
        return self.reach(self.succ.get(nid, ()), blocked)

    def must_pass(self, start_after, through, targets=(EXIT,)):
        """every path from the successors of `start_after` to any target passes through a node in `through`"""
        r = self.reach(self.succ.get(start_after, ()), blocked=through)
        return not any(t in r for t in targets)

    def dominates(self, doms, nid):
        """every path ENTRY -> nid passes through some node in doms"""
        if nid in doms:
            return True
        r = self.reach([ENTRY], blocked=doms)
        return nid not in r

    def lineno(self, nid):
        s = self.stmt.get(nid)
        return getattr(s, "lineno", 0)
