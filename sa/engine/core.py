"""E1 srcmodel + E8 report: source model over /repo's *text* and the obligation/violation recorder.

Nothing under /repo is imported or executed; files are read as text and parsed with `ast`.
"""
import ast
import hashlib
import json
import os
import time


REPO = os.environ.get("VERIF_REPO", "/repo")
VERIF = os.path.dirname(os.path.dirname(os.path.dirname(os.path.abspath(__file__))))


class AnalysisError(Exception):
    """The source no longer has a shape the extractor understands (exit 2, never a verdict)."""


def need(cond, msg):
    if not cond:
        raise AnalysisError(msg)


class Module:
    def __init__(self, rel, text):
        self.rel = rel
        self.text = text
        try:
            self.tree = ast.parse(text, filename=rel)
        except SyntaxError as e:
            raise AnalysisError(f"{rel}: does not parse: {e}")
        self.lines = text.splitlines()
        self._index = {}
        self._parents = {}
        self._build(self.tree, "")
        for parent in ast.walk(self.tree):
            for child in ast.iter_child_nodes(parent):
                self._parents[child] = parent

    def _build(self, node, prefix):
        for child in ast.iter_child_nodes(node):
            if isinstance(child, (ast.FunctionDef, ast.AsyncFunctionDef, ast.ClassDef)):
                qual = prefix + child.name
                # first definition wins for duplicates (e.g. property setters): keep a list too
                self._index.setdefault(qual, []).append(child)
                self._build(child, qual + ".")
            elif isinstance(child, (ast.If, ast.Try, ast.With, ast.For, ast.While)):
                # definitions nested in control flow keep the enclosing prefix
                self._build(child, prefix)
            elif isinstance(node, (ast.FunctionDef, ast.AsyncFunctionDef)) and False:
                pass

    def parent(self, node):
        return self._parents.get(node)

    def enclosing_def(self, node):
        p = self.parent(node)
        while p is not None and not isinstance(p, (ast.FunctionDef, ast.AsyncFunctionDef, ast.ClassDef)):
            p = self.parent(p)
        return p

    def qualname_of(self, node):
        names = []
        cur = node
        while cur is not None:
            if isinstance(cur, (ast.FunctionDef, ast.AsyncFunctionDef, ast.ClassDef)):
                names.append(cur.name)
            cur = self.parent(cur)
        return ".".join(reversed(names))

    def src(self, node):
        return ast.get_source_segment(self.text, node) or ast.unparse(node)


class Model:
    """All of amaranth/**/*.py as text, optionally overlaid in memory ({rel: text})."""

    def __init__(self, root=None, overlay=None):
        self.root = root or REPO
        self.overlay = dict(overlay or {})
        self._mods = {}
        self.consulted = {}

    def all_files(self):
        out = []
        base = os.path.join(self.root, "amaranth")
        for dirpath, dirnames, filenames in os.walk(base):
            dirnames[:] = sorted(d for d in dirnames if d != "__pycache__")
            for fn in sorted(filenames):
                if fn.endswith(".py"):
                    out.append(os.path.relpath(os.path.join(dirpath, fn), self.root))
        for rel in self.overlay:
            if rel not in out:
                out.append(rel)
        return sorted(out)

    def text(self, rel):
        if rel in self.overlay:
            return self.overlay[rel]
        path = os.path.join(self.root, rel)
        try:
            with open(path, encoding="utf-8") as f:
                return f.read()
        except OSError as e:
            raise AnalysisError(f"anchor file missing: {rel} ({e})")

    def mod(self, rel):
        if rel not in self._mods:
            text = self.text(rel)
            self.consulted[rel] = hashlib.sha256(text.encode()).hexdigest()[:16]
            self._mods[rel] = Module(rel, text)
        return self._mods[rel]

    def find(self, ref, kinds=(ast.FunctionDef, ast.AsyncFunctionDef, ast.ClassDef), optional=False):
        """ref = 'amaranth/x/y.py::Class.method[.nested]'"""
        rel, _, qual = ref.partition("::")
        m = self.mod(rel)
        want_setter = qual.endswith("@setter")
        qual = qual[:-len("@setter")] if want_setter else qual
        cands = [n for n in m._index.get(qual, []) if isinstance(n, kinds)]
        if want_setter:
            cands = [n for n in cands if any(isinstance(d, ast.Attribute) and d.attr == "setter" for d in getattr(n, "decorator_list", []))]
        real = [n for n in cands if not any((isinstance(d, ast.Attribute) and d.attr == "overload") or
                                            (isinstance(d, ast.Name) and d.id == "overload")
                                            for d in getattr(n, "decorator_list", []))]
        cands = real or cands
        if not cands:
            if optional:
                return None
            raise AnalysisError(f"anchor not found: {ref}")
        return cands[0]

    def find_all(self, ref):
        rel, _, qual = ref.partition("::")
        return list(self.mod(rel)._index.get(qual, []))

    def func(self, ref, optional=False):
        return self.find(ref, (ast.FunctionDef, ast.AsyncFunctionDef), optional)

    def cls(self, ref, optional=False):
        return self.find(ref, (ast.ClassDef,), optional)

    def func_moved(self, ref):
        """a function that may have been moved between nesting levels: `rel::outer.name` is also looked for as a module-level
        (or class-level) `name` / `_name` (a closure hoisted out of its function), and the other way round"""
        f = self.func(ref, optional=True)
        if f is not None:
            return f
        rel, _, qual = ref.partition("::")
        leaf = qual.split(".")[-1]
        m = self.mod(rel)
        for cand in (leaf, "_" + leaf, leaf.lstrip("_")):
            hits = [n for q, ns in m._index.items() if q.split(".")[-1] == cand for n in ns
                    if isinstance(n, (ast.FunctionDef, ast.AsyncFunctionDef))]
            if len(hits) == 1:
                return hits[0]
        raise AnalysisError(f"anchor not found: {ref} (also not as a moved `{leaf}` / `_{leaf}`)")

    def func_view(self, ref, depth=2, exclude=()):
        """helper calls expanded (func_expanded) and single-assignment pure locals propagated (inline.propagate_locals):
        the view of a function that is indifferent to extract-method and to hoisting/inlining of sub-expressions"""
        key = ("view", ref, depth, tuple(exclude))
        cache = self.__dict__.setdefault("_expanded", {})
        if key not in cache:
            from .inline import propagate_locals
            cache[key] = propagate_locals(self.func_expanded(ref, depth, exclude))
        return cache[key]

    def func_expanded(self, ref, depth=2, exclude=()):
        """the function with calls to same-class / same-module helpers expanded in place (engine/inline.py): rules that
        look for constructs *inside* a body are then indifferent to extract-method refactorings"""
        key = (ref, depth, tuple(exclude))
        cache = self.__dict__.setdefault("_expanded", {})
        if key not in cache:
            from .inline import expand
            cache[key] = expand(self, ref, depth, exclude)
        return cache[key]

    def classes(self, rel):
        m = self.mod(rel)
        return [n for n in m.tree.body if isinstance(n, ast.ClassDef)]

    def class_methods(self, clsnode):
        return {n.name: n for n in clsnode.body if isinstance(n, (ast.FunctionDef, ast.AsyncFunctionDef))}

    def class_assigns(self, clsnode):
        out = {}
        for n in clsnode.body:
            if isinstance(n, ast.Assign):
                for t in n.targets:
                    if isinstance(t, ast.Name):
                        out[t.id] = n.value
        return out

    def base_names(self, clsnode):
        out = []
        for b in clsnode.bases:
            if isinstance(b, ast.Name):
                out.append(b.id)
            elif isinstance(b, ast.Attribute):
                out.append(b.attr)
        return out

    def resolve_method(self, rel, clsname, meth, search=()):
        """Find `meth` on class `clsname` (defined in `rel` or one of `search`) through bases by name.
        Returns (rel, classnode, node) where node is a FunctionDef or the aliasing expr; None if absent."""
        seen = set()
        queue = [clsname]
        files = [rel, *search]
        while queue:
            cn = queue.pop(0)
            if cn in seen:
                continue
            seen.add(cn)
            for f in files:
                c = self.find(f"{f}::{cn}", (ast.ClassDef,), optional=True)
                if c is None:
                    continue
                ms = self.class_methods(c)
                if meth in ms:
                    return f, c, ms[meth]
                al = self.class_assigns(c)
                if meth in al:
                    return f, c, al[meth]
                queue.extend(self.base_names(c))
                break
        return None


def loc(mod_or_rel, node):
    rel = mod_or_rel.rel if isinstance(mod_or_rel, Module) else mod_or_rel
    return f"{rel}:{getattr(node, 'lineno', '?')}"


class Ctx:
    """Collects obligations (rule instances) and violations for one property run."""

    def __init__(self, prop, tier="quick", seed=0):
        self.prop = prop
        self.tier = tier
        self.seed = seed
        self.obligations = []   # dict(rule, construct, fact, where)
        self.violations = []    # dict(rule, construct, message, where)
        self.notes = []
        self.deferred = []      # analysis errors that do not stop the rule: the remaining obligations are still examined
        self.t0 = time.time()

    def defer(self, rule, message):
        """an obligation could not be decided (unrecognised shape): recorded, reported as ANALYSIS-ERROR (exit 2 unless a
        violation is found), but the rule goes on so that recognised-and-wrong constructs are still reported"""
        self.deferred.append(f"{rule}: {message}")

    def ok(self, rule, construct, fact="", where=""):
        self.obligations.append({"rule": rule, "construct": construct, "fact": str(fact)[:300],
                                 "where": where, "status": "holds"})

    def viol(self, rule, construct, message, where=""):
        self.obligations.append({"rule": rule, "construct": construct, "fact": str(message)[:400],
                                 "where": where, "status": "VIOLATED"})
        self.violations.append({"rule": rule, "construct": construct, "message": str(message),
                                "where": where})

    def check(self, cond, rule, construct, fact_ok, msg_bad, where=""):
        if cond:
            self.ok(rule, construct, fact_ok, where)
        else:
            self.viol(rule, construct, msg_bad, where)
        return cond

    def note(self, text):
        self.notes.append(text)

    def count(self, rule=None):
        return sum(1 for o in self.obligations if rule is None or o["rule"] == rule)

    def require_count(self, rule, minimum):
        n = self.count(rule)
        need(n >= minimum, f"{rule}: only {n} rule instances recognised, expected at least {minimum} "
                           f"(extractor no longer matches the source shape)")

    def keys(self):
        return sorted({f"{v['rule']}|{v['construct']}" for v in self.violations})


def load_known_findings(path=None):
    path = path or os.path.join(VERIF, "known_findings.json")
    if not os.path.exists(path):
        return {"findings": [], "fixed": []}
    with open(path) as f:
        return json.load(f)
