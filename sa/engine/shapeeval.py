"""Partial evaluator for result-shape functions (E5a): concrete strings/booleans/lists, symbolic widths in max-plus
normal form.  Interprets the *extracted AST* of Operator.shape and Shape._unify for one (operator, signedness) case at
a time; widths stay symbolic, so one evaluation covers all widths."""
import ast
from .core import AnalysisError
from .norm import MP
from .astutil import unparse, dotted


class ShapeV:
    def __init__(self, width, signed):
        self.width = width if isinstance(width, MP) else MP.const(int(width))
        self.signed = bool(signed)

    def __repr__(self):
        return f"{'signed' if self.signed else 'unsigned'}({self.width.text()})"


class _Return(Exception):
    def __init__(self, value):
        self.value = value


class _Raise(Exception):
    pass


class ShapeEval:
    def __init__(self, functions, lookup=None, self_class=None, hooks=None):
        """functions: name -> FunctionDef (e.g. {'Shape._unify': <ast>, 'unsigned': ..}); lookup(qualname) -> FunctionDef
        or None resolves further callees on demand; self_class names the class `self.<method>` calls bind to"""
        self.functions = functions
        self.lookup = lookup
        self.self_class = self_class
        self.hooks = hooks or {}     # dotted callee name -> python function(args) evaluated instead of the call
        self.steps = 0

    def resolve(self, name):
        if name in self.functions:
            return self.functions[name]
        cands = [name]
        if name.startswith(("self.", "cls.")) and self.self_class:
            cands.append(self.self_class + "." + name.split(".", 1)[1])
        for c in cands:
            if c in self.functions:
                return self.functions[c]
            if self.lookup is not None:
                f = self.lookup(c)
                if f is not None:
                    self.functions[c] = f
                    return f
        return None

    def call(self, fn, args, selfobj=None, preset=None):
        env = dict(preset or {})
        if preset:
            env["__frozen__"] = set(preset)
        params = [a.arg for a in fn.args.args]
        static = any(dotted(d) == "staticmethod" for d in fn.decorator_list)
        if params and params[0] in ("self", "cls") and not static:
            env[params[0]] = selfobj
            params = params[1:]
        if fn.args.vararg is not None:
            env[fn.args.vararg.arg] = list(args[len(params):])
        for p, a in zip(params, args):
            env[p] = a
        defaults = fn.args.defaults
        for p, d in zip(params[len(params) - len(defaults):], defaults):
            if p not in env:
                env[p] = self.ev(d, env)
        try:
            self.block(fn.body, env)
        except _Return as r:
            return r.value
        return None

    def block(self, stmts, env):
        for s in stmts:
            self.steps += 1
            if self.steps > 20000:
                raise AnalysisError("shape evaluator: step limit")
            if isinstance(s, ast.Expr):
                c = s.value
                if isinstance(c, ast.Call) and isinstance(c.func, ast.Attribute) and isinstance(c.func.value, ast.Name) and \
                        isinstance(env.get(c.func.value.id), list) and c.func.attr in ("append", "extend") and len(c.args) == 1:
                    v = self.ev(c.args[0], env)
                    if c.func.attr == "append":
                        env[c.func.value.id].append(v)
                    else:
                        env[c.func.value.id].extend(v)
                continue
            if isinstance(s, ast.Assert):
                continue
            if isinstance(s, ast.Return):
                raise _Return(self.ev(s.value, env) if s.value is not None else None)
            if isinstance(s, ast.Raise):
                raise _Raise()
            if isinstance(s, ast.Assign):
                if any(isinstance(t, ast.Name) and t.id in env.get("__frozen__", ()) for t in s.targets):
                    continue
                v = self.ev(s.value, env)
                for t in s.targets:
                    self.assign(t, v, env)
                continue
            if isinstance(s, ast.If):
                c = self.truth(self.ev(s.test, env), s.test)
                self.block(s.body if c else s.orelse, env)
                continue
            if isinstance(s, ast.Try):
                # handlers are not followed: the evaluated cases do not raise
                self.block(s.body, env)
                self.block(s.orelse, env)
                self.block(s.finalbody, env)
                continue
            if isinstance(s, ast.AugAssign) and isinstance(s.target, ast.Name):
                cur = env[s.target.id]
                val = self.ev(ast.BinOp(left=ast.Name(id=s.target.id, ctx=ast.Load()), op=s.op, right=s.value), env)
                env[s.target.id] = val
                continue
            if isinstance(s, ast.Pass):
                continue
            if isinstance(s, ast.For):
                it = self.ev(s.iter, env)
                if not isinstance(it, (list, tuple)):
                    raise AnalysisError(f"shape evaluator: cannot iterate {unparse(s.iter)}")
                for x in it:
                    self.assign(s.target, x, env)
                    self.block(s.body, env)
                continue
            raise AnalysisError(f"shape evaluator: unsupported statement {type(s).__name__} at line {getattr(s, 'lineno', '?')}")

    def truth(self, c, node):
        if isinstance(c, (list, tuple)) and not (isinstance(c, tuple) and c and c[0] == "name"):
            return len(c) > 0
        if c is None:
            return False
        if isinstance(c, (bool, int)):
            return bool(c)
        raise AnalysisError(f"shape evaluator: non-concrete condition {unparse(node)}")

    def assign(self, t, v, env):
        if isinstance(t, ast.Name):
            env[t.id] = v
        elif isinstance(t, (ast.Tuple, ast.List)):
            if not isinstance(v, (list, tuple)) or len(v) != len(t.elts):
                raise AnalysisError(f"shape evaluator: cannot unpack into {unparse(t)}")
            for e, x in zip(t.elts, v):
                self.assign(e, x, env)
        else:
            raise AnalysisError(f"shape evaluator: unsupported target {unparse(t)}")

    def ev(self, e, env):
        if isinstance(e, ast.Constant):
            return e.value
        if isinstance(e, ast.Name):
            if e.id in env:
                return env[e.id]
            if e.id in ("True", "False", "None"):
                return {"True": True, "False": False, "None": None}[e.id]
            return ("name", e.id)
        if isinstance(e, (ast.Tuple, ast.List)):
            return [self.ev(x, env) for x in e.elts]
        if isinstance(e, ast.Attribute):
            base = self.ev(e.value, env)
            if isinstance(base, ShapeV):
                if e.attr == "width":
                    return base.width
                if e.attr == "signed":
                    return base.signed
            if isinstance(base, dict) and e.attr in base:
                return base[e.attr]
            if isinstance(base, tuple) and base[0] == "name":
                return ("name", base[1] + "." + e.attr)
            raise AnalysisError(f"shape evaluator: unknown attribute {unparse(e)}")
        if isinstance(e, ast.Compare) and len(e.ops) == 1:
            l, r = self.ev(e.left, env), self.ev(e.comparators[0], env)
            op = e.ops[0]
            if isinstance(l, MP) or isinstance(r, MP):
                raise AnalysisError(f"shape evaluator: comparison on a symbolic width: {unparse(e)}")
            if isinstance(op, ast.Eq):
                return l == r
            if isinstance(op, ast.NotEq):
                return l != r
            if isinstance(op, ast.In):
                return l in r
            if isinstance(op, ast.NotIn):
                return l not in r
            if isinstance(op, ast.Is):
                return l is r
            if isinstance(op, ast.IsNot):
                return l is not r
            raise AnalysisError(f"shape evaluator: unsupported comparison {unparse(e)}")
        if isinstance(e, ast.BoolOp):
            out = None
            for v in e.values:
                out = self.ev(v, env)
                t = self.truth(out, v)
                if isinstance(e.op, ast.Or) and t:
                    return out
                if isinstance(e.op, ast.And) and not t:
                    return out
            return out
        if isinstance(e, ast.UnaryOp) and isinstance(e.op, ast.Not):
            return not self.truth(self.ev(e.operand, env), e.operand)
        if isinstance(e, ast.Lambda):
            return ("lambda", e, dict(env))
        if isinstance(e, ast.IfExp):
            return self.ev(e.body if self.truth(self.ev(e.test, env), e.test) else e.orelse, env)
        if isinstance(e, ast.BinOp):
            l, r = self.ev(e.left, env), self.ev(e.right, env)
            if isinstance(e.op, ast.Add):
                return self._add(l, r)
            if isinstance(e.op, ast.Sub):
                if isinstance(l, MP):
                    return l - (int(r) if not isinstance(r, MP) else r)
                if isinstance(r, MP):
                    raise AnalysisError("shape evaluator: const - symbolic")
                return l - r
            if isinstance(e.op, ast.Pow):
                if l == 2 and isinstance(r, MP) and len(r.forms) == 1:
                    (c, t), = r.forms
                    if c == 0 and len(t) == 1 and t[0][1] == 1:
                        return MP.sym("2**" + t[0][0])
                if not isinstance(l, MP) and not isinstance(r, MP):
                    return l ** r
                raise AnalysisError(f"shape evaluator: unsupported power {unparse(e)}")
            if isinstance(e.op, ast.Mult) and not isinstance(l, MP) and not isinstance(r, MP):
                return l * r
            raise AnalysisError(f"shape evaluator: unsupported arithmetic {unparse(e)}")
        if isinstance(e, ast.Call):
            fn = dotted(e.func)
            args = []
            for a in e.args:
                if isinstance(a, ast.Starred):
                    v = self.ev(a.value, env)
                    if not isinstance(v, (list, tuple)):
                        raise AnalysisError(f"shape evaluator: cannot splat {unparse(a)}")
                    args.extend(v)
                else:
                    args.append(self.ev(a, env))
            kw = {k.arg: self.ev(k.value, env) for k in e.keywords}
            if fn in self.hooks:
                return self.hooks[fn](args)
            # value.shape() on an operand whose shape is known
            if isinstance(e.func, ast.Attribute) and e.func.attr == "shape" and not args:
                base = self.ev(e.func.value, env)
                if isinstance(base, ShapeV):
                    return base
            if isinstance(e.func, ast.Name) and isinstance(env.get(e.func.id), tuple) and env[e.func.id][:1] == ("lambda",):
                lam, cenv = env[e.func.id][1], dict(env[e.func.id][2])
                for p_, a_ in zip([a.arg for a in lam.args.args], args):
                    cenv[p_] = a_
                return self.ev(lam.body, cenv)
            if fn == "Shape":
                w = args[0] if args else kw.get("width", 1)
                s = args[1] if len(args) > 1 else kw.get("signed", False)
                return ShapeV(w if isinstance(w, MP) else MP.const(int(w)), s)
            if fn == "unsigned":
                return ShapeV(args[0], False)
            if fn == "signed":
                return ShapeV(args[0], True)
            if fn == "map" and len(args) == 2 and isinstance(args[0], tuple) and args[0][0] == "lambda":
                lam, cenv = args[0][1], args[0][2]
                out = []
                for x in args[1]:
                    c2 = dict(cenv)
                    c2[lam.args.args[0].arg] = x
                    out.append(self.ev(lam.body, c2))
                return out
            if fn in ("all", "any") and len(args) == 1 and isinstance(args[0], list):
                vals = [self.truth(x, e) for x in args[0]]
                return all(vals) if fn == "all" else any(vals)
            if fn == "sum" and len(args) == 1 and isinstance(args[0], list):
                out = MP.const(0)
                for x in args[0]:
                    out = self._add(out, x)
                return out
            if fn == "max":
                xs = args[0] if len(args) == 1 and isinstance(args[0], list) else args
                if not xs and "default" in kw:
                    d = kw["default"]
                    return d if isinstance(d, MP) else MP.const(int(d))
                out = None
                for x in xs:
                    x = x if isinstance(x, MP) else MP.const(int(x))
                    out = x if out is None else out.max(x)
                return out
            if fn == "len":
                return len(args[0])
            if fn == "isinstance":
                return True
            if fn in ("list", "tuple") and args and isinstance(args[0], list):
                return list(args[0])
            callee = self.resolve(fn) if fn else None
            if callee is not None:
                return self.call(callee, args, selfobj=env.get("self"))
            raise AnalysisError(f"shape evaluator: unknown call {unparse(e)}")
        if isinstance(e, ast.GeneratorExp) or isinstance(e, ast.ListComp):
            g = e.generators[0]
            it = self.ev(g.iter, env)
            if not isinstance(it, (list, tuple)):
                raise AnalysisError(f"shape evaluator: cannot iterate {unparse(g.iter)}")
            out = []
            for x in it:
                env2 = dict(env)
                self.assign(g.target, x, env2)
                if all(self.truth(self.ev(c, env2), c) for c in g.ifs):
                    out.append(self.ev(e.elt, env2))
            return out
        raise AnalysisError(f"shape evaluator: unsupported expression {unparse(e)}")

    @staticmethod
    def _add(l, r):
        if isinstance(l, MP) or isinstance(r, MP):
            l = l if isinstance(l, MP) else MP.const(int(l))
            r = r if isinstance(r, MP) else MP.const(int(r))
            return l + r
        return l + r
