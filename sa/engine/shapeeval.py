"""Partial evaluator for result-shape functions (E5a): concrete strings/booleans/lists, symbolic widths in max-plus
normal form.  Interprets the *extracted AST* of Operator.shape and Shape._unify for one (operator, signedness) case at
a time; widths stay symbolic, so one evaluation covers all widths."""
import ast
from .core import AnalysisError
from .norm import MP
from .astutil import unparse, dotted


class ShapeV:
    def __init__(self, width, signed):
        self.width = width if isinstance(width, MP) else MP.const(int(width))
        self.signed = bool(signed)

    def __repr__(self):
        return f"{'signed' if self.signed else 'unsigned'}({self.width.text()})"


class _Return(Exception):
    def __init__(self, value):
        self.value = value


class _Raise(Exception):
    pass


class ShapeEval:
    def __init__(self, functions):
        """functions: name -> FunctionDef (e.g. {'Shape._unify': <ast>, 'unsigned': ..})"""
        self.functions = functions
        self.steps = 0

    def call(self, fn, args, selfobj=None, preset=None):
        env = dict(preset or {})
        if preset:
            env["__frozen__"] = set(preset)
        params = [a.arg for a in fn.args.args]
        if params and params[0] in ("self", "cls"):
            env[params[0]] = selfobj
            params = params[1:]
        for p, a in zip(params, args):
            env[p] = a
        try:
            self.block(fn.body, env)
        except _Return as r:
            return r.value
        return None

    def block(self, stmts, env):
        for s in stmts:
            self.steps += 1
            if self.steps > 20000:
                raise AnalysisError("shape evaluator: step limit")
            if isinstance(s, ast.Expr):
                continue
            if isinstance(s, ast.Assert):
                continue
            if isinstance(s, ast.Return):
                raise _Return(self.ev(s.value, env) if s.value is not None else None)
            if isinstance(s, ast.Raise):
                raise _Raise()
            if isinstance(s, ast.Assign):
                if any(isinstance(t, ast.Name) and t.id in env.get("__frozen__", ()) for t in s.targets):
                    continue
                v = self.ev(s.value, env)
                for t in s.targets:
                    self.assign(t, v, env)
                continue
            if isinstance(s, ast.If):
                c = self.ev(s.test, env)
                if not isinstance(c, (bool, int)):
                    raise AnalysisError(f"shape evaluator: non-concrete condition {unparse(s.test)}")
                self.block(s.body if c else s.orelse, env)
                continue
            if isinstance(s, ast.For):
                it = self.ev(s.iter, env)
                if not isinstance(it, (list, tuple)):
                    raise AnalysisError(f"shape evaluator: cannot iterate {unparse(s.iter)}")
                for x in it:
                    self.assign(s.target, x, env)
                    self.block(s.body, env)
                continue
            raise AnalysisError(f"shape evaluator: unsupported statement {type(s).__name__} at line {getattr(s, 'lineno', '?')}")

    def assign(self, t, v, env):
        if isinstance(t, ast.Name):
            env[t.id] = v
        elif isinstance(t, (ast.Tuple, ast.List)):
            if not isinstance(v, (list, tuple)) or len(v) != len(t.elts):
                raise AnalysisError(f"shape evaluator: cannot unpack into {unparse(t)}")
            for e, x in zip(t.elts, v):
                self.assign(e, x, env)
        else:
            raise AnalysisError(f"shape evaluator: unsupported target {unparse(t)}")

    def ev(self, e, env):
        if isinstance(e, ast.Constant):
            return e.value
        if isinstance(e, ast.Name):
            if e.id in env:
                return env[e.id]
            if e.id in ("True", "False", "None"):
                return {"True": True, "False": False, "None": None}[e.id]
            return ("name", e.id)
        if isinstance(e, (ast.Tuple, ast.List)):
            return [self.ev(x, env) for x in e.elts]
        if isinstance(e, ast.Attribute):
            base = self.ev(e.value, env)
            if isinstance(base, ShapeV):
                if e.attr == "width":
                    return base.width
                if e.attr == "signed":
                    return base.signed
            if isinstance(base, dict) and e.attr in base:
                return base[e.attr]
            if isinstance(base, tuple) and base[0] == "name":
                return ("name", base[1] + "." + e.attr)
            raise AnalysisError(f"shape evaluator: unknown attribute {unparse(e)}")
        if isinstance(e, ast.Compare) and len(e.ops) == 1:
            l, r = self.ev(e.left, env), self.ev(e.comparators[0], env)
            op = e.ops[0]
            if isinstance(l, MP) or isinstance(r, MP):
                raise AnalysisError(f"shape evaluator: comparison on a symbolic width: {unparse(e)}")
            if isinstance(op, ast.Eq):
                return l == r
            if isinstance(op, ast.NotEq):
                return l != r
            if isinstance(op, ast.In):
                return l in r
            if isinstance(op, ast.NotIn):
                return l not in r
            raise AnalysisError(f"shape evaluator: unsupported comparison {unparse(e)}")
        if isinstance(e, ast.BoolOp):
            vals = [self.ev(v, env) for v in e.values]
            if isinstance(e.op, ast.Or):
                out = False
                for v in vals:
                    out = out or v
                return out
            out = True
            for v in vals:
                out = out and v
            return out
        if isinstance(e, ast.UnaryOp) and isinstance(e.op, ast.Not):
            return not self.ev(e.operand, env)
        if isinstance(e, ast.BinOp):
            l, r = self.ev(e.left, env), self.ev(e.right, env)
            if isinstance(e.op, ast.Add):
                return self._add(l, r)
            if isinstance(e.op, ast.Sub):
                if isinstance(l, MP):
                    return l - (int(r) if not isinstance(r, MP) else r)
                if isinstance(r, MP):
                    raise AnalysisError("shape evaluator: const - symbolic")
                return l - r
            if isinstance(e.op, ast.Pow):
                if l == 2 and isinstance(r, MP) and len(r.forms) == 1:
                    (c, t), = r.forms
                    if c == 0 and len(t) == 1 and t[0][1] == 1:
                        return MP.sym("2**" + t[0][0])
                if not isinstance(l, MP) and not isinstance(r, MP):
                    return l ** r
                raise AnalysisError(f"shape evaluator: unsupported power {unparse(e)}")
            if isinstance(e.op, ast.Mult) and not isinstance(l, MP) and not isinstance(r, MP):
                return l * r
            raise AnalysisError(f"shape evaluator: unsupported arithmetic {unparse(e)}")
        if isinstance(e, ast.Call):
            fn = dotted(e.func)
            args = [self.ev(a, env) for a in e.args]
            kw = {k.arg: self.ev(k.value, env) for k in e.keywords}
            if fn == "Shape":
                w = args[0] if args else kw.get("width", 1)
                s = args[1] if len(args) > 1 else kw.get("signed", False)
                return ShapeV(w if isinstance(w, MP) else MP.const(int(w)), s)
            if fn == "unsigned":
                return ShapeV(args[0], False)
            if fn == "signed":
                return ShapeV(args[0], True)
            if fn == "max":
                xs = args[0] if len(args) == 1 and isinstance(args[0], list) else args
                out = None
                for x in xs:
                    x = x if isinstance(x, MP) else MP.const(int(x))
                    out = x if out is None else out.max(x)
                return out
            if fn == "len":
                return len(args[0])
            if fn == "isinstance":
                return True
            if fn in ("list", "tuple") and args and isinstance(args[0], list):
                return list(args[0])
            if fn in self.functions:
                return self.call(self.functions[fn], args)
            raise AnalysisError(f"shape evaluator: unknown call {unparse(e)}")
        if isinstance(e, ast.GeneratorExp) or isinstance(e, ast.ListComp):
            g = e.generators[0]
            it = self.ev(g.iter, env)
            out = []
            for x in it:
                env2 = dict(env)
                self.assign(g.target, x, env2)
                out.append(self.ev(e.elt, env2))
            return out
        raise AnalysisError(f"shape evaluator: unsupported expression {unparse(e)}")

    @staticmethod
    def _add(l, r):
        if isinstance(l, MP) or isinstance(r, MP):
            l = l if isinstance(l, MP) else MP.const(int(l))
            r = r if isinstance(r, MP) else MP.const(int(r))
            return l + r
        return l + r
