"""E8: run one property's rules, match known findings, write evidence, print the verdict lines."""
import importlib
import json
import os
import sys
import time
import traceback

from .core import Model, Ctx, AnalysisError, VERIF, load_known_findings

EVID_DIR = os.path.join(VERIF, "evidence")


def defined_names(tree):
    """names a module defines: functions, methods, classes (any nesting), module- and class-level assigned names"""
    import ast
    out = set()
    for n in ast.walk(tree):
        if isinstance(n, (ast.FunctionDef, ast.AsyncFunctionDef, ast.ClassDef)):
            out.add(n.name)
    def assigned(body):
        for st in body:
            tgts = st.targets if isinstance(st, ast.Assign) else [st.target] if isinstance(st, (ast.AnnAssign, ast.AugAssign)) else []
            for t in tgts:
                for x in ast.walk(t):
                    if isinstance(x, ast.Name):
                        out.add(x.id)
            if isinstance(st, ast.ClassDef):
                assigned(st.body)
    assigned(tree.body)
    return out


_KNOWN = None
_KNOWN_SRC = None
DRIFT_LIMIT = 8     # changed source lines per file (see DESIGN.md 9.6: seeded defects: median 3, 92 % below 8; refactorings: median 20)


def normalised_lines(tree):
    """the module's code as normalised text lines (ast.unparse: comments, blank lines and layout vanish; docstrings dropped)"""
    import ast, copy
    t = copy.deepcopy(tree)
    for n in ast.walk(t):
        if isinstance(n, (ast.FunctionDef, ast.AsyncFunctionDef, ast.ClassDef, ast.Module)) and n.body and \
                isinstance(n.body[0], ast.Expr) and isinstance(getattr(n.body[0], "value", None), ast.Constant) and \
                isinstance(n.body[0].value.value, str):
            n.body = n.body[1:] or [ast.Pass()]
    return [l.strip() for l in ast.unparse(t).splitlines() if l.strip()]


def file_drift(model, rel):
    """number of normalised source lines of `rel` that differ from the snapshot taken when the rules were written"""
    import collections
    global _KNOWN_SRC
    if _KNOWN_SRC is None:
        try:
            _KNOWN_SRC = json.load(open(os.path.join(VERIF, "sa", "known_source.json")))
        except OSError:
            _KNOWN_SRC = {}
    if rel not in _KNOWN_SRC:
        return 0
    then = collections.Counter(_KNOWN_SRC[rel])
    now = collections.Counter(normalised_lines(model.mod(rel).tree))
    return sum(((then - now) + (now - then)).values())



def novelty_guard(model, ctx):
    """Violations located in a function that now uses a definition unknown when the rules were written (sa/known_names.json)
    are turned into analysis errors: the rule's idea of where the logic lives no longer holds (extract-method, a table moved
    to module level, a new property), so a mismatch is not evidence that the property is broken."""
    import ast
    global _KNOWN
    if _KNOWN is None:
        try:
            _KNOWN = {k: set(v) for k, v in json.load(open(os.path.join(VERIF, "sa", "known_names.json"))).items()}
        except OSError:
            _KNOWN = {}
    new_names = set()
    for rel in model.all_files():
        try:
            now = defined_names(model.mod(rel).tree)
        except Exception:
            continue
        new_names |= now - _KNOWN.get(rel, set() if rel in _KNOWN else now)
    new_names = {n for n in new_names if not (n.startswith("__") and n.endswith("__"))}
    moved, keep = [], []
    drift_cache = {}
    try:
        known_keys = {k["key"] for k in load_known_findings().get("findings", []) if k.get("property") == ctx.prop}
    except Exception:
        known_keys = set()
    for v in ctx.violations:
        if f"{v['rule']}|{v['construct']}" in known_keys:
            keep.append(v)          # a recorded finding stays a recorded finding, however its surroundings are rewritten
            continue
        rel, _, line = v["where"].partition(":")
        hit = None
        # rewritten anchor: the file the construct lives in differs from the source the rules were written against in more
        # lines than a local defect touches — the rule's assumptions about where things are and how they are spelt are in doubt
        if rel.startswith("amaranth/"):
            if rel not in drift_cache:
                try:
                    drift_cache[rel] = file_drift(model, rel)
                except Exception:
                    drift_cache[rel] = 0
            if drift_cache[rel] > DRIFT_LIMIT:
                moved.append(f"{v['rule']}: {v['construct']}: {rel} differs from the source the rules were written against in "
                             f"{drift_cache[rel]} lines (more than {DRIFT_LIMIT}): rewritten code, the rule's idiom may not apply "
                             f"(its mismatch was: {v['message'][:160]})")
                for o in ctx.obligations:
                    if o.get("rule") == v["rule"] and o.get("construct") == v["construct"] and o.get("status") == "VIOLATED":
                        o["status"] = "unrecognised"
                continue
        if not new_names:
            keep.append(v)
            continue
        try:
            line = int(line.split(":")[0])
            tree = model.mod(rel).tree
            best = None
            for n in ast.walk(tree):
                if isinstance(n, (ast.FunctionDef, ast.AsyncFunctionDef)) and n.lineno <= line <= (n.end_lineno or n.lineno):
                    if best is None or n.lineno <= best.lineno:      # outermost enclosing function: its closures count
                        best = n
            if best is None:
                # a class-level location: the innermost class
                for n in ast.walk(tree):
                    if isinstance(n, ast.ClassDef) and n.lineno <= line <= (n.end_lineno or n.lineno):
                        if best is None or n.lineno >= best.lineno:
                            best = n
            if best is not None:
                used = {x.id for x in ast.walk(best) if isinstance(x, ast.Name)} | {x.attr for x in ast.walk(best) if isinstance(x, ast.Attribute)}
                hit = sorted(used & new_names)
                if getattr(best, "name", None) in new_names:
                    hit = sorted(set(hit) | {best.name})      # the construct lives in a definition the rules never saw
        except Exception:
            hit = None
        if hit:
            moved.append(f"{v['rule']}: {v['construct']}: the code at {v['where']} now relies on {hit[:4]}, defined after the rules "
                         f"were written; the rule does not model it (its mismatch was: {v['message'][:160]})")
            for o in ctx.obligations:
                if o.get("rule") == v["rule"] and o.get("construct") == v["construct"] and o.get("status") == "VIOLATED":
                    o["status"] = "unrecognised"
        else:
            keep.append(v)
    ctx.violations[:] = keep
    return moved


def run_rules(prop, model, tier="quick", seed=0):
    """Returns (ctx, errors) — errors are AnalysisError texts per rule."""
    mod = importlib.import_module(f"sa.rules.{prop.lower()}")
    ctx = Ctx(prop, tier, seed)
    errors = []
    rules = list(mod.RULES)
    minimums = dict(getattr(mod, "MIN_INSTANCES", {}))
    for rule_id, fn in rules:
        try:
            fn(model, ctx)
        except AnalysisError as e:
            errors.append(f"{rule_id}: {e}")
        except RecursionError as e:
            errors.append(f"{rule_id}: recursion limit in analyser: {e}")
        except Exception as e:  # a bug in the checker or an unforeseen shape: analysis broken, not a verdict
            tb = traceback.format_exc(limit=6)
            errors.append(f"{rule_id}: internal error {type(e).__name__}: {e}\n{tb}")
    errors.extend(ctx.deferred)
    errors.extend(novelty_guard(model, ctx))
    for rule_id, minimum in minimums.items():
        if any(err.startswith(rule_id + ":") for err in errors):
            continue
        n = ctx.count(rule_id)
        if n < minimum:
            errors.append(f"{rule_id}: only {n} rule instances recognised, at least {minimum} were confirmed by hand "
                          f"on the pinned tree (vacuous pass refused)")
    return mod, ctx, errors


def write_replay(prop, n, v, model):
    d = os.path.join(EVID_DIR, "replay")
    os.makedirs(d, exist_ok=True)
    path = os.path.join(d, f"{prop}-{n}.json")
    with open(path, "w") as f:
        json.dump({"property": prop, "key": f"{v['rule']}|{v['construct']}", "rule": v["rule"],
                   "construct": v["construct"], "where": v["where"], "message": v["message"],
                   "how_to_replay": f"./check {prop} --replay {path}   (re-analyses /repo and reports whether this "
                                    f"rule instance still fires)"}, f, indent=1)
    return path


def main(argv=None):
    argv = list(sys.argv[1:] if argv is None else argv)
    if not argv:
        print("usage: check <ID> [--tier quick|thorough] [--replay FILE]")
        return 2
    prop = argv[0].upper()
    tier = os.environ.get("VERIF_TIER", "quick")
    replay = None
    i = 1
    while i < len(argv):
        if argv[i] == "--tier":
            tier = argv[i + 1]
            i += 2
        elif argv[i] == "--replay":
            replay = argv[i + 1]
            i += 2
        else:
            i += 1
    if tier not in ("quick", "thorough"):
        tier = "quick"
    try:
        seed = int(os.environ.get("VERIF_SEED", "0"))
    except ValueError:
        seed = 0
    t0 = time.time()
    model = Model()
    try:
        mod, ctx, errors = run_rules(prop, model, tier, seed)
    except ModuleNotFoundError:
        print(f"ANALYSIS-ERROR property={prop}: no rule module (property not claimed)")
        return 2

    selftest = None
    if tier == "thorough" and not replay:
        try:
            from sa.selftest.driver import run_selftest
            selftest = run_selftest(prop, seed)
        except Exception as e:
            selftest = {"error": f"{type(e).__name__}: {e}", "traceback": traceback.format_exc(limit=5)}

    known = load_known_findings()
    known_keys = {k["key"]: k for k in known.get("findings", []) if k.get("property") == prop}

    if replay:
        with open(replay) as f:
            want = json.load(f)
        hit = [v for v in ctx.violations if f"{v['rule']}|{v['construct']}" == want["key"]]
        if hit:
            print(f"replay: {want['key']} still fires: {hit[0]['where']}: {hit[0]['message']}")
            print(f"VIOLATION property={prop} replay={replay}")
            return 1
        print(f"replay: {want['key']} no longer fires on the current tree")
        return 0

    new_viol = []
    known_hit = []
    seen = set()
    for v in ctx.violations:
        key = f"{v['rule']}|{v['construct']}"
        if key in seen:
            continue
        seen.add(key)
        if key in known_keys:
            known_hit.append((key, v))
        else:
            new_viol.append(v)

    for key, v in known_hit:
        print(f"KNOWN-FINDING: property={prop} {key} at {v['where']}: {known_keys[key].get('what', v['message'])}")

    # ------------------------------------------------------------------ evidence
    rules = sorted({o["rule"] for o in ctx.obligations})
    distinct = sorted({(o["rule"], o["construct"]) for o in ctx.obligations})
    samples = []
    per_rule_seen = {}
    for o in ctx.obligations:
        k = per_rule_seen.get(o["rule"], 0)
        if k < 2:
            samples.append(o)
            per_rule_seen[o["rule"]] = k + 1
    coverage = {
        "explanation": getattr(mod, "EXPLANATION", ""),
        "evaluations": len(ctx.obligations),
        "distinct_nontrivial": len(distinct),
        "rule": "one evaluation = one rule instance (a construct found in /repo's current source and compared with "
                "its oracle); distinct = distinct (rule, construct) pairs; every instance is non-trivial in that it "
                "names a concrete source construct that was located and inspected on this run",
        "obligations": len(ctx.obligations),
        "discharged": sum(1 for o in ctx.obligations if o["status"] == "holds"),
        "rules_run": rules,
        "per_rule_instances": {r: ctx.count(r) for r in rules},
        "samples": samples[:60],
        "violated_instances": [f"{v['rule']}|{v['construct']}" for v in ctx.violations],
        "known_findings_matched": [k for k, _ in known_hit],
        "analysis_errors": errors,
        "files_consulted": model.consulted,
        "notes": ctx.notes[:50],
        "exhaustive": False,
    }
    if selftest is not None:
        coverage["selftest"] = selftest
    ev = {
        "property_id": prop,
        "tier": tier,
        "seed": seed,
        "level": "other",
        "coverage": coverage,
        "assumptions": getattr(mod, "ASSUMPTIONS", []),
        "wall_s": round(time.time() - t0, 3),
        "violations": len(new_viol),
    }
    no_ev = bool(os.environ.get("VERIF_NO_EVIDENCE"))   # used by tools/run_seeds.py on deliberately broken trees
    if not no_ev:
        os.makedirs(EVID_DIR, exist_ok=True)
        with open(os.path.join(EVID_DIR, f"{prop}.json"), "w") as f:
            json.dump(ev, f, indent=1, sort_keys=False)

    print(f"{prop} [{tier}]: {len(ctx.obligations)} rule instances over {len(model.consulted)} files, "
          f"{len(new_viol)} new violation(s), {len(known_hit)} known finding(s), {len(errors)} analysis error(s), "
          f"{ev['wall_s']}s")
    for r in rules:
        print(f"  {r}: {ctx.count(r)} instances")
    if selftest is not None:
        if "error" in selftest:
            print(f"  selftest: ERROR {selftest['error']}")
        else:
            print(f"  selftest: {selftest['mutants_detected']}/{selftest['mutants_applied']} must-fire mutants detected, "
                  f"{selftest['benign_silent']}/{selftest['benign_applied']} benign variants silent, "
                  f"{selftest['stale']} stale")
            if selftest.get("fail_closed"):
                print(f"  selftest: {selftest['fail_closed']} must-fire mutant(s) end in exit 2 because the edited code relies on "
                      f"definitions newer than the rules (novelty guard): {selftest.get('fail_closed_ids')}")
            if selftest.get("stale_ids"):
                print(f"  selftest stale: {selftest['stale_ids']}")
            for m in selftest.get("misses", []):
                print(f"  SELFTEST-MISS {m}")
    rc = 0
    for n, v in enumerate(new_viol):
        path = write_replay(prop, n, v, model) if not no_ev else "(not written)"
        print(f"  {v['where']}: [{v['rule']}] {v['construct']}: {v['message']}")
        print(f"VIOLATION property={prop} replay={path}")
        rc = 1
    for e in errors:
        print(f"ANALYSIS-ERROR property={prop} {e}")
    if rc == 0 and errors:
        rc = 2
    return rc
