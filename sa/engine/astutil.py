"""E2 dispatch recovery and E3 template recovery, plus small AST helpers."""
import ast
from .core import AnalysisError, need


# ----------------------------------------------------------------------------- small helpers

def dotted(node):
    """a.b.c -> 'a.b.c'; Name -> id; else None"""
    if isinstance(node, ast.Name):
        return node.id
    if isinstance(node, ast.Attribute):
        base = dotted(node.value)
        return None if base is None else base + "." + node.attr
    return None


def last_name(node):
    if isinstance(node, ast.Name):
        return node.id
    if isinstance(node, ast.Attribute):
        return node.attr
    return None


def const_str(node):
    return node.value if isinstance(node, ast.Constant) and isinstance(node.value, str) else None


def const_int(node):
    if isinstance(node, ast.Constant) and isinstance(node.value, int) and not isinstance(node.value, bool):
        return node.value
    if isinstance(node, ast.UnaryOp) and isinstance(node.op, ast.USub):
        v = const_int(node.operand)
        return None if v is None else -v
    return None


def str_elts(node):
    """("a", "b") / ["a"] / {"a"} -> list of str, else None"""
    if isinstance(node, (ast.Tuple, ast.List, ast.Set)):
        out = [const_str(e) for e in node.elts]
        return None if any(o is None for o in out) else out
    return None


def call_name(node):
    """Call -> dotted callee name or None"""
    if isinstance(node, ast.Call):
        return dotted(node.func)
    return None


def is_call(node, *names):
    cn = call_name(node)
    return cn is not None and (cn in names or cn.split(".")[-1] in names)


def walk_no_nested(node, include_self=True):
    """ast.walk that does not descend into nested function/class/lambda definitions."""
    stack = [node] if include_self else list(ast.iter_child_nodes(node))
    first = True
    while stack:
        n = stack.pop()
        yield n
        for c in ast.iter_child_nodes(n):
            if isinstance(c, (ast.FunctionDef, ast.AsyncFunctionDef, ast.ClassDef, ast.Lambda)):
                continue
            stack.append(c)


def calls_in(node, nested=True):
    it = ast.walk(node) if nested else walk_no_nested(node)
    return [n for n in it if isinstance(n, ast.Call)]


def names_in(node):
    return {n.id for n in ast.walk(node) if isinstance(n, ast.Name)}


def dump(node):
    """Canonical structural text of an AST (no positions)."""
    return ast.dump(node, annotate_fields=False, include_attributes=False)


def same(a, b):
    return dump(a) == dump(b)


def unparse(node):
    try:
        return ast.unparse(node)
    except Exception:
        return "<unparse failed>"


def terminates(stmts):
    """True if the statement list always leaves the enclosing block (return/raise/continue/break/assert False)."""
    if not stmts:
        return False
    s = stmts[-1]
    if isinstance(s, (ast.Return, ast.Raise, ast.Continue, ast.Break)):
        return True
    if isinstance(s, ast.Assert) and isinstance(s.test, ast.Constant) and s.test.value is False:
        return True
    if isinstance(s, ast.If) and s.orelse:
        return terminates(s.body) and terminates(s.orelse)
    return False


def is_rejection(stmts):
    """An explicit rejection tail: raise ... / assert False."""
    for s in stmts:
        if isinstance(s, ast.Raise):
            return True
        if isinstance(s, ast.Assert) and isinstance(s.test, ast.Constant) and s.test.value is False:
            return True
    return False


# ----------------------------------------------------------------------------- E2: guards and dispatch

def parse_guard(test):
    """Decompose an `if` test into dispatch atoms, or None when it is not a recognised dispatch guard.

    atoms: ('isinstance', subj, frozenset(names)) | ('op', subj, frozenset(syms)) | ('arity', subj, n)
           | ('typeis', subj, frozenset(names)) | ('kind', subj, frozenset(names)) | ('not', (atoms...))
    """
    if isinstance(test, ast.BoolOp) and isinstance(test.op, ast.And):
        out = []
        known = 0
        for v in test.values:
            sub = parse_guard(v)
            if sub is None:
                # an extra, non-dispatch condition: keep the branch as a *conditional* handler of its keys
                out.append(("unknown", unparse(v)))
            else:
                known += 1
                out.extend(sub)
        return tuple(out) if known else None
    if isinstance(test, ast.UnaryOp) and isinstance(test.op, ast.Not):
        sub = parse_guard(test.operand)
        return None if sub is None else (("not", sub),)
    if isinstance(test, ast.Call) and dotted(test.func) == "isinstance" and len(test.args) == 2:
        subj = unparse(test.args[0])
        t = test.args[1]
        if isinstance(t, ast.Tuple):
            names = [last_name(e) for e in t.elts]
        else:
            names = [last_name(t)]
        if any(n is None for n in names):
            return None
        return (("isinstance", subj, frozenset(names)),)
    if isinstance(test, ast.Compare) and len(test.ops) == 1:
        left, op, right = test.left, test.ops[0], test.comparators[0]
        # X.operator == "lit" / X.operator in (...)
        if isinstance(left, ast.Attribute) and left.attr == "operator" or \
                (isinstance(left, ast.Name) and left.id in ("operator", "op")):
            subj = unparse(left)
            if isinstance(op, ast.Eq) and const_str(right) is not None:
                return (("op", subj, frozenset([const_str(right)])),)
            if isinstance(op, ast.In) and str_elts(right) is not None:
                return (("op", subj, frozenset(str_elts(right))),)
            if isinstance(op, ast.NotEq) and const_str(right) is not None:
                return (("not", (("op", subj, frozenset([const_str(right)])),)),)
        # len(X.operands) == n
        if isinstance(op, ast.Eq) and isinstance(left, ast.Call) and dotted(left.func) == "len" \
                and len(left.args) == 1 and const_int(right) is not None and (
                    isinstance(left.args[0], ast.Attribute) and left.args[0].attr in ("operands", "inputs")
                    or isinstance(left.args[0], ast.Name) and left.args[0].id in ("op_shapes", "operands", "inputs")):
            return (("arity", unparse(left.args[0]), const_int(right)),)
        # type(x) is T / type(x) in (..)
        if isinstance(left, ast.Call) and dotted(left.func) == "type" and len(left.args) == 1:
            subj = unparse(left.args[0])
            if isinstance(op, (ast.Is, ast.Eq)) and last_name(right):
                return (("typeis", subj, frozenset([last_name(right)])),)
            if isinstance(op, ast.In) and isinstance(right, (ast.Tuple, ast.List, ast.Set)):
                names = [last_name(e) for e in right.elts]
                if all(names):
                    return (("typeis", subj, frozenset(names)),)
        # stmt.kind == Property.Kind.X
        if isinstance(left, ast.Attribute) and left.attr == "kind" and isinstance(op, ast.Eq) \
                and isinstance(right, ast.Attribute):
            return (("kind", unparse(left), frozenset([right.attr])),)
    return None


class Leaf:
    def __init__(self, conds, prelude, body, node):
        self.conds = conds      # tuple of atoms (conjunction)
        self.prelude = prelude  # statements executed before reaching the body on this path
        self.body = body        # list of statements
        self.node = node        # the If node (or first stmt) for location

    @property
    def lineno(self):
        return getattr(self.node, "lineno", 0)

    def stmts(self):
        return list(self.prelude) + list(self.body)

    def __repr__(self):
        return f"Leaf({self.conds}, line {self.lineno})"


def parse_guard_strict(test):
    """parse_guard, but a test with extra non-dispatch conjuncts is not a dispatch guard"""
    g = parse_guard(test)
    if g is None or any(a[0] == "unknown" for a in g):
        return None
    return g


def dispatch_leaves(stmts, conds=(), prelude=(), guard=parse_guard_strict):
    """Flatten nested if/elif/else dispatch into ordered leaves (source order == priority order)."""
    out = []
    pre = list(prelude)
    saw_dispatch = False
    tail = []
    for s in stmts:
        atoms = guard(s.test) if isinstance(s, ast.If) else None
        if atoms is not None:
            saw_dispatch = True
            out += dispatch_leaves(s.body, conds + atoms, pre + tail, guard)
            if s.orelse:
                out += dispatch_leaves(s.orelse, conds + (("not", atoms),), pre + tail, guard)
                if terminates(s.body) and terminates(s.orelse):
                    return out
        else:
            if saw_dispatch:
                tail.append(s)
            else:
                pre.append(s)
    if not saw_dispatch:
        first = stmts[0] if stmts else None
        out.append(Leaf(conds, list(prelude), [s for s in stmts], first))
    elif tail:
        out.append(Leaf(conds + (("fallthrough",),), pre, tail, tail[0]))
    return out


def eval_atom(atom, env):
    """env: dict subject-kind -> value; keys: 'isinstance' (class name), 'op', 'arity', 'kind'.
    Returns True/False/None(unknown)."""
    tag = atom[0]
    if tag == "fallthrough":
        return True
    if tag == "not":
        vals = [eval_atom(a, env) for a in atom[1]]
        if any(v is False for v in vals):
            return True
        if all(v is True for v in vals):
            return False
        return None
    if tag in ("isinstance", "typeis"):
        k = env.get("class")
        if k is None:
            return None
        sup = env.get("supers", {}).get(k, ())
        return k in atom[2] or any(s in atom[2] for s in sup)
    if tag == "op":
        k = env.get("op")
        return None if k is None else k in atom[2]
    if tag == "arity":
        k = env.get("arity")
        return None if k is None else k == atom[2]
    if tag == "kind":
        k = env.get("kind")
        return None if k is None else k in atom[2]
    return None


def candidate_leaves(leaves, env):
    """All leaves that may handle env: conditional handlers (with unknown extra conditions) in priority order, up to
    and including the first leaf that definitely matches."""
    out = []
    for lf in leaves:
        vals = [eval_atom(a, env) for a in lf.conds]
        if any(v is False for v in vals):
            continue
        out.append(lf)
        if all(v is True for v in vals):
            break
    return out


def select_leaf(leaves, env, unknown_as=False):
    for lf in leaves:
        ok = True
        for a in lf.conds:
            v = eval_atom(a, env)
            if v is None:
                v = unknown_as
            if not v:
                ok = False
                break
        if ok:
            return lf
    return None


def on_methods(model, rel, clsname, search=()):
    """All on_<Kind> methods visible on a visitor class through its (name-resolved) bases."""
    out = {}
    seen = set()
    queue = [clsname]
    files = [rel, *search]
    order = []
    while queue:
        cn = queue.pop(0)
        if cn in seen:
            continue
        seen.add(cn)
        for f in files:
            c = model.find(f"{f}::{cn}", (ast.ClassDef,), optional=True)
            if c is None:
                continue
            order.append((f, c))
            queue.extend(model.base_names(c))
            break
    for f, c in order:
        for name, node in model.class_methods(c).items():
            if name.startswith("on_") and name not in out:
                out[name] = (f, c.name, node)
        for name, val in model.class_assigns(c).items():
            if name.startswith("on_") and name not in out:
                out[name] = (f, c.name, val)
    return out


# ----------------------------------------------------------------------------- E3: templates

class Hole:
    def __init__(self, expr, idx, fmt=None, conv=-1):
        self.expr = expr
        self.idx = idx
        self.fmt = fmt
        self.conv = conv

    @property
    def src(self):
        return unparse(self.expr)

    def __repr__(self):
        return f"Hole#{self.idx}<{self.src}>"


class Template:
    """A text template: sequence of literal strings and holes."""

    def __init__(self, parts, node):
        self.parts = parts
        self.node = node

    @property
    def holes(self):
        return [p for p in self.parts if isinstance(p, Hole)]

    def text(self, hole_fmt="__H{}__"):
        out = []
        for p in self.parts:
            out.append(hole_fmt.format(p.idx) if isinstance(p, Hole) else p)
        return "".join(out)

    def skeleton(self):
        return self.text("{{{}}}")

    def text_with(self, subs):
        """text with some holes (by index) replaced by literal strings, the others by __Hn__ identifiers"""
        out = []
        for p in self.parts:
            if isinstance(p, Hole):
                out.append(subs[p.idx] if p.idx in subs else f"__H{p.idx}__")
            else:
                out.append(p)
        return "".join(out)

    def as_expr(self):
        """Parse the generated-Python text with holes as identifiers; None if not an expression."""
        try:
            return ast.parse(self.text().strip(), mode="eval").body
        except SyntaxError:
            return None

    def as_stmt(self):
        txt = self.text().strip()
        if txt.endswith(":"):
            txt += "\n    pass"
        try:
            body = ast.parse(txt).body
        except SyntaxError:
            return None
        return body[0] if len(body) == 1 else None

    def hole_by_name(self, name):
        if name.startswith("__H") and name.endswith("__"):
            idx = int(name[3:-2])
            for h in self.holes:
                if h.idx == idx:
                    return h
        return None


def template_of(node):
    """JoinedStr / Constant str / 'a' + f'..' concatenations -> Template, else None."""
    parts = []

    def rec(n):
        if isinstance(n, ast.Constant) and isinstance(n.value, str):
            parts.append(n.value)
            return True
        if isinstance(n, ast.JoinedStr):
            for v in n.values:
                if isinstance(v, ast.Constant):
                    parts.append(str(v.value))
                elif isinstance(v, ast.FormattedValue):
                    fmt = None
                    if v.format_spec is not None:
                        fmt = "".join(x.value for x in v.format_spec.values if isinstance(x, ast.Constant))
                    parts.append(Hole(v.value, sum(isinstance(p, Hole) for p in parts), fmt, v.conversion))
                else:
                    return False
            return True
        if isinstance(n, ast.BinOp) and isinstance(n.op, ast.Add):
            return rec(n.left) and rec(n.right)
        return False

    if not rec(node):
        return None
    # merge adjacent literals
    merged = []
    for p in parts:
        if isinstance(p, str) and merged and isinstance(merged[-1], str):
            merged[-1] += p
        else:
            merged.append(p)
    return Template(merged, node)


def emitted_templates(fn, methods=("append",), receivers=None):
    """All `<emitter>.append(f"...")` / def_var(prefix, f"...") templates in a function, source order.
    Returns list of (call_node, Template, kind)."""
    out = []
    for n in ast.walk(fn):
        if isinstance(n, ast.Call) and isinstance(n.func, ast.Attribute):
            if n.func.attr == "append" and n.args:
                recv = unparse(n.func.value)
                if recv.endswith("emitter"):
                    t = template_of(n.args[0])
                    if t is not None:
                        out.append((n, t, "append"))
            elif n.func.attr == "def_var" and len(n.args) == 2:
                t = template_of(n.args[1])
                if t is not None:
                    out.append((n, t, "def_var"))
    out.sort(key=lambda x: (x[0].lineno, x[0].col_offset))
    return out


# ----------------------------------------------------------------------------- structural pattern matching

_PAT_CACHE = {}


def pat(src):
    """Parse an expression pattern; names starting with _V_ are metavariables (bind any subtree, consistently)."""
    if src not in _PAT_CACHE:
        _PAT_CACHE[src] = ast.parse(src, mode="eval").body
    return _PAT_CACHE[src]


def pmatch(p, n, b=None):
    """Match pattern AST p against node n. Returns bindings dict or None. Ignores positions and ctx."""
    if isinstance(p, str):
        p = pat(p)
    b = {} if b is None else b
    return b if _pm(p, n, b) else None


def _pm(p, n, b):
    if isinstance(p, ast.Name) and p.id.startswith("_V_"):
        if p.id in b:
            return dump(b[p.id]) == dump(n)
        b[p.id] = n
        return True
    if type(p) is not type(n):
        return False
    if isinstance(p, ast.AST):
        for f in p._fields:
            if f == "ctx":
                continue
            pv, nv = getattr(p, f, None), getattr(n, f, None)
            if isinstance(pv, list):
                if not isinstance(nv, list) or len(pv) != len(nv):
                    return False
                for a, c in zip(pv, nv):
                    if not _pm(a, c, b):
                        return False
            elif isinstance(pv, ast.AST):
                if not isinstance(nv, ast.AST) or not _pm(pv, nv, b):
                    return False
            else:
                if pv != nv:
                    return False
        return True
    return p == n


def pmatch_any(patterns, n):
    for p in patterns:
        b = pmatch(p, n)
        if b is not None:
            return b
    return None


def find_matches(p, root):
    """All (node, bindings) in root matching pattern p."""
    if isinstance(p, str):
        p = pat(p)
    out = []
    for n in ast.walk(root):
        b = pmatch(p, n)
        if b is not None:
            out.append((n, b))
    return out


def parent_map(root):
    """child node -> parent node for an arbitrary (possibly expanded / copied) AST"""
    pm = {}
    for p in ast.walk(root):
        for c in ast.iter_child_nodes(p):
            pm[c] = p
    return pm


def path_condition(pm, node, stop=None):
    """[(test, polarity)] of the `if` statements enclosing `node` (innermost last), using a parent map"""
    out = []
    child, p = node, pm.get(node)
    while p is not None and p is not stop:
        if isinstance(p, ast.If):
            if any(child is x for x in p.body):
                out.append((p.test, True))
            elif any(child is x for x in p.orelse):
                out.append((p.test, False))
        child, p = p, pm.get(p)
    return list(reversed(out))


def dominating_conditions(pm, node, stop=None):
    """[(test, polarity)] that hold whenever `node` runs: the tests of enclosing `if`s (with the arm's polarity) and the
    negations of earlier guard clauses in the enclosing statement lists (`if C: continue/return/raise/break` without else)"""
    out = []
    child, p = node, pm.get(node)
    while p is not None and p is not stop:
        for field in ("body", "orelse", "finalbody"):
            lst = getattr(p, field, None)
            if isinstance(lst, list) and any(child is x for x in lst):
                idx = [i for i, x in enumerate(lst) if x is child][0]
                for prev in lst[:idx]:
                    if isinstance(prev, ast.If) and not prev.orelse and terminates(prev.body):
                        out.append((prev.test, False))
                if isinstance(p, ast.If):
                    out.append((p.test, field == "body"))
        child, p = p, pm.get(p)
    if p is stop and stop is not None:
        lst = getattr(stop, "body", None)
        if isinstance(lst, list) and any(child is x for x in lst):
            idx = [i for i, x in enumerate(lst) if x is child][0]
            for prev in lst[:idx]:
                if isinstance(prev, ast.If) and not prev.orelse and terminates(prev.body):
                    out.append((prev.test, False))
    return out


def dict_contributions(root, dname):
    """How the dict held in local `dname` is filled: [(iterable, target, key, value)] (unparsed) from
    `for T in IT: d[K] = V`, `d = {K: V for T in IT}`, `d.update((K, V) for T in IT)` and `d.update({K: V for T in IT})`;
    plain `d[K] = V` outside a loop gives (None, None, K, V). Anything else that touches `d` gives ("?", ..)."""
    out = []
    pm = parent_map(root)
    for n in ast.walk(root):
        if isinstance(n, ast.Assign) and len(n.targets) == 1:
            t = n.targets[0]
            if isinstance(t, ast.Subscript) and unparse(t.value) == dname:
                p = pm.get(n)
                loop = p if isinstance(p, ast.For) and len(p.body) == 1 else None
                if loop is not None:
                    out.append((unparse(loop.iter), unparse(loop.target), unparse(t.slice), unparse(n.value)))
                else:
                    q = p
                    while q is not None and not isinstance(q, (ast.For, ast.While)):
                        q = pm.get(q)
                    out.append(("?" if q is not None else None, None, unparse(t.slice), unparse(n.value)))
            elif isinstance(t, ast.Name) and t.id == dname:
                v = n.value
                if isinstance(v, ast.DictComp) and len(v.generators) == 1 and not v.generators[0].ifs:
                    g = v.generators[0]
                    out.append((unparse(g.iter), unparse(g.target), unparse(v.key), unparse(v.value)))
                elif isinstance(v, ast.Dict) and not v.keys:
                    pass
                elif isinstance(v, ast.Dict):
                    for k, x in zip(v.keys, v.values):
                        out.append((None, None, unparse(k) if k is not None else "**", unparse(x)))
                else:
                    out.append(("?", None, None, unparse(v)))
        elif isinstance(n, ast.Call) and isinstance(n.func, ast.Attribute) and unparse(n.func.value) == dname and \
                n.func.attr == "update" and len(n.args) == 1:
            v = n.args[0]
            if isinstance(v, (ast.GeneratorExp, ast.ListComp)) and len(v.generators) == 1 and not v.generators[0].ifs and \
                    isinstance(v.elt, ast.Tuple) and len(v.elt.elts) == 2:
                g = v.generators[0]
                out.append((unparse(g.iter), unparse(g.target), unparse(v.elt.elts[0]), unparse(v.elt.elts[1])))
            elif isinstance(v, ast.DictComp) and len(v.generators) == 1 and not v.generators[0].ifs:
                g = v.generators[0]
                out.append((unparse(g.iter), unparse(g.target), unparse(v.key), unparse(v.value)))
            else:
                out.append(("?", None, None, unparse(v)))
    return out
