"""E5c — canonical forms of Python integer/bit expressions, for comparing *what an expression computes* rather than how
it is spelled.

`canon(expr)` maps an `ast` expression to a hashable canonical term such that two expressions with equal terms denote
the same function of their free sub-terms for all Python integers.  The procedure is sound (equal term => equal
function) and complete for the pure bitwise fragment:

* bitwise layer — `& | ^ ~` over leaves is decided exactly by its truth table over the leaves (bitwise operators act
  independently on every bit position of two's-complement integers, so per-bit truth-table equality is equality of
  the integer functions); leaves on which the table does not depend are dropped (`x & -1` is `x`);
* mask leaves — `(1 << n) - 1`, `~(-1 << n)`, `~(~0 << n)`, `2**n - 1` are one leaf `mask(n)`; `-1 << n` is its
  complement; `x % (1 << n)` is `x & mask(n)`; `x // (1 << n)` is `x >> n`; `x * (1 << n)` is `x << n`;
* arithmetic leaves — `+ - *` in polynomial normal form over canonical atoms (commutative, associative, constants folded);
* comparisons — oriented (`a > b` is `b < a`), `int(c)`/`bool(c)` of a comparison is the comparison, `not` pushed
  into the operator;
* everything else — structural with canonical children.

Nothing here executes /repo code; the truth tables range over the 2**k valuations of k <= 8 leaves."""
import ast
from .astutil import unparse, const_int, dotted

MAX_LEAVES = 8


def _is_int(n, v):
    c = const_int(n)
    return c is not None and c == v


def _pow2_exp(n):
    """n == `1 << e` or `2 ** e` -> e AST"""
    if isinstance(n, ast.BinOp) and isinstance(n.op, ast.LShift) and _is_int(n.left, 1):
        return n.right
    if isinstance(n, ast.BinOp) and isinstance(n.op, ast.Pow) and _is_int(n.left, 2):
        return n.right
    c = const_int(n)
    if c is not None and c >= 2 and c & (c - 1) == 0:
        return ast.Constant(value=c.bit_length() - 1)       # a literal power of two
    return None


class Canon:
    def __init__(self, env=None, atom_hook=None, rewrite=None):
        self.env = env or {}
        self.atom_hook = atom_hook
        self.rewrite = rewrite      # optional domain identity: node -> equivalent node | None (e.g. chained builder calls)

    # ------------------------------------------------------------------ public
    def __call__(self, e):
        return self.bits(e)

    # ------------------------------------------------------------------ bitwise layer
    def bits(self, e):
        leaves = []
        f = self._bool_fn(e, leaves)
        return self._table(f, leaves)

    def _leaf_index(self, leaves, term):
        for i, t in enumerate(leaves):
            if t == term:
                return i
        leaves.append(term)
        return len(leaves) - 1

    def _bool_fn(self, e, leaves):
        """returns a function valuation(tuple of bools) -> bool, registering leaves"""
        e = self._resolve(e)
        if isinstance(e, ast.BinOp) and isinstance(e.op, (ast.BitAnd, ast.BitOr, ast.BitXor)):
            # (a << s) op (b << s)  ==  (a op b) << s   (shifting left commutes with the bitwise operators)
            l_, r_ = self._resolve(e.left), self._resolve(e.right)
            if isinstance(l_, ast.BinOp) and isinstance(l_.op, ast.LShift) and isinstance(r_, ast.BinOp) and \
                    isinstance(r_.op, ast.LShift) and self.arith(l_.right) == self.arith(r_.right):
                return self._bool_fn(ast.BinOp(left=ast.BinOp(left=l_.left, op=e.op, right=r_.left), op=ast.LShift(), right=l_.right), leaves)
            l, r = self._bool_fn(e.left, leaves), self._bool_fn(e.right, leaves)
            if isinstance(e.op, ast.BitAnd):
                return lambda v: l(v) and r(v)
            if isinstance(e.op, ast.BitOr):
                return lambda v: l(v) or r(v)
            return lambda v: l(v) != r(v)
        if isinstance(e, ast.UnaryOp) and isinstance(e.op, ast.Invert):
            x = self._bool_fn(e.operand, leaves)
            return lambda v: not x(v)
        c = const_int(e)
        if c == 0:
            return lambda v: False
        if c == -1:
            return lambda v: True
        # (a op b) >> s  ==  (a >> s) op (b >> s),  ~a >> s  ==  ~(a >> s)   (an arithmetic right shift acts on every bit
        # position alike);  mask(n) >> s  ==  mask(n - s)  and  (-1 << n) >> s  ==  -1 << (n - s)   for n >= s, which is what
        # a mask shifted down by the low end of its own window always satisfies
        if isinstance(e, ast.BinOp) and isinstance(e.op, ast.RShift):
            x = self._resolve(e.left)
            if isinstance(x, ast.BinOp) and isinstance(x.op, (ast.BitAnd, ast.BitOr, ast.BitXor)):
                return self._bool_fn(ast.BinOp(left=ast.BinOp(left=x.left, op=ast.RShift(), right=e.right), op=x.op,
                                               right=ast.BinOp(left=x.right, op=ast.RShift(), right=e.right)), leaves)
            if isinstance(x, ast.UnaryOp) and isinstance(x.op, ast.Invert):
                inner = self._bool_fn(ast.BinOp(left=x.operand, op=ast.RShift(), right=e.right), leaves)
                return lambda v: not inner(v)
            if self._pow2_diff(x) is not None:
                hi, lo = self._pow2_diff(x)
                return self._bool_fn(ast.BinOp(left=self._window(hi, lo), op=ast.RShift(), right=e.right), leaves)
            mx = self._mask_exp(x)
            if mx is not None:
                n = self.arith(ast.BinOp(left=mx[0], op=ast.Sub(), right=e.right))
                if n == ("int", 0):
                    return (lambda v: True) if mx[1] else (lambda v: False)
                if not (n[0] == "int" and n[1] < 0):
                    i = self._leaf_index(leaves, ("mask", n))
                    return (lambda v: not v[i]) if mx[1] else (lambda v: v[i])
        # (1 << hi) - (1 << lo)  ==  mask(hi) & ~mask(lo)   for hi >= lo (the bits lo..hi-1)
        if self._pow2_diff(e) is not None:
            hi, lo = self._pow2_diff(e)
            return self._bool_fn(self._window(hi, lo), leaves)
        # x % (1 << n)  ==  x & mask(n)
        if isinstance(e, ast.BinOp) and isinstance(e.op, ast.Mod) and _pow2_exp(self._resolve(e.right)) is not None:
            x = self._bool_fn(e.left, leaves)
            i = self._leaf_index(leaves, ("mask", self.arith(_pow2_exp(self._resolve(e.right)))))
            return lambda v: x(v) and v[i]
        term, neg = self._leaf(e)
        if isinstance(term, tuple) and term and term[0] == "tt":
            # a nested canonical truth table (from a resolved alias): splice it in
            _, sub_leaves, table = term
            idx = [self._leaf_index(leaves, t) for t in sub_leaves]
            def fn(v, idx=idx, table=table, neg=neg):
                k = 0
                for j, i in enumerate(idx):
                    if v[i]:
                        k |= 1 << j
                return bool((table >> k) & 1) != neg
            return fn
        i = self._leaf_index(leaves, term)
        return (lambda v: not v[i]) if neg else (lambda v: v[i])

    def _table(self, f, leaves):
        if len(leaves) > MAX_LEAVES:
            # too many leaves for a table: fall back to a structural term (still deterministic)
            return ("bitexpr", tuple(sorted(map(repr, leaves))), None)
        n = len(leaves)
        order = sorted(range(n), key=lambda i: repr(leaves[i]))
        table = 0
        for k in range(1 << n):
            v = [False] * n
            for j, i in enumerate(order):
                v[i] = bool((k >> j) & 1)
            if f(tuple(v)):
                table |= 1 << k
        sl = [leaves[i] for i in order]
        # drop leaves the function does not depend on
        changed = True
        while changed:
            changed = False
            for j in range(len(sl)):
                dep = False
                for k in range(1 << len(sl)):
                    if not (k >> j) & 1:
                        if ((table >> k) & 1) != ((table >> (k | (1 << j))) & 1):
                            dep = True
                            break
                if not dep:
                    new = 0
                    pos = 0
                    for k in range(1 << len(sl)):
                        if not (k >> j) & 1:
                            if (table >> k) & 1:
                                new |= 1 << pos
                            pos += 1
                    table = new
                    sl.pop(j)
                    changed = True
                    break
        if not sl:
            return ("int", -1 if table & 1 else 0)
        if len(sl) == 1 and table == 0b10:
            return sl[0]
        return ("tt", tuple(sl), table)

    # ------------------------------------------------------------------ leaves
    def _resolve(self, e):
        seen = 0
        while isinstance(e, ast.Name) and e.id in self.env and seen < 20:
            e = self.env[e.id]
            seen += 1
        if self.rewrite is not None:
            for _ in range(8):
                e2 = self.rewrite(e)
                if e2 is None:
                    break
                e = e2
        return e

    def _pow2_diff(self, e):
        """`(1 << hi) - (1 << lo)` -> (hi, lo) exponent ASTs"""
        if isinstance(e, ast.BinOp) and isinstance(e.op, ast.Sub):
            hi, lo = _pow2_exp(self._resolve(e.left)), _pow2_exp(self._resolve(e.right))
            if hi is not None and lo is not None and not _is_int(e.right, 1):
                return hi, lo
        return None

    @staticmethod
    def _window(hi, lo):
        one = ast.Constant(value=1)
        mk = lambda n: ast.BinOp(left=ast.BinOp(left=one, op=ast.LShift(), right=n), op=ast.Sub(), right=one)
        return ast.BinOp(left=mk(hi), op=ast.BitAnd(), right=ast.UnaryOp(op=ast.Invert(), operand=mk(lo)))

    def _mask_exp(self, e):
        """-> (exponent AST, negated) if `e` is one of the mask idioms"""
        if isinstance(e, ast.BinOp) and isinstance(e.op, ast.Sub) and _is_int(e.right, 1):
            ex = _pow2_exp(self._resolve(e.left))
            if ex is not None:
                return ex, False
        if isinstance(e, ast.BinOp) and isinstance(e.op, ast.Add):
            for a, b in ((e.left, e.right), (e.right, e.left)):
                if _is_int(b, -1):
                    ex = _pow2_exp(self._resolve(a))
                    if ex is not None:
                        return ex, False
        if isinstance(e, ast.BinOp) and isinstance(e.op, ast.LShift):
            l = self._resolve(e.left)
            if _is_int(l, -1) or (isinstance(l, ast.UnaryOp) and isinstance(l.op, ast.Invert) and _is_int(l.operand, 0)):
                return e.right, True
        if isinstance(e, ast.UnaryOp) and isinstance(e.op, ast.USub):
            ex = _pow2_exp(self._resolve(e.operand))
            if ex is not None:
                return ex, True
        return None

    def _mask_form(self, e):
        """-> (("mask", n), negated) if `e` is one of the mask idioms, else None"""
        if isinstance(e, ast.BinOp) and isinstance(e.op, ast.Sub) and _is_int(e.right, 1):
            ex = _pow2_exp(self._resolve(e.left))
            if ex is not None:
                return ("mask", self.arith(ex)), False
        if isinstance(e, ast.BinOp) and isinstance(e.op, ast.Add):
            for a, b in ((e.left, e.right), (e.right, e.left)):
                if _is_int(b, -1):
                    ex = _pow2_exp(self._resolve(a))
                    if ex is not None:
                        return ("mask", self.arith(ex)), False
        if isinstance(e, ast.BinOp) and isinstance(e.op, ast.LShift):
            l = self._resolve(e.left)
            if _is_int(l, -1) or (isinstance(l, ast.UnaryOp) and isinstance(l.op, ast.Invert) and _is_int(l.operand, 0)):
                return ("mask", self.arith(e.right)), True
        # -(1 << n) == -1 << n
        if isinstance(e, ast.UnaryOp) and isinstance(e.op, ast.USub):
            ex = _pow2_exp(self._resolve(e.operand))
            if ex is not None:
                return ("mask", self.arith(ex)), True
        return None

    def _leaf(self, e):
        """-> (term, negated)"""
        m = self._mask_form(e)
        if m is not None:
            return m
        c = const_int(e)
        if c is not None and c >= 3 and (c + 1) & c == 0:
            return ("mask", ("int", c.bit_length())), False        # a literal 2**k - 1 used as a bit mask (0xff, ..)
        return self.term(e), False

    # ------------------------------------------------------------------ arithmetic / structural terms
    def arith(self, e):
        """polynomial normal form over canonical atoms"""
        p = self._poly(e)
        if not p:
            return ("int", 0)
        if list(p.keys()) == [()]:
            return ("int", p[()])
        if len(p) == 1:
            (m, c), = p.items()
            if c == 1 and len(m) == 1:
                return m[0]
        return ("poly", tuple(sorted(((tuple(m), c) for m, c in p.items()), key=repr)))

    def _poly(self, n):
        n = self._resolve(n)
        ci = const_int(n)
        if ci is not None:
            return {(): ci} if ci else {}
        if isinstance(n, ast.Constant) and isinstance(n.value, bool):
            return {(): 1} if n.value else {}
        if isinstance(n, ast.BinOp) and isinstance(n.op, (ast.Add, ast.Sub)):
            a, b = self._poly(n.left), self._poly(n.right)
            s = 1 if isinstance(n.op, ast.Add) else -1
            out = dict(a)
            for m, c in b.items():
                out[m] = out.get(m, 0) + s * c
            return {m: c for m, c in out.items() if c}
        if isinstance(n, ast.BinOp) and isinstance(n.op, ast.Mult):
            # x * (1 << k) is a shift, handled as a term; otherwise polynomial product
            if _pow2_exp(self._resolve(n.right)) is None and _pow2_exp(self._resolve(n.left)) is None:
                a, b = self._poly(n.left), self._poly(n.right)
                out = {}
                for m1, c1 in a.items():
                    for m2, c2 in b.items():
                        m = tuple(sorted(m1 + m2, key=repr))
                        out[m] = out.get(m, 0) + c1 * c2
                return {m: c for m, c in out.items() if c}
        if isinstance(n, ast.UnaryOp) and isinstance(n.op, ast.USub):
            return {m: -c for m, c in self._poly(n.operand).items()}
        if isinstance(n, ast.UnaryOp) and isinstance(n.op, ast.UAdd):
            return self._poly(n.operand)
        t = self.term(n)
        if isinstance(t, tuple) and t and t[0] == "int":
            return {(): t[1]} if t[1] else {}
        if isinstance(t, tuple) and t and t[0] == "poly":
            return {tuple(m): c for m, c in t[1]}
        return {(t,): 1}

    _CMP = {ast.Lt: "<", ast.LtE: "<=", ast.Gt: ">", ast.GtE: ">=", ast.Eq: "==", ast.NotEq: "!=",
            ast.In: "in", ast.NotIn: "not in", ast.Is: "is", ast.IsNot: "is not"}
    _FLIP = {"<": ">", "<=": ">=", ">": "<", ">=": "<=", "==": "==", "!=": "!="}
    _NEG = {"<": ">=", "<=": ">", ">": "<=", ">=": "<", "==": "!=", "!=": "==", "in": "not in", "not in": "in",
            "is": "is not", "is not": "is"}

    def term(self, e):
        e = self._resolve(e)
        if self.atom_hook is not None:
            t = self.atom_hook(e, self)
            if t is not None:
                return t
        ci = const_int(e)
        if ci is not None:
            return ("int", ci)
        if isinstance(e, ast.Constant):
            return ("const", repr(e.value))
        if isinstance(e, ast.BinOp):
            if isinstance(e.op, (ast.BitAnd, ast.BitOr, ast.BitXor)):
                return self.bits(e)
            if isinstance(e.op, (ast.Add, ast.Sub)):
                m = self._mask_form(e)
                if m is not None and not m[1]:
                    return m[0]
                return self.arith(e)
            if isinstance(e.op, ast.Mult):
                for a, b in ((e.left, e.right), (e.right, e.left)):
                    ex = _pow2_exp(self._resolve(b))
                    if ex is not None:
                        return ("shl", self.bits(a), self.arith(ex))
                return self.arith(e)
            if isinstance(e.op, ast.LShift):
                m = self._mask_form(e)
                if m is not None and m[1]:
                    return ("tt", (m[0],), 0b01)
                amt = self.arith(e.right)
                if amt == ("int", 0):
                    return self.bits(e.left)
                return ("shl", self.bits(e.left), amt)
            if isinstance(e.op, ast.RShift):
                x = self._resolve(e.left)
                if (isinstance(x, ast.BinOp) and isinstance(x.op, (ast.BitAnd, ast.BitOr, ast.BitXor))) or \
                        (isinstance(x, ast.UnaryOp) and isinstance(x.op, ast.Invert)) or self._pow2_diff(x) is not None:
                    return self.bits(e)         # distributed over the bitwise operators (see _bool_fn)
                amt = self.arith(e.right)
                if amt == ("int", 0):
                    return self.bits(e.left)
                return ("shr", self.bits(e.left), amt)
            if isinstance(e.op, ast.FloorDiv):
                ex = _pow2_exp(self._resolve(e.right))
                if ex is not None:
                    return ("shr", self.bits(e.left), self.arith(ex))
                return ("floordiv", self.bits(e.left), self.bits(e.right))
            if isinstance(e.op, ast.Mod):
                if _pow2_exp(self._resolve(e.right)) is not None:
                    return self.bits(e)
                return ("mod", self.bits(e.left), self.bits(e.right))
            if isinstance(e.op, ast.Pow):
                if _is_int(self._resolve(e.left), 2):
                    return ("shl", ("int", 1), self.arith(e.right))      # 2 ** n == 1 << n
                return ("pow", self.bits(e.left), self.bits(e.right))
            return (type(e.op).__name__, self.bits(e.left), self.bits(e.right))
        if isinstance(e, ast.UnaryOp):
            if isinstance(e.op, ast.Invert):
                return self.bits(e)
            if isinstance(e.op, (ast.USub, ast.UAdd)):
                m = self._mask_form(e)
                if m is not None and m[1]:
                    return ("tt", (m[0],), 0b01)
                return self.arith(e)
            if isinstance(e.op, ast.Not):
                inner = self.term(e.operand)
                if isinstance(inner, tuple) and inner and inner[0] == "cmp" and inner[1] in self._NEG:
                    return self._cmp(self._NEG[inner[1]], inner[2], inner[3])
                return ("not", inner)
        if isinstance(e, ast.Compare) and len(e.ops) == 1:
            op = self._CMP.get(type(e.ops[0]))
            if op is not None:
                return self._cmp(op, self.bits(e.left), self.bits(e.comparators[0]))
        if isinstance(e, ast.BoolOp):
            kind = "and" if isinstance(e.op, ast.And) else "or"
            flat = []
            for v in e.values:
                t = self.term(v)
                if isinstance(t, tuple) and t and t[0] == kind:
                    flat.extend(t[1:])
                else:
                    flat.append(t)
            uniq = []
            for t in flat:
                if t not in uniq:
                    uniq.append(t)
            if len(uniq) == 1:
                return uniq[0]
            return (kind,) + tuple(sorted(uniq, key=repr))
        if isinstance(e, ast.IfExp):
            return ("ifexp", self.term(e.test), self.bits(e.body), self.bits(e.orelse))
        if isinstance(e, ast.Call):
            fn = dotted(e.func)
            if fn in ("int", "bool") and len(e.args) == 1 and not e.keywords:
                inner = self.term(e.args[0])
                if isinstance(inner, tuple) and inner and inner[0] in ("cmp", "not", "and", "or"):
                    return inner
                if fn == "int":
                    return ("call", "int", (inner,), ())
            func = ("name", fn) if fn else self.term(e.func)
            return ("call", func, tuple(self._arg(a) for a in e.args),
                    tuple(sorted((k.arg or "**", self.bits(k.value)) for k in e.keywords)))
        if isinstance(e, ast.Attribute):
            return ("attr", self.term(e.value), e.attr)
        if isinstance(e, ast.Name):
            return ("name", e.id)
        if isinstance(e, ast.Subscript):
            if isinstance(e.slice, ast.Slice):
                s = e.slice
                return ("slice", self.term(e.value), None if s.lower is None else self.arith(s.lower),
                        None if s.upper is None else self.arith(s.upper), None if s.step is None else self.arith(s.step))
            return ("index", self.term(e.value), self.bits(e.slice))
        if isinstance(e, (ast.Tuple, ast.List)):
            return ("seq",) + tuple(self.bits(x) for x in e.elts)
        if isinstance(e, ast.Starred):
            return ("star", self.term(e.value))
        return ("src", unparse(e))

    def _arg(self, a):
        if isinstance(a, ast.Starred):
            return ("star", self.term(a.value))
        return self.bits(a)

    def _cmp(self, op, l, r):
        if op in self._FLIP:
            if op in (">", ">=") or (op in ("==", "!=") and repr(l) > repr(r)):
                op, l, r = self._FLIP[op], r, l
        return ("cmp", op, l, r)


def canon(e, env=None):
    if isinstance(e, str):
        e = ast.parse(e, mode="eval").body
    return Canon(env)(e)


def same_value(a, b, env=None):
    """do two expressions (ASTs or source strings) denote the same integer function of their free sub-terms?"""
    return canon(a, env) == canon(b, env)


def instantiate(template, **bindings):
    """parse `template` and replace the names in `bindings` by the given ASTs (or source strings)"""
    from .symx import subst
    env = {k: (ast.parse(v, mode="eval").body if isinstance(v, str) else v) for k, v in bindings.items()}
    return subst(ast.parse(template, mode="eval").body, env)


def mux_of(e, env=None):
    """If `e` is a bitwise function of exactly three leaves that selects per bit between two of them under the third,
    return (sel, when_one, when_zero) as canonical terms; else None."""
    c = canon(e, env)
    if not (isinstance(c, tuple) and c and c[0] == "tt" and len(c[1]) == 3):
        return None
    leaves, table = c[1], c[2]
    for s in range(3):
        others = [i for i in range(3) if i != s]
        for a, b in (others, others[::-1]):
            ok = True
            for k in range(8):
                v = [(k >> j) & 1 for j in range(3)]
                want = v[a] if v[s] else v[b]
                if ((table >> k) & 1) != want:
                    ok = False
                    break
            if ok:
                return leaves[s], leaves[a], leaves[b]
    return None


def conjuncts(tests, env=None, hook=None):
    """canonical set of conjuncts of a path condition given as [(test AST, polarity)]"""
    c = Canon(env, atom_hook=hook)
    out = set()
    for t, pol in tests:
        term = c.term(t)
        if not pol:
            if isinstance(term, tuple) and term and term[0] == "cmp" and term[1] in Canon._NEG:
                term = c._cmp(Canon._NEG[term[1]], term[2], term[3])
            elif isinstance(term, tuple) and term and term[0] == "not":
                term = term[1]
            elif isinstance(term, tuple) and term and term[0] == "or":
                # not (a or b) == not a and not b
                for x in term[1:]:
                    out |= conjuncts_of_term(c, ("not", x))
                continue
            else:
                term = ("not", term)
        out |= conjuncts_of_term(c, term)
    return out


def conjuncts_of_term(c, term):
    if isinstance(term, tuple) and term and term[0] == "and":
        out = set()
        for x in term[1:]:
            out |= conjuncts_of_term(c, x)
        return out
    if isinstance(term, tuple) and term and term[0] == "not" and isinstance(term[1], tuple) and term[1] and term[1][0] == "not":
        return conjuncts_of_term(c, term[1][1])
    return {term}


def quantifier_norm(e, env=None, hook=None):
    """all(P for x in S) / any(..) / not all(..) / not any(..)  ->  ("all"|"any", iterable text, canonical P with the bound
    variable renamed to `_x`), using  not all(P) == any(not P),  not any(P) == all(not P).  None when `e` is not of that form."""
    from .symx import subst
    neg = False
    while isinstance(e, ast.UnaryOp) and isinstance(e.op, ast.Not):
        neg = not neg
        e = e.operand
    if not (isinstance(e, ast.Call) and dotted(e.func) in ("all", "any") and len(e.args) == 1 and
            isinstance(e.args[0], (ast.GeneratorExp, ast.ListComp)) and len(e.args[0].generators) == 1 and
            not e.args[0].generators[0].ifs and isinstance(e.args[0].generators[0].target, ast.Name)):
        return None
    g = e.args[0]
    kind = dotted(e.func)
    body = subst(g.elt, {g.generators[0].target.id: ast.Name(id="_x", ctx=ast.Load())})
    c = Canon(env, atom_hook=hook)
    t = c.term(body)
    if not (isinstance(t, tuple) and t and t[0] in ("cmp", "and", "or", "not")):
        zero = ("int", 0)
        t = ("cmp", "!=", zero, t) if repr(zero) < repr(t) else ("cmp", "!=", t, zero)
    if neg:
        kind = "any" if kind == "all" else "all"
        if t[0] == "cmp" and t[1] in Canon._NEG:
            t = c._cmp(Canon._NEG[t[1]], t[2], t[3])
        elif t[0] == "not":
            t = t[1]
        else:
            t = ("not", t)
    return (kind, unparse(g.generators[0].iter), t)
