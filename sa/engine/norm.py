"""E5 normal forms: (b) polynomial normal form over opaque atoms; (a) max-plus forms for width arithmetic."""
import ast
from .astutil import unparse, const_int


# ----------------------------------------------------------------------------- polynomial normal form

def poly(e, env=None):
    """AST arithmetic -> {monomial(tuple of atom strings, sorted): coeff}. Non-arithmetic sub-expressions are atoms
    (keyed by their unparsed text). `env` maps names to replacement ASTs (applied to Name atoms)."""
    env = env or {}

    def mul(p, q):
        out = {}
        for m1, c1 in p.items():
            for m2, c2 in q.items():
                m = tuple(sorted(m1 + m2))
                out[m] = out.get(m, 0) + c1 * c2
        return {m: c for m, c in out.items() if c != 0}

    def add(p, q, s=1):
        out = dict(p)
        for m, c in q.items():
            out[m] = out.get(m, 0) + s * c
        return {m: c for m, c in out.items() if c != 0}

    def rec(n):
        ci = const_int(n)
        if ci is not None:
            return {(): ci} if ci != 0 else {}
        if isinstance(n, ast.Constant) and isinstance(n.value, bool):
            return {(): int(n.value)} if n.value else {}
        if isinstance(n, ast.BinOp):
            if isinstance(n.op, ast.Add):
                return add(rec(n.left), rec(n.right))
            if isinstance(n.op, ast.Sub):
                return add(rec(n.left), rec(n.right), -1)
            if isinstance(n.op, ast.Mult):
                return mul(rec(n.left), rec(n.right))
        if isinstance(n, ast.UnaryOp) and isinstance(n.op, ast.USub):
            return add({}, rec(n.operand), -1)
        if isinstance(n, ast.UnaryOp) and isinstance(n.op, ast.UAdd):
            return rec(n.operand)
        if isinstance(n, ast.Name) and n.id in env:
            return rec(env[n.id])
        return {(unparse(n),): 1}

    return rec(e)


def poly_eq(a, b, env=None):
    return poly(a, env) == poly(b, env)


def poly_sub(a, b):
    out = dict(a)
    for m, c in b.items():
        out[m] = out.get(m, 0) - c
    return {m: c for m, c in out.items() if c != 0}


def poly_text(p):
    if not p:
        return "0"
    parts = []
    for m, c in sorted(p.items()):
        term = "*".join(m) if m else ""
        if term:
            parts.append(f"{'+' if c > 0 else '-'}{'' if abs(c) == 1 else abs(c)}{'*' if abs(c) != 1 else ''}{term}")
        else:
            parts.append(f"{'+' if c > 0 else '-'}{abs(c)}")
    return "".join(parts).lstrip("+")


def compare_norm(test):
    """A comparison `A op B` -> (poly(A-B) normalised so the leading coeff is positive, op) with op in
    {'<','<=','>','>=','==','!='}; None if not a simple comparison."""
    if not (isinstance(test, ast.Compare) and len(test.ops) == 1):
        return None
    ops = {ast.Lt: "<", ast.LtE: "<=", ast.Gt: ">", ast.GtE: ">=", ast.Eq: "==", ast.NotEq: "!="}
    op = ops.get(type(test.ops[0]))
    if op is None:
        return None
    p = poly_sub(poly(test.left), poly(test.comparators[0]))
    if not p:
        return (p, op)
    lead = sorted(p.items())[-1][1]
    if lead < 0:
        p = {m: -c for m, c in p.items()}
        op = {"<": ">", "<=": ">=", ">": "<", ">=": "<=", "==": "==", "!=": "!="}[op]
    return (p, op)


def negate_op(op):
    return {"<": ">=", "<=": ">", ">": "<=", ">=": "<", "==": "!=", "!=": "=="}[op]


# ----------------------------------------------------------------------------- max-plus normal form

class MP:
    """max of affine forms over symbols with known lower bounds.
    A form is (const, ((sym, coeff), ...)). Symbols: operand widths 'a','b', and 'P' = 2**b."""

    def __init__(self, forms):
        self.forms = frozenset(forms)

    @staticmethod
    def const(c):
        return MP([(c, ())])

    @staticmethod
    def sym(s):
        return MP([(0, ((s, 1),))])

    def __add__(self, other):
        other = other if isinstance(other, MP) else MP.const(other)
        out = []
        for c1, t1 in self.forms:
            for c2, t2 in other.forms:
                d = dict(t1)
                for s, k in t2:
                    d[s] = d.get(s, 0) + k
                out.append((c1 + c2, tuple(sorted((s, k) for s, k in d.items() if k != 0))))
        return MP(out)

    __radd__ = __add__

    def __sub__(self, other):
        if isinstance(other, int):
            return self + (-other)
        if isinstance(other, MP) and len(other.forms) == 1:
            (c2, t2), = other.forms
            neg = MP([(-c2, tuple((s, -k) for s, k in t2))])
            return self + neg
        raise ValueError("max-plus: cannot subtract a max")

    def max(self, other):
        other = other if isinstance(other, MP) else MP.const(other)
        return MP(self.forms | other.forms)

    def prune(self, lower):
        """drop forms dominated by another form given symbol lower bounds (dict sym -> int lower bound)."""
        forms = list(self.forms)
        keep = []
        for i, f in enumerate(forms):
            dominated = False
            for j, g in enumerate(forms):
                if i == j:
                    continue
                if MP._dominates(g, f, lower) and not (MP._dominates(f, g, lower) and j > i):
                    dominated = True
                    break
            if not dominated:
                keep.append(f)
        return MP(keep)

    @staticmethod
    def _dominates(g, f, lower):
        """g >= f for all admissible symbol values?"""
        dg, df = dict(g[1]), dict(f[1])
        diff_c = g[0] - f[0]
        for s in set(dg) | set(df):
            k = dg.get(s, 0) - df.get(s, 0)
            if k < 0:
                return False
            diff_c += k * lower.get(s, 0)
        return diff_c >= 0

    def key(self, lower):
        return tuple(sorted(self.prune(lower).forms))

    def text(self):
        def one(f):
            c, t = f
            parts = [("" if k == 1 else f"{k}*") + s for s, k in t]
            if c or not parts:
                parts.append(str(c))
            return "+".join(parts).replace("+-", "-")
        fs = sorted(self.forms)
        return one(fs[0]) if len(fs) == 1 else "max(" + ", ".join(one(f) for f in fs) + ")"

    def __repr__(self):
        return f"MP<{self.text()}>"


def inequality_set(test):
    """a conjunction of (possibly chained) arithmetic comparisons -> frozenset of normalised (polynomial, op) facts;
    None when `test` is not of that form.  `a >= s and a < s + n` and `0 <= a - s < n` give the same set."""
    parts = []
    if isinstance(test, ast.BoolOp) and isinstance(test.op, ast.And):
        items = list(test.values)
    else:
        items = [test]
    for it in items:
        if not isinstance(it, ast.Compare):
            return None
        left = it.left
        for op, right in zip(it.ops, it.comparators):
            c = compare_norm(ast.Compare(left=left, ops=[op], comparators=[right]))
            if c is None:
                return None
            p, o = c
            # a <= b  ==  a < b + 1 over the integers: use the strict forms only
            if o == "<=":
                p, o = poly_sub(p, {(): 1}), "<"
            elif o == ">=":
                p, o = poly_sub(p, {(): -1}), ">"
            if o == ">":
                p, o = {m: -k for m, k in p.items()}, "<"
            parts.append((tuple(sorted(p.items())), o))
            left = right
    return frozenset(parts)


def linear_rref(polys):
    """canonical form (reduced row-echelon, exact rationals) of a system of linear equalities `p == 0` over atoms; equal
    forms <=> the conjunctions of equalities are equivalent.  None when some polynomial is not linear."""
    from fractions import Fraction
    atoms = sorted({m[0] for p in polys for m in p if len(m) == 1})
    if any(len(m) > 1 for p in polys for m in p):
        return None
    cols = atoms + [()]
    rows = []
    for p in polys:
        rows.append([Fraction(p.get((a,), 0)) if a != () else Fraction(p.get((), 0)) for a in cols])
    r = 0
    for c in range(len(cols) - 1):
        piv = None
        for i in range(r, len(rows)):
            if rows[i][c] != 0:
                piv = i
                break
        if piv is None:
            continue
        rows[r], rows[piv] = rows[piv], rows[r]
        pv = rows[r][c]
        rows[r] = [x / pv for x in rows[r]]
        for i in range(len(rows)):
            if i != r and rows[i][c] != 0:
                f = rows[i][c]
                rows[i] = [a - f * b for a, b in zip(rows[i], rows[r])]
        r += 1
    rows = [tuple(x) for x in rows if any(v != 0 for v in x)]
    return (tuple(cols), tuple(sorted(rows)))
