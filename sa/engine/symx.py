"""Substitution-based path summaries of straight-line / branching code (part of E5).

`run_paths(stmts)` enumerates the paths through if/else (no loop unrolling: a loop is an opaque effect that
havocs the names it assigns) and yields, per path, the branch conditions taken, the final environment (name ->
AST expression over the *initial* names) and the returned expression with all local names substituted.
This is term rewriting over the extracted AST; no repository code is executed.
"""
import ast
import copy
from .astutil import unparse, walk_no_nested


class _Subst(ast.NodeTransformer):
    def __init__(self, env):
        self.env = env

    def visit_Name(self, node):
        if isinstance(node.ctx, ast.Load) and node.id in self.env:
            return copy.deepcopy(self.env[node.id])
        return node

    def visit_Lambda(self, node):
        return node

    def visit_ListComp(self, node):
        return self._comp(node)

    def visit_GeneratorExp(self, node):
        return self._comp(node)

    def visit_SetComp(self, node):
        return self._comp(node)

    def visit_DictComp(self, node):
        return self._comp(node)

    def _comp(self, node):
        bound = set()
        for g in node.generators:
            for n in ast.walk(g.target):
                if isinstance(n, ast.Name):
                    bound.add(n.id)
        inner = {k: v for k, v in self.env.items() if k not in bound}
        return _Subst(inner).generic_visit(node)


def subst(expr, env):
    if not env:
        return expr
    return _Subst(env).visit(copy.deepcopy(expr))


class Path:
    def __init__(self, conds, env, ret, how, effects, lineno=0):
        self.conds = conds      # [(test AST substituted, bool taken)]
        self.env = env
        self.ret = ret          # AST or None
        self.how = how          # 'return' | 'raise' | 'fall' | 'continue' | 'break'
        self.effects = effects  # [AST expr/stmt substituted] in order
        self.lineno = lineno

    def cond_text(self):
        return " and ".join(("" if pol else "not ") + "(" + unparse(t) + ")" for t, pol in self.conds)


def assigned_names(stmts):
    out = set()
    for s in stmts:
        for n in ast.walk(s):
            if isinstance(n, ast.Name) and isinstance(n.ctx, ast.Store):
                out.add(n.id)
    return out


def run_paths(stmts, env=None, max_paths=256, decide=None):
    """decide(test_ast) -> True/False/None lets the caller prune branches whose test it can evaluate."""
    results = []

    def go(stmts, i, env, conds, effects):
        if len(results) > max_paths:
            return
        while i < len(stmts):
            s = stmts[i]
            i += 1
            if isinstance(s, (ast.FunctionDef, ast.AsyncFunctionDef, ast.ClassDef, ast.Pass, ast.Import, ast.ImportFrom)):
                continue
            if isinstance(s, ast.Assign):
                val = subst(s.value, env)
                for t in s.targets:
                    if isinstance(t, ast.Name):
                        env = dict(env)
                        env[t.id] = val
                    elif isinstance(t, (ast.Tuple, ast.List)) and all(isinstance(e, ast.Name) for e in t.elts):
                        env = dict(env)
                        if isinstance(val, (ast.Tuple, ast.List)) and len(val.elts) == len(t.elts):
                            for e, v in zip(t.elts, val.elts):
                                env[e.id] = v
                        else:
                            for k, e in enumerate(t.elts):
                                env[e.id] = ast.Subscript(value=val, slice=ast.Constant(k), ctx=ast.Load())
                    elif isinstance(t, ast.Subscript) and isinstance(t.value, ast.Name) and \
                            isinstance(env.get(t.value.id), ast.Dict) and isinstance(t.slice, ast.Constant):
                        # d["k"] = v on a dict literal held in a local: fold into the literal
                        d = env[t.value.id]
                        keys, vals = list(d.keys), list(d.values)
                        hit = [i_ for i_, k in enumerate(keys) if isinstance(k, ast.Constant) and k.value == t.slice.value]
                        if hit:
                            vals[hit[0]] = val
                        else:
                            keys.append(ast.Constant(t.slice.value))
                            vals.append(val)
                        env = dict(env)
                        env[t.value.id] = ast.Dict(keys=keys, values=vals)
                    else:
                        effects = effects + [ast.Assign(targets=[subst(t, env)], value=val, lineno=s.lineno)]
                continue
            if isinstance(s, ast.AugAssign):
                if isinstance(s.target, ast.Name):
                    cur = env.get(s.target.id, ast.Name(id=s.target.id, ctx=ast.Load()))
                    env = dict(env)
                    env[s.target.id] = ast.BinOp(left=copy.deepcopy(cur), op=s.op, right=subst(s.value, env))
                else:
                    effects = effects + [ast.AugAssign(target=subst(s.target, env), op=s.op, value=subst(s.value, env),
                                                       lineno=s.lineno)]
                continue
            if isinstance(s, ast.Expr):
                v = s.value
                if isinstance(v, ast.Call) and isinstance(v.func, ast.Attribute) and v.func.attr == "update" and \
                        isinstance(v.func.value, ast.Name) and isinstance(env.get(v.func.value.id), ast.Dict) and \
                        len(v.args) == 1 and isinstance(v.args[0], ast.Dict):
                    d = env[v.func.value.id]
                    keys, vals = list(d.keys), list(d.values)
                    for k, x in zip(v.args[0].keys, v.args[0].values):
                        x = subst(x, env)
                        hit = [i_ for i_, kk in enumerate(keys) if isinstance(kk, ast.Constant) and isinstance(k, ast.Constant)
                               and kk.value == k.value]
                        if hit:
                            vals[hit[0]] = x
                        else:
                            keys.append(k)
                            vals.append(x)
                    env = dict(env)
                    env[v.func.value.id] = ast.Dict(keys=keys, values=vals)
                    continue
                effects = effects + [subst(s.value, env)]
                continue
            if isinstance(s, ast.Return):
                results.append(Path(conds, env, subst(s.value, env) if s.value is not None else None, "return",
                                    effects, s.lineno))
                return
            if isinstance(s, ast.Raise):
                results.append(Path(conds, env, subst(s.exc, env) if s.exc is not None else None, "raise", effects,
                                    s.lineno))
                return
            if isinstance(s, ast.Continue):
                results.append(Path(conds, env, None, "continue", effects, s.lineno))
                return
            if isinstance(s, ast.Break):
                results.append(Path(conds, env, None, "break", effects, s.lineno))
                return
            if isinstance(s, ast.Assert):
                if isinstance(s.test, ast.Constant) and s.test.value is False:
                    results.append(Path(conds, env, None, "raise", effects, s.lineno))
                    return
                continue
            if isinstance(s, ast.If):
                test = subst(s.test, env)
                rest = stmts[i:]
                verdict = decide(test) if decide is not None else None
                if verdict is None and isinstance(test, ast.Constant) and isinstance(test.value, (bool, int)):
                    verdict = bool(test.value)
                if verdict is not False:
                    go(list(s.body) + rest, 0, env, conds + [(test, True)], effects)
                if verdict is not True:
                    go(list(s.orelse) + rest, 0, env, conds + [(test, False)], effects)
                return
            if isinstance(s, (ast.With, ast.AsyncWith)):
                rest = stmts[i:]
                go(list(s.body) + rest, 0, env, conds, effects)
                return
            if isinstance(s, (ast.For, ast.AsyncFor, ast.While)):
                env = dict(env)
                for n in assigned_names([s]):
                    env[n] = ast.Name(id=f"{n}__loop{s.lineno}", ctx=ast.Load())
                effects = effects + [s]
                continue
            if isinstance(s, ast.Try):
                rest = stmts[i:]
                go(list(s.body) + list(s.orelse) + list(s.finalbody) + rest, 0, env, conds, effects)
                return
            effects = effects + [s]
        results.append(Path(conds, env, None, "fall", effects, stmts[-1].lineno if stmts else 0))

    go(list(stmts), 0, dict(env or {}), [], [])
    return results
