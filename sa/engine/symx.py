"""Substitution-based path summaries of straight-line / branching code (part of E5).

`run_paths(stmts)` enumerates the paths through if/else (no loop unrolling: a loop is an opaque effect that
havocs the names it assigns) and yields, per path, the branch conditions taken, the final environment (name ->
AST expression over the *initial* names) and the returned expression with all local names substituted.
This is term rewriting over the extracted AST; no repository code is executed.
"""
import ast
import copy
from .astutil import unparse, walk_no_nested, dotted


class _Subst(ast.NodeTransformer):
    def __init__(self, env):
        self.env = env

    def visit_Name(self, node):
        if isinstance(node.ctx, ast.Load) and node.id in self.env and node.id != "__heap__":
            return copy.deepcopy(self.env[node.id])
        return node

    def _forward(self, node):
        """store-to-load forwarding: `O[k]` / `O.a` read after `O[k] = v` / `O.a = v` on this path (and before anything that
        may change O) is v"""
        heap = self.env.get("__heap__")
        if heap and isinstance(getattr(node, "ctx", None), ast.Load):
            v = heap.get(unparse(node))
            if v is not None:
                return copy.deepcopy(v)
        return None

    def visit_Subscript(self, node):
        node = self.generic_visit(node)
        return self._forward(node) or node

    def visit_Attribute(self, node):
        node = self.generic_visit(node)
        return self._forward(node) or node

    def visit_Lambda(self, node):
        return node

    def visit_ListComp(self, node):
        return self._comp(node)

    def visit_GeneratorExp(self, node):
        return self._comp(node)

    def visit_SetComp(self, node):
        return self._comp(node)

    def visit_DictComp(self, node):
        return self._comp(node)

    def _comp(self, node):
        bound = set()
        for g in node.generators:
            for n in ast.walk(g.target):
                if isinstance(n, ast.Name):
                    bound.add(n.id)
        inner = {k: v for k, v in self.env.items() if k not in bound}
        return _Subst(inner).generic_visit(node)


def subst(expr, env):
    if not env:
        return expr
    return _Subst(env).visit(copy.deepcopy(expr))


class Path:
    def __init__(self, conds, env, ret, how, effects, lineno=0):
        self.conds = conds      # [(test AST substituted, bool taken)]
        self.heap = (env or {}).get("__heap__") or {}
        env = {k: v for k, v in (env or {}).items() if k != "__heap__"}
        self.env = env
        self.ret = ret          # AST or None
        self.how = how          # 'return' | 'raise' | 'fall' | 'continue' | 'break'
        self.effects = effects  # [AST expr/stmt substituted] in order
        self.lineno = lineno
        # 'try': the path runs through a try statement with handlers (the handlers themselves are not followed)
        self.flags = {"try"} if any(isinstance(e, ast.Expr) and isinstance(e.value, ast.Name) and
                                    e.value.id == "__try_except__" for e in effects) else set()
        if self.flags:
            self.effects = [e for e in effects if not (isinstance(e, ast.Expr) and isinstance(e.value, ast.Name)
                                                       and e.value.id == "__try_except__")]
        # what the rules look at is free of the positional heap-version symbols (freeze_readers): `effects`, `ret`, `env`
        # and `conds` show the expressions themselves; the frozen view (for refsem.summarise) is kept alongside
        self.effects_frozen, self.ret_frozen, self.conds_frozen = self.effects, self.ret, self.conds
        table = {e.targets[0].id: e.value for e in self.effects if isinstance(e, ast.Assign) and len(e.targets) == 1 and
                 isinstance(e.targets[0], ast.Name) and e.targets[0].id.startswith("_pre")}
        if table:
            def thaw(n):
                if n is None or not isinstance(n, ast.AST) or not any(isinstance(x, ast.Name) and x.id in table for x in ast.walk(n)):
                    return n
                return _Subst(table).visit(copy.deepcopy(n))
            self.effects = [thaw(e) for e in self.effects if not (isinstance(e, ast.Assign) and len(e.targets) == 1 and
                                                                 isinstance(e.targets[0], ast.Name) and e.targets[0].id in table)]
            self.ret = thaw(self.ret)
            self.conds = [(thaw(t), pol) for t, pol in self.conds]
            self.env = {k: thaw(v) if isinstance(v, ast.AST) else v for k, v in self.env.items()}

    def thaw(self, node):
        """`node` with the positional symbols of freeze_readers (`_preN`) replaced by the expressions they stand for"""
        table = {e.targets[0].id: e.value for e in self.effects if isinstance(e, ast.Assign) and len(e.targets) == 1 and
                 isinstance(e.targets[0], ast.Name) and e.targets[0].id.startswith("_pre")}
        if not table or not any(isinstance(n, ast.Name) and n.id in table for n in ast.walk(node)):
            return node
        return _Subst(table).visit(copy.deepcopy(node))

    def conds_open(self, frozen=False):
        """conditions that were not decided by constant folding"""
        src = self.conds_frozen if frozen else self.conds
        return [(t, p) for t, p in src if not (isinstance(t, ast.Constant) and isinstance(t.value, (bool, int)))]

    def cond_text(self):
        return " and ".join(("" if pol else "not ") + "(" + unparse(t) + ")" for t, pol in self.conds)


_MUTATORS = {"append", "insert", "extend", "add", "update", "pop", "remove", "clear", "discard", "setdefault", "popitem",
             "appendleft", "popleft", "sort", "reverse", "__setitem__", "__delitem__"}


def _mutated_object(effect):
    """text of the object an effect changes in place: `O.m(..)` with a mutating container method, `O[k] = v`, `O.a = v`"""
    if isinstance(effect, ast.Expr):
        effect = effect.value
    if isinstance(effect, ast.Call) and isinstance(effect.func, ast.Attribute) and effect.func.attr in _MUTATORS:
        return unparse(effect.func.value)
    tgt = None
    if isinstance(effect, ast.Assign) and len(effect.targets) == 1:
        tgt = effect.targets[0]
    elif isinstance(effect, ast.AugAssign):
        tgt = effect.target
    if isinstance(tgt, ast.Subscript):
        return unparse(tgt.value)
    if isinstance(tgt, ast.Attribute):
        return unparse(tgt)
    return None


def heap_update(env, effect):
    """maintain env["__heap__"] (text of a subscript/attribute location -> the value last stored there on this path):
    a plain store records its value; anything that may change an object in place — a store into it, a mutating method,
    any other call statement, a loop — forgets what is known about the locations it may touch (all of them, for calls)"""
    heap = dict(env.get("__heap__") or {})
    e = effect.value if isinstance(effect, ast.Expr) else effect
    changed = False
    if isinstance(e, ast.Assign) and len(e.targets) == 1 and isinstance(e.targets[0], (ast.Subscript, ast.Attribute)):
        tgt = unparse(e.targets[0])
        obj = unparse(e.targets[0].value)
        for k in [k for k in heap if k == tgt or k.startswith(obj + "[") or k.startswith(tgt + ".") or k.startswith(tgt + "[")
                  or any(isinstance(n, (ast.Attribute, ast.Subscript, ast.Name)) and unparse(n) in (tgt, obj) for n in ast.walk(heap[k]))]:
            del heap[k]
        # a value that reads the location itself (x.a = x.a + 1) is not forwarded
        if not any(isinstance(n, (ast.Attribute, ast.Subscript)) and unparse(n) == tgt for n in ast.walk(e.value)) and \
                not any(isinstance(n, (ast.Call, ast.Await, ast.Yield, ast.YieldFrom)) for n in ast.walk(e.value)):
            heap[tgt] = e.value
        changed = True
    elif heap:
        heap = {}
        changed = True
    if not changed:
        return env
    env = dict(env)
    env["__heap__"] = heap
    return env


def freeze_readers(env, effects, effect, rest=None):
    """a local bound to an expression that reads object O keeps the value O had when it was bound: before an effect that
    changes O in place, such locals — those still used afterwards (`rest`: the statements that follow) — are materialised as
    positional symbols (`_pre0 = <value>` recorded as an effect), so that `n = len(xs); xs.append(y); use(n)` and
    `xs.append(y); n = len(xs); use(n)` get different summaries.  Locals holding the same expression share one symbol, and
    symbols are numbered in the order of their expressions' text, so neither the names nor the binding order of locals matter."""
    obj = _mutated_object(effect)
    if obj is None:
        return env, effects
    live = None
    if rest is not None:
        live = {n.id for st in rest for n in ast.walk(st) if isinstance(n, ast.Name)}
    cands = {}
    for name, val in env.items():
        if name == "__heap__" or not isinstance(val, ast.AST) or isinstance(val, (ast.Name, ast.Constant)):
            continue
        if live is not None and name not in live:
            continue
        if any(isinstance(n, (ast.Attribute, ast.Subscript, ast.Name)) and unparse(n) == obj for n in ast.walk(val)):
            cands.setdefault(unparse(val), (val, []))[1].append(name)
    if not cands:
        return env, effects
    new_env = dict(env)
    k = sum(1 for e in effects if isinstance(e, ast.Assign) and isinstance(e.targets[0], ast.Name) and e.targets[0].id.startswith("_pre"))
    for text in sorted(cands):
        val, names = cands[text]
        sym = f"_pre{k}"
        k += 1
        effects = effects + [ast.Assign(targets=[ast.Name(id=sym, ctx=ast.Store())], value=val, lineno=getattr(effect, "lineno", 0))]
        for name in names:
            new_env[name] = ast.Name(id=sym, ctx=ast.Load())
    return new_env, effects


def assigned_names(stmts):
    out = set()
    for s in stmts:
        for n in ast.walk(s):
            if isinstance(n, ast.Name) and isinstance(n.ctx, ast.Store):
                out.add(n.id)
    return out


_OPERATOR_FUNCS = {
    "add": ast.Add, "sub": ast.Sub, "mul": ast.Mult, "floordiv": ast.FloorDiv, "mod": ast.Mod, "and_": ast.BitAnd,
    "or_": ast.BitOr, "xor": ast.BitXor, "lshift": ast.LShift, "rshift": ast.RShift, "pow": ast.Pow,
}
_OPERATOR_CMPS = {"lt": ast.Lt, "le": ast.LtE, "eq": ast.Eq, "ne": ast.NotEq, "gt": ast.Gt, "ge": ast.GtE}
_OPERATOR_UNARY = {"neg": ast.USub, "invert": ast.Invert, "inv": ast.Invert, "not_": ast.Not, "pos": ast.UAdd}


def operator_call_as_expr(func, args):
    """operator.add(a, b) -> a + b etc. (`func` is the callee AST); None if not an operator-module function"""
    name = None
    if isinstance(func, ast.Attribute) and isinstance(func.value, ast.Name) and func.value.id in ("operator", "_operator"):
        name = func.attr
    if name is None:
        return None
    name = name.strip("_") if name.startswith("__") else name
    if name in ("and", "or"):
        name += "_"
    if name in _OPERATOR_FUNCS and len(args) == 2:
        return ast.BinOp(left=args[0], op=_OPERATOR_FUNCS[name](), right=args[1])
    if name in _OPERATOR_CMPS and len(args) == 2:
        return ast.Compare(left=args[0], ops=[_OPERATOR_CMPS[name]()], comparators=[args[1]])
    if name in _OPERATOR_UNARY and len(args) == 1:
        return ast.UnaryOp(op=_OPERATOR_UNARY[name](), operand=args[0])
    return None


def fold_const(e):
    """constant-fold comparisons / membership / boolean structure over literal constants; returns an AST"""
    if isinstance(e, ast.BoolOp):
        vals = [fold_const(v) for v in e.values]
        is_and = isinstance(e.op, ast.And)
        keep = []
        for v in vals:
            if isinstance(v, ast.Constant) and isinstance(v.value, (bool, int)) and not isinstance(v.value, str):
                if bool(v.value) != is_and:
                    return ast.Constant(value=not is_and)
                continue
            keep.append(v)
        if not keep:
            return ast.Constant(value=is_and)
        if len(keep) == 1:
            return keep[0]
        return ast.BoolOp(op=e.op, values=keep)
    if isinstance(e, ast.UnaryOp) and isinstance(e.op, ast.Not):
        v = fold_const(e.operand)
        if isinstance(v, ast.Constant) and isinstance(v.value, (bool, int)):
            return ast.Constant(value=not v.value)
        return ast.UnaryOp(op=ast.Not(), operand=v)
    if isinstance(e, ast.Compare) and len(e.ops) == 1:
        l, r = e.left, e.comparators[0]
        op = e.ops[0]
        # X is X (same plain name, e.g. a module-level sentinel compared with itself)
        if isinstance(l, ast.Name) and isinstance(r, ast.Name) and l.id == r.id and isinstance(op, (ast.Is, ast.IsNot)):
            return ast.Constant(value=isinstance(op, ast.Is))
        if isinstance(l, ast.Constant):
            if isinstance(r, ast.Constant):
                try:
                    if isinstance(op, ast.Eq): return ast.Constant(value=l.value == r.value)
                    if isinstance(op, ast.NotEq): return ast.Constant(value=l.value != r.value)
                    if isinstance(op, ast.Lt): return ast.Constant(value=l.value < r.value)
                    if isinstance(op, ast.LtE): return ast.Constant(value=l.value <= r.value)
                    if isinstance(op, ast.Gt): return ast.Constant(value=l.value > r.value)
                    if isinstance(op, ast.GtE): return ast.Constant(value=l.value >= r.value)
                    if isinstance(op, ast.Is): return ast.Constant(value=l.value is r.value)
                    if isinstance(op, ast.IsNot): return ast.Constant(value=l.value is not r.value)
                except TypeError:
                    return e
            if isinstance(r, (ast.Tuple, ast.List, ast.Set)) and all(isinstance(x, ast.Constant) for x in r.elts):
                vals = [x.value for x in r.elts]
                if isinstance(op, ast.In): return ast.Constant(value=l.value in vals)
                if isinstance(op, ast.NotIn): return ast.Constant(value=l.value not in vals)
            if isinstance(r, ast.Dict) and all(isinstance(x, ast.Constant) for x in r.keys):
                vals = [x.value for x in r.keys]
                if isinstance(op, ast.In): return ast.Constant(value=l.value in vals)
                if isinstance(op, ast.NotIn): return ast.Constant(value=l.value not in vals)
    return e


def bind_call(callee, call, bound_method):
    """parameter -> argument AST for a call of a FunctionDef (positional, keyword, defaults); None if it cannot be bound"""
    if any(isinstance(a, ast.Starred) for a in call.args) or any(k.arg is None for k in call.keywords):
        return None
    if callee.args.vararg or callee.args.kwarg:
        return None
    pos = [a.arg for a in callee.args.posonlyargs + callee.args.args]
    static = any(isinstance(d, ast.Name) and d.id == "staticmethod" for d in callee.decorator_list)
    if pos and pos[0] in ("self", "cls") and bound_method and not static:
        pos = pos[1:]
    kwonly = [a.arg for a in callee.args.kwonlyargs]
    if len(call.args) > len(pos):
        return None
    env = dict(zip(pos, call.args))
    for k in call.keywords:
        if k.arg in env or k.arg not in pos + kwonly:
            return None
        env[k.arg] = k.value
    defaults = callee.args.defaults
    for p, d in zip(pos[len(pos) - len(defaults):], defaults):
        env.setdefault(p, d)
    for p, d in zip(kwonly, callee.args.kw_defaults):
        if d is not None:
            env.setdefault(p, d)
    if any(p not in env for p in pos + kwonly):
        return None
    return env


class _Fold(ast.NodeTransformer):
    """applies a caller-supplied rewriting `fold(node) -> node | None` bottom-up, inlines pure-expression callees
    (lambdas, operator-module functions, single-return helpers, constant-keyed table look-ups) and folds constants"""

    def __init__(self, fold, inline, depth):
        self.fold, self.inline, self.depth = fold, inline or {}, depth

    def generic_visit(self, node):
        node = super().generic_visit(node)
        if self.fold is not None and isinstance(node, ast.expr):
            r = self.fold(node)
            if r is not None:
                node = r
        return node

    def visit_Lambda(self, node):
        return node

    def visit_Subscript(self, node):
        node = self.generic_visit(node)
        if not isinstance(node, ast.Subscript):
            return node
        tab = node.value
        if isinstance(tab, ast.Name) and isinstance(self.inline.get(tab.id), ast.Dict):
            tab = self.inline[tab.id]
        if isinstance(tab, ast.Dict) and isinstance(node.slice, ast.Constant):
            for k, v in zip(tab.keys, tab.values):
                if isinstance(k, ast.Constant) and k.value == node.slice.value:
                    return copy.deepcopy(v)
        return node

    def visit_Compare(self, node):
        node = self.generic_visit(node)
        if not isinstance(node, ast.Compare):
            return node
        if len(node.ops) == 1 and isinstance(node.ops[0], (ast.In, ast.NotIn)) and isinstance(node.comparators[0], ast.Name) \
                and isinstance(self.inline.get(node.comparators[0].id), (ast.Dict, ast.Tuple, ast.List, ast.Set)):
            node = ast.Compare(left=node.left, ops=node.ops, comparators=[self.inline[node.comparators[0].id]])
        return fold_const(node)

    def visit_BoolOp(self, node):
        return fold_const(self.generic_visit(node))

    def visit_UnaryOp(self, node):
        return fold_const(self.generic_visit(node))

    def visit_IfExp(self, node):
        node = self.generic_visit(node)
        if not isinstance(node, ast.IfExp):
            return node
        if isinstance(node.test, ast.Constant) and isinstance(node.test.value, (bool, int)):
            return node.body if node.test.value else node.orelse
        return node

    def visit_Call(self, node):
        node = self.generic_visit(node)
        if not isinstance(node, ast.Call) or any(isinstance(a, ast.Starred) for a in node.args) or self.depth <= 0:
            return node
        f = node.func
        e = operator_call_as_expr(f, node.args) if not node.keywords else None
        if e is not None:
            return fold_const(e) if isinstance(e, ast.Compare) else e
        if isinstance(f, ast.Name) and isinstance(self.inline.get(f.id), ast.Lambda):
            f = self.inline[f.id]
        if isinstance(f, ast.Lambda) and not node.keywords:
            params = [a.arg for a in f.args.args]
            if len(params) == len(node.args) and not f.args.kwonlyargs and not f.args.vararg:
                body = subst(f.body, dict(zip(params, node.args)))
                return _Fold(self.fold, self.inline, self.depth - 1).visit(body)
        callee = None
        if isinstance(f, ast.Name):
            callee = self.inline.get(f.id)
        elif isinstance(f, ast.Attribute) and isinstance(f.value, ast.Name) and f.value.id in ("self", "cls"):
            callee = self.inline.get(f"{f.value.id}.{f.attr}")
        if isinstance(callee, ast.FunctionDef):
            penv = bind_call(callee, node, isinstance(f, ast.Attribute))
            body = [b for b in callee.body if not (isinstance(b, ast.Expr) and isinstance(b.value, ast.Constant))]
            if penv is not None:
                # pure-expression callee: every path is `return E` after constant-decidable tests
                ps = run_paths(body, env=penv, fold=self.fold, inline=self.inline, depth=self.depth - 1)
                if len(ps) == 1 and ps[0].how == "return" and not ps[0].effects and ps[0].ret is not None and not ps[0].conds_open():
                    return ps[0].ret
                # two pure paths that differ in the polarity of one test: `A if test else B`
                if len(ps) == 2 and all(q.how == "return" and not q.effects and q.ret is not None for q in ps):
                    c0, c1 = ps[0].conds_open(), ps[1].conds_open()
                    if len(c0) == 1 and len(c1) == 1 and unparse(c0[0][0]) == unparse(c1[0][0]) and c0[0][1] != c1[0][1]:
                        yes, no = (ps[0], ps[1]) if c0[0][1] else (ps[1], ps[0])
                        return ast.IfExp(test=c0[0][0], body=yes.ret, orelse=no.ret)
        return node


def _entailed(test, conds):
    """True/False when the path conditions already decide `test`: the same test was taken before, or the test asks whether
    X is None while `isinstance(X, T)` holds on this path"""
    tt = unparse(test)
    # isinstance(C(...), C): an object just constructed by calling the class is an instance of it
    if isinstance(test, ast.Call) and dotted(test.func) == "isinstance" and len(test.args) == 2 and \
            isinstance(test.args[0], ast.Call) and dotted(test.args[0].func) is not None and \
            dotted(test.args[0].func) == dotted(test.args[1]) and dotted(test.args[1])[:1].isupper():
        return True
    if isinstance(test, ast.UnaryOp) and isinstance(test.op, ast.Not):
        inner = _entailed(test.operand, []) if isinstance(test.operand, ast.Call) else None
        if inner is not None:
            return not inner
    for t, pol in conds:
        if unparse(t) == tt:
            return pol
        if isinstance(t, ast.UnaryOp) and isinstance(t.op, ast.Not) and unparse(t.operand) == tt:
            return not pol
        if isinstance(test, ast.UnaryOp) and isinstance(test.op, ast.Not) and unparse(test.operand) == unparse(t):
            return not pol
    # the complementary comparison was taken before: `A is not B` / `A is B`, `A != B` / `A == B`, `A not in B` / `A in B`
    if isinstance(test, ast.Compare) and len(test.ops) == 1:
        comp = {ast.Is: ast.IsNot, ast.IsNot: ast.Is, ast.Eq: ast.NotEq, ast.NotEq: ast.Eq, ast.In: ast.NotIn, ast.NotIn: ast.In,
                ast.Lt: ast.GtE, ast.GtE: ast.Lt, ast.Gt: ast.LtE, ast.LtE: ast.Gt}
        c = comp.get(type(test.ops[0]))
        if c is not None:
            alt = unparse(ast.Compare(left=test.left, ops=[c()], comparators=test.comparators))
            for t, pol in conds:
                if unparse(t) == alt:
                    return not pol
    if isinstance(test, ast.Compare) and len(test.ops) == 1 and isinstance(test.ops[0], (ast.Is, ast.IsNot)) and \
            isinstance(test.comparators[0], ast.Constant) and test.comparators[0].value is None:
        x = unparse(test.left)
        for t, pol in conds:
            if pol and isinstance(t, ast.Call) and isinstance(t.func, ast.Name) and t.func.id == "isinstance" and \
                    len(t.args) == 2 and unparse(t.args[0]) == x:
                return isinstance(test.ops[0], ast.IsNot)
    if isinstance(test, ast.Compare) and len(test.ops) == 1 and isinstance(test.ops[0], (ast.Is, ast.IsNot)) and \
            isinstance(test.left, ast.Constant) and test.left.value is None and \
            isinstance(test.comparators[0], ast.Constant) and test.comparators[0].value is None:
        return isinstance(test.ops[0], ast.Is)
    return None


def run_paths(stmts, env=None, max_paths=256, decide=None, inline=None, fold=None, depth=3):
    """decide(test_ast) -> True/False/None lets the caller prune branches whose test it can evaluate.
    inline: {name | "self.name": FunctionDef | Lambda | Dict literal}: callees that may be expanded (bounded by `depth`);
    a statement-level call `x = f(..)` / `return f(..)` / `f(..)` to a FunctionDef is expanded path by path.
    fold(node) -> node | None: caller-supplied rewriting applied bottom-up to every substituted expression (e.g. to pin
    `value.operator` to one constant when specialising an interpreter)."""
    results = []
    folder = _Fold(fold, inline, depth) if (fold is not None or inline) else None

    def F(e):
        if folder is None or e is None:
            return e
        return folder.visit(copy.deepcopy(e))

    class _Decided(ast.NodeTransformer):
        """conditional expressions whose test the path has already decided"""
        def __init__(self, conds):
            self.conds = conds

        def visit_IfExp(self, node):
            node = self.generic_visit(node)
            v = _entailed(node.test, self.conds) if isinstance(node, ast.IfExp) else None
            if v is None:
                return node
            return node.body if v else node.orelse

    def D(e, conds):
        if e is None or not conds or not any(isinstance(n, ast.IfExp) for n in ast.walk(e)):
            return e
        return _Decided(conds).visit(copy.deepcopy(e))

    def callee_of(call):
        if not inline or depth <= 0 or not isinstance(call, ast.Call):
            return None
        f = call.func
        c = None
        if isinstance(f, ast.Name):
            c = inline.get(f.id)
        elif isinstance(f, ast.Attribute) and isinstance(f.value, ast.Name) and f.value.id in ("self", "cls"):
            c = inline.get(f"{f.value.id}.{f.attr}")
        if not isinstance(c, ast.FunctionDef):
            return None
        penv = bind_call(c, call, isinstance(f, ast.Attribute))
        if penv is None:
            return None
        return c, penv

    def go(stmts, i, env, conds, effects):
        if len(results) > max_paths:
            return
        while i < len(stmts):
            s = stmts[i]
            i += 1
            if isinstance(s, (ast.FunctionDef, ast.AsyncFunctionDef, ast.ClassDef, ast.Pass, ast.Import, ast.ImportFrom)):
                continue
            # d.setdefault(k, v)  ==  if k not in d: d[k] = v ; then d[k]
            sd = s.value if isinstance(s, (ast.Assign, ast.Expr)) else None
            if isinstance(sd, ast.Call) and isinstance(sd.func, ast.Attribute) and sd.func.attr == "setdefault" and \
                    len(sd.args) == 2 and not sd.keywords:
                d_, k_, v_ = sd.func.value, sd.args[0], sd.args[1]
                slot = ast.Subscript(value=d_, slice=k_, ctx=ast.Load())
                pre = ast.If(test=ast.Compare(left=k_, ops=[ast.NotIn()], comparators=[d_]),
                             body=[ast.Assign(targets=[ast.Subscript(value=d_, slice=k_, ctx=ast.Store())], value=v_,
                                              lineno=s.lineno)], orelse=[], lineno=s.lineno)
                new = [pre]
                if isinstance(s, ast.Assign):
                    new.append(ast.Assign(targets=s.targets, value=slot, lineno=s.lineno))
                stmts = new + stmts[i:]
                i = 0
                continue
            if isinstance(s, (ast.Assign, ast.Return, ast.Expr)) and getattr(s, "value", None) is not None:
                hit = callee_of(F(subst(s.value, env)))
                if hit is not None:
                    callee, penv = hit
                    body = [b for b in callee.body if not (isinstance(b, ast.Expr) and isinstance(b.value, ast.Constant))]
                    rest = stmts[i:]
                    for cp in run_paths(body, env=penv, max_paths=max_paths, decide=decide, inline=inline, fold=fold,
                                        depth=depth - 1):
                        if cp.how == "raise":
                            results.append(Path(conds + cp.conds, env, cp.ret, "raise", effects + cp.effects, s.lineno))
                            continue
                        rv = cp.ret if cp.ret is not None else ast.Constant(value=None)
                        if isinstance(s, ast.Return):
                            results.append(Path(conds + cp.conds, env, rv, "return", effects + cp.effects, s.lineno))
                        elif isinstance(s, ast.Expr):
                            go(rest, 0, env, conds + cp.conds, effects + cp.effects)
                        else:
                            tmp = f"__inl{s.lineno}_{len(results)}"
                            env2 = dict(env)
                            env2[tmp] = rv
                            go([ast.Assign(targets=s.targets, value=ast.Name(id=tmp, ctx=ast.Load()), lineno=s.lineno)] + rest,
                               0, env2, conds + cp.conds, effects + cp.effects)
                    return
            if isinstance(s, ast.Assign) and isinstance(s.value, ast.Call) and isinstance(s.value.func, ast.Name) and \
                    s.value.func.id == "divmod" and len(s.value.args) == 2 and not s.value.keywords and len(s.targets) == 1 and \
                    isinstance(s.targets[0], (ast.Tuple, ast.List)) and len(s.targets[0].elts) == 2:
                # q, r = divmod(a, b)  ==  q = a // b ; r = a % b   (both from the old a, b)
                a_, b_ = s.value.args
                tup = ast.Tuple(elts=[ast.BinOp(left=a_, op=ast.FloorDiv(), right=b_), ast.BinOp(left=a_, op=ast.Mod(), right=b_)], ctx=ast.Load())
                stmts = [ast.Assign(targets=s.targets, value=tup, lineno=s.lineno)] + stmts[i:]
                i = 0
                continue
            if isinstance(s, ast.Assign):
                val = D(F(subst(s.value, env)), conds)
                if isinstance(val, ast.IfExp) and len(s.targets) == 1 and isinstance(s.targets[0], ast.Name):
                    # the conditional came from expanding a helper with two return paths: follow them as paths
                    rest = stmts[i:]
                    t_ = s.targets[0]
                    for branch, pol in ((val.body, True), (val.orelse, False)):
                        env2 = dict(env)
                        env2[t_.id] = branch
                        go(rest, 0, env2, conds + [(val.test, pol)], effects)
                    return
                for t in s.targets:
                    if isinstance(t, ast.Name):
                        env = dict(env)
                        env[t.id] = val
                    elif isinstance(t, (ast.Tuple, ast.List)) and all(isinstance(e, ast.Name) for e in t.elts):
                        env = dict(env)
                        if isinstance(val, (ast.Tuple, ast.List)) and len(val.elts) == len(t.elts):
                            for e, v in zip(t.elts, val.elts):
                                env[e.id] = v
                        else:
                            for k, e in enumerate(t.elts):
                                env[e.id] = ast.Subscript(value=val, slice=ast.Constant(k), ctx=ast.Load())
                    elif isinstance(t, ast.Subscript) and isinstance(t.value, ast.Name) and \
                            isinstance(env.get(t.value.id), ast.Dict) and isinstance(t.slice, ast.Constant):
                        # d["k"] = v on a dict literal held in a local: fold into the literal
                        d = env[t.value.id]
                        keys, vals = list(d.keys), list(d.values)
                        hit = [i_ for i_, k in enumerate(keys) if isinstance(k, ast.Constant) and k.value == t.slice.value]
                        if hit:
                            vals[hit[0]] = val
                        else:
                            keys.append(ast.Constant(t.slice.value))
                            vals.append(val)
                        env = dict(env)
                        env[t.value.id] = ast.Dict(keys=keys, values=vals)
                    elif isinstance(t, (ast.Tuple, ast.List)) and isinstance(val, (ast.Tuple, ast.List)) and \
                            len(val.elts) == len(t.elts) and not any(isinstance(e, ast.Starred) for e in list(t.elts) + list(val.elts)):
                        # a, obj.x = E1, E2 with mixed targets: all values are taken first, then stored left to right
                        for e, v in zip(t.elts, val.elts):
                            if isinstance(e, ast.Name):
                                env = dict(env)
                                env[e.id] = v
                            else:
                                eff_ = ast.Assign(targets=[subst(e, env)], value=v, lineno=s.lineno)
                                env, effects = freeze_readers(env, effects, eff_, stmts[i:])
                                effects = effects + [eff_]
                                env = heap_update(env, eff_)
                    else:
                        eff_ = ast.Assign(targets=[subst(t, env)], value=val, lineno=s.lineno)
                        env, effects = freeze_readers(env, effects, eff_, stmts[i:])
                        effects = effects + [eff_]
                        env = heap_update(env, eff_)
                continue
            if isinstance(s, ast.AugAssign):
                if isinstance(s.target, ast.Name):
                    cur = env.get(s.target.id, ast.Name(id=s.target.id, ctx=ast.Load()))
                    env = dict(env)
                    env[s.target.id] = ast.BinOp(left=copy.deepcopy(cur), op=s.op, right=subst(s.value, env))
                else:
                    eff_ = ast.AugAssign(target=subst(s.target, env), op=s.op, value=subst(s.value, env), lineno=s.lineno)
                    env, effects = freeze_readers(env, effects, eff_, stmts[i:])
                    effects = effects + [eff_]
                    env = heap_update(env, eff_)
                continue
            if isinstance(s, ast.Expr):
                v = s.value
                if isinstance(v, ast.Call) and isinstance(v.func, ast.Attribute) and v.func.attr == "update" and \
                        isinstance(v.func.value, ast.Name) and isinstance(env.get(v.func.value.id), ast.Dict) and \
                        len(v.args) == 1 and isinstance(v.args[0], ast.Dict):
                    d = env[v.func.value.id]
                    keys, vals = list(d.keys), list(d.values)
                    for k, x in zip(v.args[0].keys, v.args[0].values):
                        x = subst(x, env)
                        hit = [i_ for i_, kk in enumerate(keys) if isinstance(kk, ast.Constant) and isinstance(k, ast.Constant)
                               and kk.value == k.value]
                        if hit:
                            vals[hit[0]] = x
                        else:
                            keys.append(k)
                            vals.append(x)
                    env = dict(env)
                    env[v.func.value.id] = ast.Dict(keys=keys, values=vals)
                    continue
                eff_ = D(F(subst(s.value, env)), conds)
                env, effects = freeze_readers(env, effects, eff_, stmts[i:])
                effects = effects + [eff_]
                env = heap_update(env, eff_)
                continue
            if isinstance(s, ast.Return):
                rv = D(F(subst(s.value, env)), conds) if s.value is not None else None
                # `return A if c else B` is the two-path `if c: return A` / `return B`
                def ret_paths(v, conds_, budget=4):
                    if isinstance(v, ast.IfExp) and budget > 0:
                        verdict = _entailed(v.test, conds_)
                        if verdict is not False:
                            ret_paths(v.body, conds_ + [(v.test, True)] if verdict is None else conds_, budget - 1)
                        if verdict is not True:
                            ret_paths(v.orelse, conds_ + [(v.test, False)] if verdict is None else conds_, budget - 1)
                    else:
                        results.append(Path(conds_, env, v, "return", effects, s.lineno))
                ret_paths(rv, conds)
                return
            if isinstance(s, ast.Raise):
                results.append(Path(conds, env, subst(s.exc, env) if s.exc is not None else None, "raise", effects,
                                    s.lineno))
                return
            if isinstance(s, ast.Continue):
                results.append(Path(conds, env, None, "continue", effects, s.lineno))
                return
            if isinstance(s, ast.Break):
                results.append(Path(conds, env, None, "break", effects, s.lineno))
                return
            if isinstance(s, ast.Assert):
                if isinstance(s.test, ast.Constant) and s.test.value is False:
                    results.append(Path(conds, env, None, "raise", effects, s.lineno))
                    return
                continue
            if isinstance(s, ast.If):
                test = F(subst(s.test, env))
                rest = stmts[i:]
                # a multi-path callee in the test position: expand it path by path
                tcall, neg = test, False
                if isinstance(tcall, ast.UnaryOp) and isinstance(tcall.op, ast.Not):
                    tcall, neg = tcall.operand, True
                hit = callee_of(tcall)
                if hit is not None:
                    callee, penv = hit
                    body = [b for b in callee.body if not (isinstance(b, ast.Expr) and isinstance(b.value, ast.Constant))]
                    for cp in run_paths(body, env=penv, max_paths=max_paths, decide=decide, inline=inline, fold=fold,
                                        depth=depth - 1):
                        if cp.how == "raise":
                            results.append(Path(conds + cp.conds, env, cp.ret, "raise", effects + cp.effects, s.lineno))
                            continue
                        rv = cp.ret if cp.ret is not None else ast.Constant(value=None)
                        if neg:
                            rv = fold_const(ast.UnaryOp(op=ast.Not(), operand=rv))
                        go([ast.If(test=rv, body=s.body, orelse=s.orelse, lineno=s.lineno)] + rest, 0, env,
                           conds + cp.conds, effects + cp.effects)
                    return
                verdict = decide(test) if decide is not None else None
                if verdict is None and isinstance(test, ast.Constant) and isinstance(test.value, (bool, int)):
                    verdict = bool(test.value)
                if verdict is None:
                    verdict = _entailed(test, conds)
                    if verdict is not None:
                        test = ast.Constant(value=verdict)      # decided by the path: not an open condition
                if verdict is not False:
                    go(list(s.body) + rest, 0, env, conds + [(test, True)], effects)
                if verdict is not True:
                    go(list(s.orelse) + rest, 0, env, conds + [(test, False)], effects)
                return
            if isinstance(s, (ast.With, ast.AsyncWith)):
                rest = stmts[i:]
                # the block is delimited in the summary (`with m.If(c):` — what is inside matters); `as` names are opaque
                items = [subst(it.context_expr, env) for it in s.items]
                env = dict(env)
                for it in s.items:
                    if it.optional_vars is not None:
                        for n in ast.walk(it.optional_vars):
                            if isinstance(n, ast.Name):
                                env.pop(n.id, None)
                enter = [ast.Expr(value=ast.Call(func=ast.Name(id="__with__", ctx=ast.Load()), args=[x], keywords=[]), lineno=s.lineno)
                         for x in items]
                leave = [ast.Expr(value=ast.Name(id="__end_with__", ctx=ast.Load()), lineno=s.lineno)]
                go(enter + list(s.body) + leave + rest, 0, env, conds, effects)
                return
            if isinstance(s, (ast.For, ast.AsyncFor, ast.While)):
                env = dict(env)
                k_loop = sum(1 for e in effects if isinstance(e, (ast.For, ast.AsyncFor, ast.While)))
                env.pop("__heap__", None)       # a loop may store anywhere
                for n in assigned_names([s]):
                    env[n] = ast.Name(id=f"{n}__loop{k_loop}", ctx=ast.Load())
                effects = effects + [s]
                continue
            if isinstance(s, ast.Try):
                rest = stmts[i:]
                eff0 = effects
                if s.handlers:
                    effects = effects + [ast.Expr(value=ast.Name(id="__try_except__", ctx=ast.Load()))]
                fin = list(s.finalbody)
                if fin:
                    # what runs in `finally` runs on the exceptional exits too: keep the block delimited in the summary
                    fin = [ast.Expr(value=ast.Name(id="__finally__", ctx=ast.Load()), lineno=s.lineno)] + fin + \
                          [ast.Expr(value=ast.Name(id="__end_finally__", ctx=ast.Load()), lineno=s.lineno)]
                go(list(s.body) + list(s.orelse) + fin + rest, 0, env, conds, effects)
                # each handler as an alternative path: the protected block raised (its partial effects are not modelled),
                # recorded as the open condition `__raised__(<exception>)`
                for h in s.handlers:
                    exc = unparse(h.type) if h.type is not None else "BaseException"
                    mark = ast.Call(func=ast.Name(id="__raised__", ctx=ast.Load()), args=[ast.Name(id=exc.replace(" ", ""), ctx=ast.Load())], keywords=[])
                    go(list(h.body) + fin + rest, 0, env, conds + [(mark, True)], eff0)
                return
            effects = effects + [s]
        results.append(Path(conds, env, None, "fall", effects, stmts[-1].lineno if stmts else 0))

    go(list(stmts), 0, dict(env or {}), [], [])
    return results
