"""E7: analyser for `elaborate()` bodies written in the Module DSL.

Recovers, without executing anything, every `m.d.<domain> += target.eq(rhs)` with its guard stack (m.If/Elif/Else,
m.Switch/Case, m.FSM/State), the Python-level path condition (`if self.depth == 1:`), Python aliases
(`do_write = self.w_rdy & self.w_en`) and submodule instantiations; and computes the syntactic support of
expressions (the signal atoms they mention through aliases and through combinational intermediates).
"""
import ast
import copy
from .astutil import unparse, dotted, pmatch
from .core import AnalysisError


class Assign:
    def __init__(self, domain, target, rhs, guards, pyconds, lineno):
        self.domain = domain        # text of the domain expression: 'comb', 'sync', 'self._w_domain', ...
        self.target = target        # AST
        self.rhs = rhs              # AST
        self.guards = guards        # [(cond AST, polarity)] innermost last
        self.pyconds = pyconds      # [(test AST, polarity)]
        self.lineno = lineno

    @property
    def target_text(self):
        return unparse(self.target)

    def __repr__(self):
        g = " & ".join(("" if p else "~") + unparse(c) for c, p in self.guards)
        return f"<{self.domain}: {self.target_text} <= {unparse(self.rhs)} if [{g}] @{self.lineno}>"


class Submodule:
    def __init__(self, name, call, pyconds, lineno):
        self.name = name
        self.call = call
        self.pyconds = pyconds
        self.lineno = lineno


class ElabModel:
    def __init__(self, fn, mname="m"):
        self.fn = fn
        self.m = mname
        self.assigns = []
        self.submodules = []
        self.aliases = {}           # python name -> AST (last binding before use; elaborate bodies are single-assignment in practice)
        self.signals = {}           # local name -> Signal(...) call AST
        self.returns = []           # (pyconds, lineno) early returns
        self._walk(fn.body, [], [])

    # ------------------------------------------------------------------ walking
    def _domain_of(self, target):
        """m.d.sync / m.d['x'] / m.d[self._w_domain] -> domain text, else None"""
        if isinstance(target, ast.Attribute) and isinstance(target.value, ast.Attribute) and \
                unparse(target.value) == f"{self.m}.d":
            return target.attr
        if isinstance(target, ast.Subscript) and unparse(target.value) == f"{self.m}.d":
            s = target.slice
            if isinstance(s, ast.Constant) and isinstance(s.value, str):
                return s.value
            if isinstance(s, ast.Name) and s.id in self.aliases and s.id not in self.signals:
                return unparse(self.expand(s))          # o_domain = self._o_domain; m.d[o_domain] += ...
            return unparse(s)
        return None

    def _eqs(self, value):
        """.eq() calls inside the RHS of `m.d.x += ...` (single call, list/tuple of calls, or a conditional list)"""
        out = []
        if isinstance(value, (ast.List, ast.Tuple)):
            for e in value.elts:
                out += self._eqs(e)
        elif isinstance(value, ast.Call) and isinstance(value.func, ast.Attribute) and value.func.attr == "eq" and len(value.args) == 1:
            out.append((value.func.value, value.args[0]))
        elif isinstance(value, ast.Call) and dotted(value.func) in ("Assert", "Assume", "Cover", "Print"):
            pass
        else:
            out.append((None, value))
        return out

    def _walk(self, stmts, guards, pyconds):
        prev_if = None   # for Elif/Else: list of conds of the chain so far
        for s in stmts:
            if isinstance(s, ast.With):
                item = s.items[0].context_expr
                kind = None
                if isinstance(item, ast.Call) and isinstance(item.func, ast.Attribute) and unparse(item.func.value) == self.m:
                    kind = item.func.attr
                if kind == "If":
                    cond = item.args[0]
                    prev_if = [cond]
                    self._walk(s.body, guards + [(cond, True)], pyconds)
                    continue
                if kind == "Elif":
                    cond = item.args[0]
                    g = guards + [(c, False) for c in (prev_if or [])] + [(cond, True)]
                    prev_if = (prev_if or []) + [cond]
                    self._walk(s.body, g, pyconds)
                    continue
                if kind == "Else":
                    g = guards + [(c, False) for c in (prev_if or [])]
                    self._walk(s.body, g, pyconds)
                    prev_if = None
                    continue
                if kind in ("Switch", "FSM"):
                    self._walk(s.body, guards + [(item, True)], pyconds)
                    prev_if = None
                    continue
                if kind in ("Case", "State", "Default"):
                    self._walk(s.body, guards + [(item, True)], pyconds)
                    continue
                self._walk(s.body, guards, pyconds)
                prev_if = None
                continue
            prev_if_keep = prev_if
            prev_if = None
            if isinstance(s, ast.AugAssign) and isinstance(s.op, ast.Add):
                dom = self._domain_of(s.target)
                if dom is not None:
                    for tgt, rhs in self._eqs(s.value):
                        if tgt is not None:
                            self.assigns.append(Assign(dom, tgt, rhs, list(guards), list(pyconds), s.lineno))
                    continue
                if unparse(s.target) == f"{self.m}.submodules":
                    self.submodules.append(Submodule(None, s.value, list(pyconds), s.lineno))
                    continue
            if isinstance(s, ast.Assign):
                # m.submodules.x = y = Call(...)
                sub_t = [t for t in s.targets if isinstance(t, ast.Attribute) and unparse(t.value) == f"{self.m}.submodules"]
                if sub_t:
                    self.submodules.append(Submodule(sub_t[0].attr, s.value, list(pyconds), s.lineno))
                    for t in s.targets:
                        if isinstance(t, ast.Name):
                            self.aliases[t.id] = s.value
                    continue
                for t in s.targets:
                    if isinstance(t, ast.Name):
                        self.aliases[t.id] = s.value
                        if isinstance(s.value, ast.Call) and dotted(s.value.func) == "Signal":
                            self.signals[t.id] = s.value
                    if isinstance(t, ast.Attribute) and isinstance(s.value, ast.Call) and dotted(s.value.func) == "Signal":
                        self.signals[unparse(t)] = s.value
                continue
            if isinstance(s, ast.If):
                # a name bound once in each branch is the conditional expression of the two values afterwards
                both = []
                if s.orelse:
                    def _binds(block):
                        out = {}
                        for x in block:
                            if isinstance(x, ast.Assign) and len(x.targets) == 1 and isinstance(x.targets[0], ast.Name):
                                out[x.targets[0].id] = None if x.targets[0].id in out else x.value
                        return out
                    b1, b2 = _binds(s.body), _binds(s.orelse)
                    both = [(k, b1[k], b2[k]) for k in b1 if k in b2 and b1[k] is not None and b2[k] is not None
                            and not any(isinstance(n, ast.Call) for v in (b1[k], b2[k]) for n in ast.walk(v))]   # plain operand choices only
                self._walk(s.body, guards, pyconds + [(s.test, True)])
                # an early return in the body makes the rest conditional on the negation
                if any(isinstance(x, ast.Return) for x in s.body):
                    self.returns.append((pyconds + [(s.test, True)], s.lineno))
                    if s.orelse:
                        self._walk(s.orelse, guards, pyconds + [(s.test, False)])
                    pyconds = pyconds + [(s.test, False)]
                else:
                    self._walk(s.orelse, guards, pyconds + [(s.test, False)])
                for k, v1, v2 in both:
                    if k not in self.signals:
                        self.aliases[k] = ast.IfExp(test=s.test, body=v1, orelse=v2)
                continue
            if isinstance(s, (ast.For, ast.While)):
                self._walk(s.body, guards, pyconds)
                continue
            if isinstance(s, ast.Expr):
                continue

    # ------------------------------------------------------------------ queries
    def expand(self, e, depth=0):
        """substitute Python aliases (not Signals) recursively"""
        if depth > 12:
            return e
        model = self

        class T(ast.NodeTransformer):
            def visit_Name(self, node):
                if isinstance(node.ctx, ast.Load) and node.id in model.aliases and node.id not in model.signals:
                    v = model.aliases[node.id]
                    if isinstance(v, ast.Call) and dotted(v.func) in ("Signal", "Module", "Memory") or \
                            isinstance(v, ast.Call) and isinstance(v.func, ast.Attribute) and v.func.attr in ("read_port", "write_port"):
                        return node
                    return model.expand(copy.deepcopy(v), depth + 1)
                return node
        return T().visit(copy.deepcopy(e))

    def atoms(self, e):
        """signal atoms mentioned by an expression after alias expansion: attribute chains and local names"""
        e = self.expand(e)
        out = set()

        def rec(n):
            if isinstance(n, ast.Attribute):
                d = dotted(n)
                if d is not None:
                    out.add(d)
                    return
            if isinstance(n, ast.Name):
                out.add(n.id)
                return
            if isinstance(n, ast.Call):
                # method calls on signals (x.any(), x.bool(), x[...]) keep the receiver; helper functions keep args
                if isinstance(n.func, ast.Attribute):
                    rec(n.func.value)
                for a in n.args:
                    rec(a)
                for k in n.keywords:
                    rec(k.value)
                return
            for c in ast.iter_child_nodes(n):
                rec(c)
        rec(e)
        return out

    def support(self, e, domain="comb", _seen=None):
        """atoms of e, closed under unconditional/any combinational definitions of local intermediates"""
        _seen = _seen if _seen is not None else set()
        out = set()
        for a in self.atoms(e):
            out.add(a)
            if a in _seen:
                continue
            _seen.add(a)
            for asg in self.assigns:
                if asg.domain == "comb" and unparse(asg.target) == a:
                    out |= self.support(asg.rhs, "comb", _seen)
                    for c, _p in asg.guards:
                        out |= self.support(c, "comb", _seen)
        return out

    def guard_support(self, asg):
        out = set()
        for c, _p in asg.guards:
            if isinstance(c, ast.Call):
                for a in c.args:
                    out |= self.support(a)
            else:
                out |= self.support(c)
        return out

    def assigns_to(self, target_text, domain=None):
        return [a for a in self.assigns if a.target_text == target_text and (domain is None or a.domain == domain)]

    def pycond_text(self, conds):
        return " and ".join(("" if p else "not ") + unparse(t) for t, p in conds)
