"""Abstract interpreter over the GF(2)-affine bit-vector domain (E5b).

A value of the HDL kind is a tuple of bits; every bit is an affine form over the input bits: a frozenset of input-bit
indices (their XOR) plus a constant parity.  The only HDL constructors interpreted are the XOR-linear ones that the
Gray-code helpers of lib/fifo.py are written with (``^``, constant shifts, indexing/slicing, ``Cat``, ``Const``); python
integers, lists, ``range``/``reversed``/``len`` and ``for`` loops over them are evaluated concretely for ONE given
operand width.  Anything else is refused with AnalysisError (exit 2): an unrecognised construct is never a verdict.

The analysed function is taken from /repo's source as an AST; nothing from /repo is imported or executed."""
import ast
from .core import AnalysisError
from .astutil import unparse, dotted


class Bits:
    """unsigned bit vector; bits[i] = (frozenset(inputs), parity)"""
    __slots__ = ("bits",)

    def __init__(self, bits):
        self.bits = tuple(bits)

    @staticmethod
    def inputs(n):
        return Bits((frozenset([i]), 0) for i in range(n))

    @staticmethod
    def const(value, width):
        return Bits((frozenset(), (value >> i) & 1) for i in range(width))

    def __len__(self):
        return len(self.bits)

    def xor(self, other):
        n = max(len(self), len(other))
        z = (frozenset(), 0)
        out = []
        for i in range(n):
            a = self.bits[i] if i < len(self) else z
            b = other.bits[i] if i < len(other) else z
            out.append((a[0] ^ b[0], a[1] ^ b[1]))
        return Bits(out)

    def text(self):
        def one(b):
            t = [f"v[{i}]" for i in sorted(b[0])] + (["1"] if b[1] else [])
            return "^".join(t) or "0"
        return "[" + ", ".join(one(b) for b in self.bits) + "]"


class _Return(Exception):
    def __init__(self, v):
        self.value = v


def _ceil_log2(n):
    if n < 0:
        raise AnalysisError("gf2: ceil_log2 of a negative number")
    return 0 if n == 0 else (n - 1).bit_length()


class GF2Eval:
    def __init__(self, functions=None):
        self.functions = functions or {}
        self.steps = 0

    def call(self, fn, args):
        env = {}
        for p, a in zip([a.arg for a in fn.args.args], args):
            env[p] = a
        try:
            self.block(fn.body, env)
        except _Return as r:
            return r.value
        return None

    def block(self, stmts, env):
        for s in stmts:
            self.steps += 1
            if self.steps > 200000:
                raise AnalysisError("gf2: step limit")
            if isinstance(s, ast.Expr) and isinstance(s.value, ast.Constant):
                continue
            if isinstance(s, ast.Return):
                raise _Return(self.ev(s.value, env))
            if isinstance(s, ast.Assign) and len(s.targets) == 1:
                v = self.ev(s.value, env)
                t = s.targets[0]
                if isinstance(t, ast.Name):
                    env[t.id] = v
                elif isinstance(t, ast.Subscript) and isinstance(t.value, ast.Name) and isinstance(env.get(t.value.id), list):
                    i = self.ev(t.slice, env)
                    if not isinstance(i, int):
                        raise AnalysisError(f"gf2: non-concrete list index {unparse(t)}")
                    env[t.value.id][i] = v
                else:
                    raise AnalysisError(f"gf2: unsupported assignment target {unparse(t)}")
                continue
            if isinstance(s, ast.AugAssign) and isinstance(s.target, ast.Name):
                v = self.binop(s.op, env[s.target.id], self.ev(s.value, env), s)
                env[s.target.id] = v
                continue
            if isinstance(s, ast.For) and not s.orelse:
                it = self.ev(s.iter, env)
                if not isinstance(it, (list, range)):
                    raise AnalysisError(f"gf2: cannot iterate {unparse(s.iter)}")
                for x in it:
                    if not isinstance(s.target, ast.Name):
                        raise AnalysisError(f"gf2: unsupported loop target {unparse(s.target)}")
                    env[s.target.id] = x
                    self.block(s.body, env)
                continue
            if isinstance(s, ast.If):
                c = self.ev(s.test, env)
                if not isinstance(c, (bool, int)):
                    raise AnalysisError(f"gf2: non-concrete condition {unparse(s.test)}")
                self.block(s.body if c else s.orelse, env)
                continue
            raise AnalysisError(f"gf2: unsupported statement `{unparse(s).splitlines()[0]}`")

    def binop(self, op, l, r, node):
        if isinstance(l, Bits) or isinstance(r, Bits):
            if isinstance(op, ast.BitXor):
                if isinstance(l, int):
                    l = Bits.const(l, max(l.bit_length(), 0))
                if isinstance(r, int):
                    r = Bits.const(r, max(r.bit_length(), 0))
                return l.xor(r)
            if isinstance(op, ast.RShift) and isinstance(l, Bits) and isinstance(r, int) and r >= 0:
                z = (frozenset(), 0)
                return Bits(l.bits[i + r] if i + r < len(l) else z for i in range(len(l)))
            raise AnalysisError(f"gf2: operator outside the XOR-linear fragment: `{unparse(node)}`")
        if isinstance(l, int) and isinstance(r, int):
            if isinstance(op, ast.Add): return l + r
            if isinstance(op, ast.Sub): return l - r
            if isinstance(op, ast.Mult): return l * r
            if isinstance(op, ast.FloorDiv) and r: return l // r
            if isinstance(op, ast.LShift) and 0 <= r < 64: return l << r
            if isinstance(op, ast.RShift) and r >= 0: return l >> r
            if isinstance(op, ast.Pow) and 0 <= r < 64: return l ** r
        if isinstance(l, list) and isinstance(r, int) and isinstance(op, ast.Mult):
            return l * r
        raise AnalysisError(f"gf2: unsupported arithmetic `{unparse(node)}`")

    def ev(self, e, env):
        if isinstance(e, ast.Constant):
            return e.value
        if isinstance(e, ast.Name):
            if e.id in env:
                return env[e.id]
            raise AnalysisError(f"gf2: unknown name {e.id}")
        if isinstance(e, ast.Attribute) and isinstance(e.value, ast.Name) and e.value.id in ("operator", "_operator"):
            ops = {"xor": ast.BitXor(), "__xor__": ast.BitXor(), "rshift": ast.RShift(), "add": ast.Add(), "sub": ast.Sub()}
            if e.attr in ops:
                return ("binop", ops[e.attr])
            raise AnalysisError(f"gf2: operator outside the XOR-linear fragment: {unparse(e)}")
        if isinstance(e, ast.Lambda) and len(e.args.args) == 2 and isinstance(e.body, ast.BinOp) and \
                isinstance(e.body.left, ast.Name) and isinstance(e.body.right, ast.Name) and \
                [e.body.left.id, e.body.right.id] == [a.arg for a in e.args.args]:
            return ("binop", e.body.op)
        if isinstance(e, ast.List):
            return [self.ev(x, env) for x in e.elts]
        if isinstance(e, ast.BinOp):
            return self.binop(e.op, self.ev(e.left, env), self.ev(e.right, env), e)
        if isinstance(e, ast.UnaryOp) and isinstance(e.op, ast.USub):
            v = self.ev(e.operand, env)
            if isinstance(v, int):
                return -v
        if isinstance(e, ast.Compare) and len(e.ops) == 1:
            l, r = self.ev(e.left, env), self.ev(e.comparators[0], env)
            if isinstance(l, int) and isinstance(r, int):
                import operator as _o
                tab = {ast.Lt: _o.lt, ast.LtE: _o.le, ast.Gt: _o.gt, ast.GtE: _o.ge, ast.Eq: _o.eq, ast.NotEq: _o.ne}
                if type(e.ops[0]) in tab:
                    return tab[type(e.ops[0])](l, r)
        if isinstance(e, ast.Subscript):
            base = self.ev(e.value, env)
            if isinstance(e.slice, ast.Slice):
                lo = self.ev(e.slice.lower, env) if e.slice.lower is not None else None
                hi = self.ev(e.slice.upper, env) if e.slice.upper is not None else None
                st = self.ev(e.slice.step, env) if e.slice.step is not None else None
                if not all(x is None or isinstance(x, int) for x in (lo, hi, st)):
                    raise AnalysisError(f"gf2: non-concrete slice {unparse(e)}")
                if isinstance(base, Bits):
                    return Bits(base.bits[lo:hi:st])
                if isinstance(base, list):
                    return base[lo:hi:st]
            else:
                i = self.ev(e.slice, env)
                if isinstance(i, int) and isinstance(base, Bits):
                    if not -len(base) <= i < len(base):
                        raise AnalysisError(f"gf2: index {i} out of range in {unparse(e)}")
                    return Bits([base.bits[i]])
                if isinstance(i, int) and isinstance(base, list):
                    return base[i]
            raise AnalysisError(f"gf2: unsupported subscript {unparse(e)}")
        if isinstance(e, ast.Call):
            fn = dotted(e.func)
            star = [a for a in e.args if isinstance(a, ast.Starred)]
            args = []
            for a in e.args:
                if isinstance(a, ast.Starred):
                    v = self.ev(a.value, env)
                    if not isinstance(v, list):
                        raise AnalysisError(f"gf2: cannot splat {unparse(a)}")
                    args.extend(v)
                else:
                    args.append(self.ev(a, env))
            kw = {k.arg: self.ev(k.value, env) for k in e.keywords}
            if fn in ("accumulate", "itertools.accumulate") and len(args) == 2 and isinstance(args[0], (list, range)):
                f2 = args[1]
                if not (isinstance(f2, tuple) and f2 and f2[0] == "binop"):
                    raise AnalysisError(f"gf2: accumulate() with a function that is not an operator: {unparse(e)}")
                out = []
                items = list(args[0])
                if "initial" in kw:
                    acc = kw["initial"]
                    out.append(acc)
                else:
                    if not items:
                        return []
                    acc = items.pop(0)
                    out.append(acc)
                for x in items:
                    acc = self.binop(f2[1], acc, x, e)
                    out.append(acc)
                return out
            if fn in ("reduce", "functools.reduce") and len(args) in (2, 3) and isinstance(args[1], (list, range)):
                f2 = args[0]
                if not (isinstance(f2, tuple) and f2 and f2[0] == "binop"):
                    raise AnalysisError(f"gf2: reduce() with a function that is not an operator: {unparse(e)}")
                items = list(args[1])
                if len(args) == 3:
                    acc = args[2]
                else:
                    if not items:
                        raise AnalysisError("gf2: reduce() of an empty sequence")
                    acc = items.pop(0)
                for x in items:
                    acc = self.binop(f2[1], acc, x, e)
                return acc
            if e.keywords:
                raise AnalysisError(f"gf2: keyword arguments in {unparse(e)}")
            if fn == "len" and len(args) == 1 and isinstance(args[0], (Bits, list, range)):
                return len(args[0])
            # methods of plain integers (widths and positions are concrete here)
            if isinstance(e.func, ast.Attribute) and e.func.attr == "bit_length" and not args:
                recv = self.ev(e.func.value, env)
                if isinstance(recv, int):
                    return recv.bit_length()
            if fn == "range" and all(isinstance(a, int) for a in args):
                return range(*args)
            if fn == "reversed" and isinstance(args[0], (list, range)):
                return list(reversed(args[0]))
            if fn == "reversed" and isinstance(args[0], Bits):
                return [Bits([b]) for b in reversed(args[0].bits)]
            if fn == "list" and isinstance(args[0], (list, range)):
                return list(args[0])
            if fn == "Const" and all(isinstance(a, int) for a in args) and 1 <= len(args) <= 2:
                return Bits.const(args[0], args[1] if len(args) == 2 else args[0].bit_length())
            if fn == "Cat":
                if len(args) == 1 and isinstance(args[0], list) and not star:
                    args = args[0]
                out = []
                for a in args:
                    if isinstance(a, int) and a in (0, 1):
                        a = Bits.const(a, 1)
                    if not isinstance(a, Bits):
                        raise AnalysisError(f"gf2: Cat() of a non-value in {unparse(e)}")
                    out.extend(a.bits)
                return Bits(out)
            if fn == "ceil_log2" and isinstance(args[0], int):
                return _ceil_log2(args[0])
            if fn in ("max", "min") and all(isinstance(a, int) for a in args):
                return (max if fn == "max" else min)(args)
            if fn in self.functions:
                return self.call(self.functions[fn], args)
            raise AnalysisError(f"gf2: unknown call {unparse(e)}")
        if isinstance(e, (ast.GeneratorExp, ast.ListComp)) and len(e.generators) == 1 and not e.generators[0].ifs:
            g = e.generators[0]
            it = self.ev(g.iter, env)
            if not isinstance(it, (list, range)) or not isinstance(g.target, ast.Name):
                raise AnalysisError(f"gf2: unsupported comprehension {unparse(e)}")
            out = []
            for x in it:
                env2 = dict(env)
                env2[g.target.id] = x
                out.append(self.ev(e.elt, env2))
            return out
        raise AnalysisError(f"gf2: unsupported expression {unparse(e)}")
