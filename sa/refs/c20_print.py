"""Reference semantics of Print and Property construction (hdl/_ast.py)."""

#: amaranth/hdl/_ast.py::Print.__init__
#: fact: the arguments in order, each formatted with {}, separated by `sep` between every two arguments (also after an argument that renders empty), followed by `end`
#: why: Print must behave like the built-in print: n arguments give n-1 separators
def _(self, *args, sep=' ', end='\n', src_loc_at=0):
    self._MustUse__silence = True
    super().__init__(src_loc_at=src_loc_at)
    if not isinstance(sep, str):
        raise TypeError()
    if not isinstance(end, str):
        raise TypeError()
    chunks = []
    first = True
    for arg in args:
        if not first and sep != '':
            chunks.append(sep)
        first = False
        chunks += Format('{}', arg)._chunks
    if end != '':
        chunks.append(end)
    self._message = Format._from_chunks(chunks)
    del self._MustUse__silence

#: amaranth/hdl/_ast.py::Property.__init__
#: fact: kind, test cast to a value, message (a string becomes a literal chunk; otherwise a format)
#: why: an assertion keeps its kind, its condition and its message
def _(self, kind, test, message=None, *, src_loc_at=0):
    self._MustUse__silence = True
    super().__init__(src_loc_at=src_loc_at)
    self._kind = self.Kind(kind)
    self._test = Value.cast(test)
    if isinstance(message, str):
        message = Format._from_chunks([message])
    if message is not None:
        if not isinstance(message, _FormatLike):
            raise TypeError()
        message = message._as_format()
    self._message = message
    del self._MustUse__silence

