"""Reference semantics of the default value / statement transformation (hdl/_xfrm.py): the identity on meaning."""

#: amaranth/hdl/_xfrm.py::ValueTransformer.on_Operator
#: fact: rebuilds the node of the same class from its transformed children; every other field is kept
#: why: every design passes through a ValueTransformer (DomainLowerer) in Fragment.prepare(): the default transformation must not change what the expression means (its class, operands in order, bounds, width, stride, patterns)
def _(self, value):
    return Operator(value.operator, [self.on_value(o) for o in value.operands])

#: amaranth/hdl/_xfrm.py::ValueTransformer.on_Slice
#: fact: rebuilds the node of the same class from its transformed children; every other field is kept
#: why: every design passes through a ValueTransformer (DomainLowerer) in Fragment.prepare(): the default transformation must not change what the expression means (its class, operands in order, bounds, width, stride, patterns)
def _(self, value):
    return Slice(self.on_value(value.value), value.start, value.stop)

#: amaranth/hdl/_xfrm.py::ValueTransformer.on_Part
#: fact: rebuilds the node of the same class from its transformed children; every other field is kept
#: why: every design passes through a ValueTransformer (DomainLowerer) in Fragment.prepare(): the default transformation must not change what the expression means (its class, operands in order, bounds, width, stride, patterns)
def _(self, value):
    return Part(self.on_value(value.value), self.on_value(value.offset), value.width, value.stride)

#: amaranth/hdl/_xfrm.py::ValueTransformer.on_Concat
#: fact: rebuilds the node of the same class from its transformed children; every other field is kept
#: why: every design passes through a ValueTransformer (DomainLowerer) in Fragment.prepare(): the default transformation must not change what the expression means (its class, operands in order, bounds, width, stride, patterns)
def _(self, value):
    return Concat((self.on_value(o) for o in value.parts))

#: amaranth/hdl/_xfrm.py::ValueTransformer.on_SwitchValue
#: fact: rebuilds the node of the same class from its transformed children; every other field is kept
#: why: every design passes through a ValueTransformer (DomainLowerer) in Fragment.prepare(): the default transformation must not change what the expression means (its class, operands in order, bounds, width, stride, patterns)
def _(self, value):
    return SwitchValue(self.on_value(value.test), [(patterns, self.on_value(val)) for patterns, val in value.cases])

#: amaranth/hdl/_xfrm.py::ValueTransformer.on_Const
#: fact: leaves are returned as they are
#: why: the default transformation must not change leaves
def _(self, value):
    return value

#: amaranth/hdl/_xfrm.py::ValueTransformer.on_Signal
#: fact: leaves are returned as they are
#: why: the default transformation must not change leaves
def _(self, value):
    return value

#: amaranth/hdl/_xfrm.py::ValueTransformer.on_ClockSignal
#: fact: leaves are returned as they are
#: why: the default transformation must not change leaves
def _(self, value):
    return value

#: amaranth/hdl/_xfrm.py::ValueTransformer.on_ResetSignal
#: fact: leaves are returned as they are
#: why: the default transformation must not change leaves
def _(self, value):
    return value

#: amaranth/hdl/_xfrm.py::ValueTransformer.on_AnyValue
#: fact: leaves are returned as they are
#: why: the default transformation must not change leaves
def _(self, value):
    return value

#: amaranth/hdl/_xfrm.py::ValueTransformer.on_Initial
#: fact: leaves are returned as they are
#: why: the default transformation must not change leaves
def _(self, value):
    return value

#: amaranth/hdl/_xfrm.py::ValueVisitor.on_value
#: fact: dispatch on the exact class of the value to the handler of that class; the source location is carried over
#: why: each class of value must reach its own handler
def _(self, value):
    if type(value) is Const:
        new_value = self.on_Const(value)
    elif type(value) is Signal:
        new_value = self.on_Signal(value)
    elif type(value) is ClockSignal:
        new_value = self.on_ClockSignal(value)
    elif type(value) is ResetSignal:
        new_value = self.on_ResetSignal(value)
    elif type(value) is AnyValue:
        new_value = self.on_AnyValue(value)
    elif type(value) is Operator:
        new_value = self.on_Operator(value)
    elif type(value) is Slice:
        new_value = self.on_Slice(value)
    elif type(value) is Part:
        new_value = self.on_Part(value)
    elif type(value) is Concat:
        new_value = self.on_Concat(value)
    elif type(value) is SwitchValue:
        new_value = self.on_SwitchValue(value)
    elif type(value) is Initial:
        new_value = self.on_Initial(value)
    else:
        new_value = self.on_unknown_value(value)
    if isinstance(new_value, Value) and self.replace_value_src_loc(value, new_value):
        new_value.src_loc = value.src_loc
    return new_value

#: amaranth/hdl/_xfrm.py::StatementTransformer.on_Assign
#: fact: Assign(transformed lhs, transformed rhs)
#: why: an assignment must stay an assignment of the same target and value
def _(self, stmt):
    return Assign(self.on_value(stmt.lhs), self.on_value(stmt.rhs))

#: amaranth/hdl/_xfrm.py::StatementTransformer.on_Switch
#: fact: the same cases (patterns, transformed body, location) in the same order on the transformed test
#: why: case order is priority; patterns must be kept
def _(self, stmt):
    cases = [(k, self.on_statement(s), l) for k, s, l in stmt.cases]
    return Switch(self.on_value(stmt.test), cases)

#: amaranth/hdl/_xfrm.py::StatementTransformer.on_statements
#: fact: every statement transformed, in order
#: why: statement order is assignment priority
def _(self, stmts):
    return _StatementList(flatten((self.on_statement(stmt) for stmt in stmts)))

#: amaranth/hdl/_xfrm.py::StatementTransformer.on_Property
#: fact: same kind, transformed test and message
#: why: assertions must keep their kind and condition
def _(self, stmt):
    if stmt.message is None:
        message = None
    else:
        message = self.on_Format(stmt.message)
    return Property(stmt.kind, self.on_value(stmt.test), message)

#: amaranth/hdl/_xfrm.py::StatementTransformer.on_Print
#: fact: the transformed message, with no extra line end
#: why: prints must keep their text
def _(self, stmt):
    return Print(self.on_Format(stmt.message), end='')

#: amaranth/hdl/_xfrm.py::StatementVisitor.on_statement
#: fact: dispatch on the exact class of the statement; lists are transformed element-wise
#: why: each class of statement must reach its own handler
def _(self, stmt):
    if type(stmt) is Assign:
        new_stmt = self.on_Assign(stmt)
    elif type(stmt) is Print:
        new_stmt = self.on_Print(stmt)
    elif type(stmt) is Property:
        new_stmt = self.on_Property(stmt)
    elif type(stmt) is Switch:
        new_stmt = self.on_Switch(stmt)
    elif isinstance(stmt, Iterable):
        new_stmt = self.on_statements(stmt)
    else:
        new_stmt = self.on_unknown_statement(stmt)
    if isinstance(new_stmt, Statement) and self.replace_statement_src_loc(stmt, new_stmt):
        new_stmt.src_loc = stmt.src_loc
    if isinstance(new_stmt, (Print, Property)):
        new_stmt._MustUse__used = True
    return new_stmt

