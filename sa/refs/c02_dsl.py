"""Reference semantics of the control-flow builder (hdl/_dsl.py): how If/Elif/Else, Switch/Case/Default and FSM/State/next
collect statements and priorities.  Read against docs/guide.rst (control flow) — see rules/reflib.py for how these are used."""

#: amaranth/hdl/_dsl.py::Module._get_ctrl
#: fact: the innermost open control construct, if it is of the asked kind
#: why: Elif/Else/Case/State attach to the innermost open construct of their kind only
def _(self, name):
    if self._ctrl_stack:
        top_name, top_data = self._ctrl_stack[-1]
        if top_name == name:
            return top_data

#: amaranth/hdl/_dsl.py::Module._flush_ctrl
#: fact: constructs deeper than the current nesting depth are closed (popped) first
#: why: a finished If/Switch/FSM must be lowered, in order, before anything at a shallower depth is added: that order is the priority order of the assignments
def _(self):
    while len(self._ctrl_stack) > self.domain._depth:
        self._pop_ctrl()

#: amaranth/hdl/_dsl.py::Module._set_ctrl
#: fact: flushes, then pushes the new construct
#: why: opening a construct must first close finished deeper ones
def _(self, name, data):
    self._flush_ctrl()
    self._ctrl_stack.append((name, data))
    return data

#: amaranth/hdl/_dsl.py::Module.If
#: fact: opens a fresh If: the body's statements are collected separately and appended with the condition after the body ran; the statement scope and depth are restored
#: why: an If must start a new priority chain whose first test is its condition and whose body holds exactly the statements added inside
def _(self, cond):
    self._check_context('If', context=None)
    cond = self._check_signed_cond(cond)
    src_loc = tracer.get_src_loc(src_loc_at=1)
    if_data = self._set_ctrl('If', {'depth': self.domain._depth, 'tests': [], 'bodies': [], 'src_loc': src_loc, 'src_locs': []})
    try:
        _outer_case, self._statements = (self._statements, {})
        self.domain._depth += 1
        yield
        self._flush_ctrl()
        if_data['tests'].append(cond)
        if_data['bodies'].append(self._statements)
        if_data['src_locs'].append(src_loc)
    finally:
        self.domain._depth -= 1
        self._statements = _outer_case

#: amaranth/hdl/_dsl.py::Module.Elif
#: fact: appends (cond, body) to the innermost If of the same depth; refused without one
#: why: an Elif must extend the If at the same depth, after the tests already there (earlier branches keep priority)
def _(self, cond):
    self._check_context('Elif', context=None)
    cond = self._check_signed_cond(cond)
    src_loc = tracer.get_src_loc(src_loc_at=1)
    if_data = self._get_ctrl('If')
    if if_data is None or if_data['depth'] != self.domain._depth:
        raise SyntaxError()
    try:
        _outer_case, self._statements = (self._statements, {})
        self.domain._depth += 1
        yield
        self._flush_ctrl()
        if_data['tests'].append(cond)
        if_data['bodies'].append(self._statements)
        if_data['src_locs'].append(src_loc)
    finally:
        self.domain._depth -= 1
        self._statements = _outer_case

#: amaranth/hdl/_dsl.py::Module.Else
#: fact: appends a body without a test to the If of the same depth and closes it
#: why: an Else is the branch taken when no test holds, and ends the chain
def _(self):
    self._check_context('Else', context=None)
    src_loc = tracer.get_src_loc(src_loc_at=1)
    if_data = self._get_ctrl('If')
    if if_data is None or if_data['depth'] != self.domain._depth:
        raise SyntaxError()
    try:
        _outer_case, self._statements = (self._statements, {})
        self.domain._depth += 1
        yield
        self._flush_ctrl()
        if_data['bodies'].append(self._statements)
        if_data['src_locs'].append(src_loc)
    finally:
        self.domain._depth -= 1
        self._statements = _outer_case
    self._pop_ctrl()

#: amaranth/hdl/_dsl.py::Module.Switch
#: fact: opens a Switch on Value.cast(test) with no cases and closes it after the body
#: why: the cases of a Switch are exactly those declared inside it, in order
def _(self, test):
    self._check_context('Switch', context=None)
    switch_data = self._set_ctrl('Switch', {'test': Value.cast(test), 'cases': [], 'src_loc': tracer.get_src_loc(src_loc_at=1), 'got_default': False})
    try:
        self._ctrl_context = 'Switch'
        self.domain._depth += 1
        yield
    finally:
        self.domain._depth -= 1
        self._ctrl_context = None
    self._pop_ctrl()

#: amaranth/hdl/_dsl.py::Module.Case
#: fact: appends (normalised patterns, body) to the open Switch after the body ran
#: why: cases keep declaration order, which is their priority
def _(self, *patterns):
    self._check_context('Case', context='Switch')
    src_loc = tracer.get_src_loc(src_loc_at=1)
    switch_data = self._get_ctrl('Switch')
    if switch_data['got_default']:
        pass
    new_patterns = _normalize_patterns(patterns, switch_data['test'].shape())
    try:
        _outer_case, self._statements = (self._statements, {})
        self._ctrl_context = None
        yield
        self._flush_ctrl()
        switch_data['cases'].append((new_patterns, self._statements, src_loc))
    finally:
        self._ctrl_context = 'Switch'
        self._statements = _outer_case

#: amaranth/hdl/_dsl.py::Module.Default
#: fact: appends (None, body) and marks the default as seen
#: why: the default case matches everything not matched before it
def _(self):
    self._check_context('Default', context='Switch')
    src_loc = tracer.get_src_loc(src_loc_at=1)
    switch_data = self._get_ctrl('Switch')
    if switch_data['got_default']:
        pass
    try:
        _outer_case, self._statements = (self._statements, {})
        self._ctrl_context = None
        yield
        self._flush_ctrl()
        switch_data['cases'].append((None, self._statements, src_loc))
        switch_data['got_default'] = True
    finally:
        self._ctrl_context = 'Switch'
        self._statements = _outer_case

#: amaranth/hdl/_dsl.py::Module.FSM
#: fact: opens an FSM with empty encoding/state tables in the given domain; every referenced state must be defined
#: why: FSM states are encoded in first-mention order and lowered when the FSM closes
def _(self, init=None, domain='sync', name='fsm', *, reset=None):
    self._check_context('FSM', context=None)
    if domain == 'comb':
        raise ValueError()
    if reset is not None:
        if init is not None:
            raise ValueError()
        pass
        init = reset
    fsm_data = self._set_ctrl('FSM', {'name': name, 'init': init, 'domain': domain, 'encoding': OrderedDict(), 'decoding': OrderedDict(), 'ongoing': {}, 'states': OrderedDict(), 'src_loc': tracer.get_src_loc(src_loc_at=1), 'state_src_locs': {}})
    self._generated[name] = fsm = FSM(fsm_data)
    try:
        self._ctrl_context = 'FSM'
        self.domain._depth += 1
        yield fsm
        for state_name in fsm_data['encoding']:
            if state_name not in fsm_data['states']:
                raise NameError()
    finally:
        self.domain._depth -= 1
        self._ctrl_context = None
    self._pop_ctrl()
    fsm.state = fsm_data['signal']

#: amaranth/hdl/_dsl.py::Module.State
#: fact: a state is defined once, gets the next free encoding on first mention, and collects its own statements
#: why: state bodies must be kept per state; encodings are dense in first-mention order
def _(self, name):
    self._check_context('FSM State', context='FSM')
    src_loc = tracer.get_src_loc(src_loc_at=1)
    fsm_data = self._get_ctrl('FSM')
    if name in fsm_data['states']:
        raise NameError()
    if name not in fsm_data['encoding']:
        fsm_name = fsm_data['name']
        fsm_data['encoding'][name] = len(fsm_data['encoding'])
        fsm_data['ongoing'][name] = Signal(name='')
    try:
        _outer_case, self._statements = (self._statements, {})
        self._ctrl_context = None
        yield
        self._flush_ctrl()
        fsm_data['states'][name] = self._statements
        fsm_data['state_src_locs'][name] = src_loc
    finally:
        self._ctrl_context = 'FSM'
        self._statements = _outer_case

#: amaranth/hdl/_dsl.py::Module.next@setter
#: fact: m.next inside a state adds an FSMNextStatement in the FSM's domain for the innermost enclosing FSM, allocating an encoding on first mention
#: why: a transition must target the innermost FSM and be registered in that FSM's clock domain
def _(self, name):
    if self._ctrl_context != 'FSM':
        for level, (ctrl_name, ctrl_data) in enumerate(reversed(self._ctrl_stack)):
            if ctrl_name == 'FSM':
                if name not in ctrl_data['encoding']:
                    fsm_name = ctrl_data['name']
                    ctrl_data['encoding'][name] = len(ctrl_data['encoding'])
                    ctrl_data['ongoing'][name] = Signal(name='')
                self._add_statement(assigns=[FSMNextStatement(ctrl_data, name)], domain=ctrl_data['domain'], depth=len(self._ctrl_stack))
                return
    raise SyntaxError()

#: amaranth/hdl/_dsl.py::Module._add_statement
#: fact: finished deeper constructs are closed first; the statement is appended, in order, to the current scope's list for its domain; a bit driven from two domains is refused
#: why: statements must be appended in program order after closing finished constructs: later statements take priority
def _(self, assigns, domain, depth):
    if self._frozen:
        raise AlreadyElaborated()
    while len(self._ctrl_stack) > self.domain._depth:
        self._pop_ctrl()
    for stmt in Statement.cast(assigns):
        if not isinstance(stmt, (Assign, Property, Print, _LateBoundStatement)):
            raise SyntaxError()
        stmt._MustUse__used = True
        _check_stmt(stmt)
        lhs_masks = LHSMaskCollector()
        if not isinstance(stmt, _LateBoundStatement):
            lhs_masks.visit_stmt(stmt)
        for sig, mask in lhs_masks.masks():
            if sig not in self._driving:
                self._driving[sig] = [None] * len(sig)
            sig_domain = self._driving[sig]
            for bit in range(len(sig)):
                if not mask & 1 << bit:
                    continue
                if sig_domain[bit] is None:
                    sig_domain[bit] = domain
                if sig_domain[bit] != domain:
                    raise SyntaxError()
        self._statements.setdefault(domain, []).append(stmt)

#: amaranth/hdl/_dsl.py::Module._flush
#: fact: all open constructs are closed
#: why: elaboration must lower every open construct
def _(self):
    while self._ctrl_stack:
        self._pop_ctrl()

#: amaranth/hdl/_dsl.py::Module.elaborate
#: fact: flushes, freezes, adds named then anonymous submodules, the statements per domain in order, the top-level comb statements, and the domains
#: why: the fragment must contain every statement of every domain in program order
def _(self, platform):
    self._flush()
    self._frozen = True
    fragment = Fragment(src_loc=self._src_loc)
    for name, (submodule, src_loc) in self._named_submodules.items():
        fragment.add_subfragment(Fragment.get(submodule, platform), name, src_loc=src_loc)
    for submodule, src_loc in self._anon_submodules:
        fragment.add_subfragment(Fragment.get(submodule, platform), None, src_loc=src_loc)
    for domain, statements in self._statements.items():
        statements = resolve_statements(statements)
        fragment.add_statements(domain, statements)
    fragment.add_statements('comb', self._top_comb_statements)
    fragment.add_domains(self._domains.values())
    fragment.generated.update(self._generated)
    return fragment

