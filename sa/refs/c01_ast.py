"""Reference semantics of casts and pattern normalisation (hdl/_ast.py) and of FSM.ongoing (hdl/_dsl.py)."""

#: amaranth/hdl/_ast.py::_normalize_patterns
#: fact: string patterns: only 0/1/-/whitespace, whitespace removed, exactly the width of the value; other patterns: constant-castable, kept as their integer value, and dropped (with a warning) when they are not representable in the value's shape
#: why: an integer pattern that does not fit the shape can never match: it must be dropped, not wrapped into range
def _(patterns, shape, *, src_loc_at=1):
    new_patterns = []
    for pattern in patterns:
        orig_pattern = pattern
        if isinstance(pattern, str):
            if any((bit not in '01- \t' for bit in pattern)):
                raise SyntaxError()
            pattern = ''.join(pattern.split())
            if len(pattern) != shape.width:
                raise SyntaxError()
        else:
            try:
                pattern = Const.cast(pattern)
            except TypeError as e:
                raise SyntaxError()
            cast_pattern = Const(pattern.value, shape)
            if cast_pattern.value != pattern.value:
                pass
                continue
            pattern = pattern.value
        new_patterns.append(pattern)
    return tuple(new_patterns)

#: amaranth/hdl/_ast.py::Value.cast
#: fact: values as they are; value-castables through as_value() until a value results; enum members as constants of the enum's shape; integers as constants
#: why: casting must not change the value or shape an object denotes
def _(obj):
    while True:
        if isinstance(obj, Value):
            return obj
        elif isinstance(obj, ValueCastable):
            new_obj = obj.as_value()
        elif isinstance(obj, Enum):
            return Const(obj.value, Shape.cast(type(obj)))
        elif isinstance(obj, int):
            return Const(obj)
        else:
            raise TypeError()
        if new_obj is obj:
            raise RecursionError()
        obj = new_obj

#: amaranth/hdl/_ast.py::Const.cast
#: fact: constants as they are; a concatenation of constants as the parts' bit patterns placed at increasing offsets; a slice of a constant as the shifted value in unsigned(stop-start)
#: why: constant-casting must equal evaluating the expression
def _(obj):
    obj = Value.cast(obj)
    if type(obj) is Const:
        return obj
    elif type(obj) is Concat:
        value = 0
        width = 0
        for part in obj.parts:
            const = Const.cast(part)
            part_value = Const(const.value, unsigned(len(const))).value
            value |= part_value << width
            width += len(const)
        return Const(value, width)
    elif type(obj) is Slice:
        value = Const.cast(obj.value)
        return Const(value.value >> obj.start, unsigned(obj.stop - obj.start))
    else:
        raise TypeError()

#: amaranth/hdl/_dsl.py::FSM.ongoing
#: fact: a state mentioned first by ongoing() gets the next free encoding (the number of encodings so far)
#: why: encodings must be distinct: two states sharing one make the second unreachable
def _(self, name):
    if name not in self.encoding:
        self.encoding[name] = len(self.encoding)
        fsm_name = self._data['name']
        self._data['ongoing'][name] = Signal(name='')
    return self._data['ongoing'][name]

