"""Reference semantics of net-flow and I/O direction computation (hdl/_ir.py, hdl/_nir.py): which ports a module gets."""

#: amaranth/hdl/_ir.py::_compute_net_flows.use_net
#: fact: a use of a net routes it from its defining module to the using module: Output on the way up from the definition, Input on the way up from the use — stopping at the first module that already has the net — and Internal at the meeting point
#: why: a module's existing flow for a net must never be overwritten with Input: a net already routed out of a module would lose its port and the back end cannot name it
def _(net, use_module):
    if net.is_const:
        return
    if net in netlist.modules[use_module].net_flow:
        return
    modules = netlist.modules
    def_module = lca[net]
    while len(modules[def_module].name) > len(modules[use_module].name):
        modules[def_module].net_flow[net] = _nir.ModuleNetFlow.Output
        def_module = modules[def_module].parent
    while len(modules[def_module].name) < len(modules[use_module].name):
        if net in modules[use_module].net_flow:
            return
        modules[use_module].net_flow[net] = _nir.ModuleNetFlow.Input
        use_module = modules[use_module].parent
    assert len(modules[def_module].name) == len(modules[use_module].name)
    while def_module != use_module:
        modules[def_module].net_flow[net] = _nir.ModuleNetFlow.Output
        def_module = modules[def_module].parent
        modules[use_module].net_flow[net] = _nir.ModuleNetFlow.Input
        use_module = modules[use_module].parent
        assert len(modules[def_module].name) == len(modules[use_module].name)
    modules[def_module].net_flow[net] = _nir.ModuleNetFlow.Internal
    lca[net] = def_module

#: amaranth/hdl/_ir.py::_compute_ionet_dirs
#: fact: the direction of every I/O net used by a cell is recorded in the cell's module and in all of its ancestors (each I/O bit has one user, R-06c)
#: why: an I/O port must be declared, with the direction of its user, in every module between the top level and the cell that uses it
def _(netlist):
    for cell in netlist.cells:
        for net, dir in cell.io_nets():
            module_idx = cell.module_idx
            while module_idx is not None:
                netlist.modules[module_idx].ionet_dir[net] = dir
                module_idx = netlist.modules[module_idx].parent

#: amaranth/hdl/_nir.py::IOBuffer.io_nets
#: fact: every bit of the buffer's port with the buffer's own direction
#: why: the direction a port is declared with must be the direction of the buffer cell that is emitted for it
def _(self):
    return {(net, self.dir) for net in self.port}

#: amaranth/hdl/_nir.py::Instance.io_nets
#: fact: every bit of every I/O port of the instance with that port's direction
#: why: instance I/O ports keep their declared direction
def _(self):
    nets = set()
    for val, dir in self.ports_io.values():
        nets |= {(net, dir) for net in val}
    return nets

#: amaranth/hdl/_nir.py::IODirection.__or__
#: fact: equal directions stay; different directions give Bidir
#: why: a port used as input and output is bidirectional
def _(self, other):
    assert isinstance(other, IODirection)
    if self == other:
        return self
    else:
        return IODirection.Bidir

