"""Reference semantics of the simulator front end (sim/core.py, sim/_async.py): how testbenches, processes and waits are
registered with the engine.  Read against docs/simulator.rst."""

#: amaranth/sim/core.py::Simulator.add_testbench
#: fact: a testbench is registered with the engine as a testbench (legacy generators through coro_wrapper(testbench=True)); refused while running
#: why: testbenches must be registered as testbenches: they run after the design settles, in registration order
def _(self, constructor, *, background=False):
    if self._running:
        raise RuntimeError()
    constructor = self._check_function(constructor, kind='testbench')
    if inspect.iscoroutinefunction(constructor):
        self._engine.add_async_testbench(self, constructor, background=background)
    else:
        pass
        constructor = coro_wrapper(constructor, testbench=True)
        self._engine.add_async_testbench(self, constructor, background=background)

#: amaranth/sim/core.py::Simulator.add_process
#: fact: a process is registered with the engine as a process; a legacy generator is wrapped so that it is active, settles once, then runs
#: why: processes must be registered as processes (run with the design, not with the testbenches)
def _(self, process):
    if self._running:
        raise RuntimeError()
    process = self._check_function(process, kind='process')
    if inspect.iscoroutinefunction(process):
        self._engine.add_async_process(self, process)
    else:

        def wrapper():
            yield Active()
            yield object.__new__(Settle)
            yield from process()
        pass
        wrap_process = coro_wrapper(wrapper, testbench=False)
        self._engine.add_async_process(self, wrap_process)

#: amaranth/sim/core.py::Simulator.run
#: fact: advances until no critical process or testbench remains
#: why: run() must keep advancing while advance() reports critical activity
def _(self):
    while self.advance():
        pass

#: amaranth/sim/core.py::Simulator.run_until
#: fact: advances while the engine's time is before the deadline (in femtoseconds)
#: why: run_until must stop at the deadline, neither before nor an event after
def _(self, deadline, *, run_passive=None):
    if run_passive is not None:
        pass
    if not isinstance(deadline, Period):
        pass
        deadline = Period(s=deadline)
    assert self._engine.now <= deadline.femtoseconds
    while self._engine.now < deadline.femtoseconds:
        self.advance()

#: amaranth/sim/core.py::Simulator.advance
#: fact: marks the simulator running and advances the engine once
#: why: advance must delegate to the engine exactly once
def _(self):
    self._running = True
    with self._replace_asyncgen_hooks():
        return self._engine.advance()

#: amaranth/sim/core.py::Simulator.reset
#: fact: resets the engine and clears the running flag
#: why: reset must return the simulation to its initial state
def _(self):
    self._engine.reset()
    self._running = False

#: amaranth/sim/_async.py::TickTrigger.until
#: fact: repeats the tick, sampling the condition last, until it is non-zero; raises DomainReset on reset; returns the samples without the condition
#: why: until() must return the values sampled at the tick where the condition held
async def _(self, condition):
    if not isinstance(condition, ValueLike):
        raise TypeError()
    if isinstance(condition, ValueCastable):
        shape = condition.shape()
        if not isinstance(shape, Shape):
            raise TypeError()
    tick = self.sample(condition).__aiter__()
    done = False
    while not done:
        clk, rst, *values, done = await tick.__anext__()
        if rst:
            raise DomainReset
    return tuple(values)

#: amaranth/sim/_async.py::TickTrigger.__aiter__
#: fact: one multi-shot trigger for the whole loop; yields (clk_edge, rst_active, *samples) for every activation
#: why: iterating a tick must use one persistent trigger so that a missed tick is detected
async def _(self):
    trigger = self._engine.add_trigger_combination(self._collect_trigger(), oneshot=False)
    while True:
        clk_edge, rst_edge, rst_sample, *values = await trigger
        yield (clk_edge, bool(rst_edge or rst_sample), *values)

#: amaranth/sim/_async.py::SimulatorContext.tick
#: fact: the domain is the ClockDomain given, or looked up by name in the context / toplevel; comb is refused
#: why: tick(name) must resolve the domain in the elaboratable given as context
def _(self, domain='sync', *, context=None):
    if domain == 'comb':
        raise ValueError()
    if isinstance(domain, ClockDomain):
        if context is not None:
            raise ValueError()
    else:
        try:
            domain = self._design.lookup_domain(domain, context)
        except KeyError:
            raise NameError()
    return TickTrigger(self._engine, self._process, domain=domain)

#: amaranth/sim/_async.py::DelayTrigger.__init__
#: fact: the interval is a Period (numbers are seconds); negative delays are refused
#: why: a delay must be stored as the period given
def _(self, interval):
    if not isinstance(interval, Period):
        pass
        interval = Period(s=interval)
    if interval < Period():
        raise ValueError()
    self.interval = interval

#: amaranth/sim/_async.py::SimulatorContext.delay
#: fact: a trigger combination of this process with a delay
#: why: delay() must build a delay trigger for the calling process
def _(self, interval):
    return TriggerCombination(self._engine, self._process).delay(interval)

#: amaranth/sim/_async.py::SimulatorContext.changed
#: fact: a trigger combination of this process watching the signals for changes
#: why: changed() must watch exactly the signals given
def _(self, *signals):
    return TriggerCombination(self._engine, self._process).changed(*signals)

#: amaranth/sim/_async.py::SimulatorContext.edge
#: fact: a trigger combination of this process waiting for the given edge
#: why: edge() must pass signal and polarity unchanged
def _(self, signal, polarity):
    return TriggerCombination(self._engine, self._process).edge(signal, polarity)

