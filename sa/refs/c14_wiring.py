"""Reference semantics of flipping and interface creation (lib/wiring.py).  Read against docs/stdlib/wiring.rst."""

#: amaranth/lib/wiring.py::Flow.flip
#: fact: Out <-> In
#: why: flipping must reverse the direction
def _(self):
    if self == Out:
        return In
    if self == In:
        return Out
    assert False

#: amaranth/lib/wiring.py::Member.flip
#: fact: the same description, init and dimensions with the flow reversed
#: why: flipping a member must change nothing but its direction
def _(self):
    return Member(self._flow.flip(), self._description, init=self._init, _dimensions=self._dimensions)

#: amaranth/lib/wiring.py::Member.array
#: fact: new dimensions are put in front of the existing ones; each is a non-negative integer
#: why: In(x).array(2).array(3) is 3 arrays of 2
def _(self, *dimensions):
    for dimension in dimensions:
        if not (isinstance(dimension, int) and dimension >= 0):
            raise TypeError()
    return Member(self._flow, self._description, init=self._init, _dimensions=(*dimensions, *self._dimensions))

#: amaranth/lib/wiring.py::SignatureMembers.create
#: fact: for every member: one value per index along its dimensions (outermost first), a Signal(shape, init) for ports, signature.create() for nested signatures; paths name.index...
#: why: an interface created from a signature must have, for every member, exactly the nesting of lists its dimensions declare
def _(self, *, path=None, src_loc_at=0):
    if path is None:
        path = (tracer.get_var_name(depth=2 + src_loc_at, default='$signature'),)
    attrs = {}
    for name, member in self.items():

        def create_value(path, *, src_loc_at):
            if member.is_port:
                signal = Signal(member.shape, init=member.init, src_loc_at=1 + src_loc_at, name='__'.join((str(item) for item in path)))
                signal.src_loc = member.src_loc
                return signal
            if member.is_signature:
                return member.signature.create(path=path, src_loc_at=1 + src_loc_at)
            assert False

        def create_dimensions(dimensions, *, path, src_loc_at):
            if not dimensions:
                return create_value(path, src_loc_at=1 + src_loc_at)
            dimension, *rest_of_dimensions = dimensions
            return [create_dimensions(rest_of_dimensions, path=(*path, index), src_loc_at=1 + src_loc_at) for index in range(dimension)]
        attrs[name] = create_dimensions(member.dimensions, path=(*path, name), src_loc_at=1 + src_loc_at)
    return attrs

#: amaranth/lib/wiring.py::SignatureMembers.flatten
#: fact: every member once, nested signature members followed by their own members (paths without indices)
#: why: every member must be visited once
def _(self, *, path=()):
    for name, member in self.items():
        yield ((*path, name), member)
        if member.is_signature:
            yield from member.signature.members.flatten(path=(*path, name))

#: amaranth/lib/wiring.py::FlippedSignatureMembers.__getitem__
#: fact: the unflipped member, flipped
#: why: a flipped signature's members have the reversed flow
def _(self, name):
    return self.__unflipped.__getitem__(name).flip()

#: amaranth/lib/wiring.py::FlippedSignatureMembers.flip
#: fact: the unflipped collection
#: why: flipping twice gives back the original
def _(self):
    return self.__unflipped

#: amaranth/lib/wiring.py::Signature.flatten
#: fact: every leaf port once, along the dimensions of each member and through nested signatures, with paths name/index/...
#: why: flattening must visit every leaf exactly once
def _(self, obj):
    for name, member in self.members.items():
        path = (name,)
        value = getattr(obj, name)

        def iter_member(value, *, path):
            if member.is_port:
                yield (path, Member(member.flow, member.shape, init=member.init), value)
            elif member.is_signature:
                for sub_path, sub_member, sub_value in member.signature.flatten(value):
                    yield ((*path, *sub_path), sub_member, sub_value)
            else:
                assert False

        def iter_dimensions(value, dimensions, *, path):
            if not dimensions:
                yield from iter_member(value, path=path)
            else:
                dimension, *rest_of_dimensions = dimensions
                for index in range(dimension):
                    yield from iter_dimensions(value[index], rest_of_dimensions, path=(*path, index))
        yield from iter_dimensions(value, dimensions=member.dimensions, path=path)

#: amaranth/lib/wiring.py::FlippedSignature.flip
#: fact: the unflipped signature itself
#: why: flipping twice gives back the original object
def _(self):
    return self.__unflipped

#: amaranth/lib/wiring.py::FlippedSignature.members
#: fact: the unflipped members, flipped
#: why: a flipped signature's members are the flipped members
def _(self):
    return FlippedSignatureMembers(self.__unflipped.members)

#: amaranth/lib/wiring.py::FlippedInterface.signature
#: fact: the unflipped interface's signature, flipped
#: why: a flipped interface has the flipped signature
def _(self):
    return self.__unflipped.signature.flip()

#: amaranth/lib/wiring.py::FlippedInterface.__getattr__
#: fact: a nested-signature member is handed out flipped (this test comes first); anything else through the class descriptor bound to the flipped object, else the plain attribute
#: why: members that are interfaces must always come back flipped, also when the class exposes them through a property
def _(self, name):
    if name in self.__unflipped.signature.members and self.__unflipped.signature.members[name].is_signature:
        return _flipped_array(getattr(self.__unflipped, name), self.__unflipped.signature.members[name].dimensions)
    else:
        try:
            return _gettypeattr(self.__unflipped, name).__get__(self, type(self.__unflipped))
        except AttributeError:
            return getattr(self.__unflipped, name)

#: amaranth/lib/wiring.py::FlippedInterface.__setattr__
#: fact: a nested-signature member is stored flipped back; anything else through the descriptor, else the plain attribute
#: why: assigning through the proxy must store the unflipped orientation
def _(self, name, value):
    if name in self.__unflipped.signature.members and self.__unflipped.signature.members[name].is_signature:
        setattr(self.__unflipped, name, _flipped_array(value, self.__unflipped.signature.members[name].dimensions))
    else:
        try:
            _gettypeattr(self.__unflipped, name).__set__(self, value)
        except AttributeError:
            setattr(self.__unflipped, name, value)

#: amaranth/lib/wiring.py::PureInterface.__init__
#: fact: the signature and one attribute per member created by signature.members.create()
#: why: a pure interface holds exactly the members its signature declares
def _(self, signature, *, path=None, src_loc_at=0):
    self.__dict__.update({'signature': signature, **signature.members.create(path=path, src_loc_at=1 + src_loc_at)})

