"""Reference semantics of the resource description classes (build/dsl.py)."""

#: amaranth/build/dsl.py::Clock.__init__
#: fact: exactly one of period / frequency; a frequency is Period(Hz=frequency); a bare number given as `period` is, for compatibility, a FREQUENCY in Hz
#: why: Clock(100e6) has always meant 100 MHz: the constraint written to the toolchain files must be that frequency
def _(self, period=None, frequency=None):
    if (period is None) == (frequency is None):
        raise TypeError()
    if frequency is not None:
        pass
        period = Period(Hz=frequency)
    if not isinstance(period, Period):
        pass
        period = Period(Hz=period)
    self._period = period

#: amaranth/build/dsl.py::Clock.period
#: fact: the stored period
#: why: the constraint must be the declared period
def _(self):
    return self._period

#: amaranth/build/dsl.py::Pins.__init__
#: fact: names split on whitespace, prefixed with the connector when conn= is given; dir one of i/o/io/oe; invert as bool
#: why: pin names and directions must be recorded as declared
def _(self, names, *, dir='io', invert=False, conn=None, assert_width=None):
    if not isinstance(names, str):
        raise TypeError()
    names = names.split()
    if conn is not None:
        conn_name, conn_number = conn
        if not (isinstance(conn_name, str) and isinstance(conn_number, (int, str))):
            raise TypeError()
        names = [f'{conn_name}_{conn_number}:{name}' for name in names]
    if dir not in ('i', 'o', 'io', 'oe'):
        raise TypeError()
    if assert_width is not None and len(names) != assert_width:
        raise AssertionError()
    self.names = names
    self.dir = dir
    self.invert = bool(invert)

#: amaranth/build/dsl.py::DiffPairs.__init__
#: fact: p and n as Pins with the same dir/conn/width, of equal length
#: why: the two legs of a differential pair must have the same number of pins
def _(self, p, n, *, dir='io', invert=False, conn=None, assert_width=None):
    self.p = Pins(p, dir=dir, conn=conn, assert_width=assert_width)
    self.n = Pins(n, dir=dir, conn=conn, assert_width=assert_width)
    if len(self.p.names) != len(self.n.names):
        raise TypeError()
    self.dir = dir
    self.invert = bool(invert)

