"""C20 — Print, Assert and Format (structural necessary conditions)."""
import ast
from ..engine.core import AnalysisError, need
from ..engine.astutil import unparse, dotted, pmatch, const_int, const_str, dump, template_of, dispatch_leaves, select_leaf
from ..engine.cfg import CFG
from ..engine.symx import run_paths
from . import c03, pyrtl_common
from .interp import AST_PY, PYRTL, PYEVAL, IR, RTLIL, XFRM, handled

EXPLANATION = (
    "Static (ast-only) decision of structural necessary conditions of C20: (a) format application agreement between "
    "the simulator's code generator (_StatementCompiler.emit_format) and the testbench evaluator (eval_format): "
    "literals pass verbatim, each value is normalised in its own shape, a trailing `s` routes through "
    "value_to_string, and the remaining specifier is applied with the builtin format(value, spec) — never spliced into "
    "a str.format template (its fill character may be a brace); value_to_string unpacks bytes LSB-first and decodes "
    "them as UTF-8; rtlil.emit_print maps every type of the accepted grammar; (b) validation at construction — every "
    "path by which a (Value, spec) chunk enters Format._chunks passes through _parse_format_spec(spec, shape), and the "
    "rejection table of the grammar is present as raises; (c) instants — asserts test the truth of the whole "
    "condition (`if not <value>`), covers print under `if <value>`, prints/properties are compiled inside the "
    "enclosing Switch nesting, the netlist cells take the enclosing condition as enable and the domain's clock and "
    "edge; EnableInserter gates every controlled domain that has statements (also Print/Assert-only domains); the "
    "domain process runs only at clock edges (shared R-03a). NOT decided: equality with str.format over the grammar."
)
ASSUMPTIONS = ["CPython ast parses /repo's source as the interpreter would"]
MIN_INSTANCES = {"R-20e": 2, "R-20d": 2, "R-20a": 8, "R-20b": 8, "R-20c": 8}


REF_BYTE_STEP = """
byte = value & 0xff
value >>= 8
if byte:
    msg.append(byte)
"""


def r20a(model, ctx):
    R = "R-20a"
    f = model.func(f"{PYRTL}::_StatementCompiler.emit_format")
    loops = [s for s in f.body if isinstance(s, ast.For) and unparse(s.iter) == "format._chunks"]
    need(len(loops) == 1, "emit_format: chunk loop not found")
    paths = run_paths(loops[0].body)
    lit = [p for p in paths if any(pol and unparse(c) == "isinstance(chunk, str)" for c, pol in p.conds)]
    val = [p for p in paths if p not in lit]
    need(len(lit) == 1 and len(val) == 2, f"emit_format: expected 1 literal and 2 value paths, found {len(lit)}/{len(val)}")
    def appended(p):
        return [n.args[0] for e in p.effects for n in ast.walk(e) if isinstance(n, ast.Call) and isinstance(n.func, ast.Attribute)
                and n.func.attr == "append" and n.args]
    a = appended(lit[0])
    t = template_of(a[0]) if a else None
    ok = t is not None and len(t.holes) == 1 and t.holes[0].src == "chunk" and t.holes[0].conv == ord("r") and t.text("") == ""
    ctx.check(ok, R, "emit_format:literal", "literal chunk emitted as its repr (verbatim text)",
              f"literal chunks must be emitted verbatim (repr of the chunk); found {unparse(a[0]) if a else '-'}", f"{PYRTL}:{f.lineno}")
    for p in val:
        is_s = any(pol and "endswith('s')" in unparse(c) for c, pol in p.conds)
        a = appended(p)
        t = template_of(a[0]) if a else None
        e = t.as_expr() if t is not None else None
        ok = e is not None and isinstance(e, ast.Call) and dotted(e.func) == "format" and len(e.args) == 2
        if ok:
            hv = t.hole_by_name(e.args[0].id) if isinstance(e.args[0], ast.Name) else None
            hs = t.hole_by_name(e.args[1].id) if isinstance(e.args[1], ast.Name) else None
            ok = hv is not None and hs is not None and hs.conv == ord("r")
            if ok:
                vexp = unparse(p.env.get("value")) if p.env.get("value") is not None else ""
                sexp = unparse(p.env.get("format_desc")) if p.env.get("format_desc") is not None else ""
                if is_s:
                    ok = "value_to_string(" in vexp and "self.rhs.sign(" in vexp and sexp.endswith("[:-1]")
                else:
                    ok = vexp.startswith("self.rhs.sign(") and "value_to_string" not in vexp
        ctx.check(ok, R, f"emit_format:value:{'s' if is_s else 'numeric'}",
                  "format(<value normalised in its own shape>, <spec repr>)" + (" through value_to_string, `s` stripped" if is_s else ""),
                  f"a value chunk must be emitted as format(self.rhs.sign(value), spec!r)" +
                  (" with value_to_string(...) and the trailing `s` removed" if is_s else "") +
                  f"; found {unparse(a[0]) if a else '-'}", f"{PYRTL}:{f.lineno}")
    # the specifier is never spliced into a str.format template
    bad = []
    for n in ast.walk(f):
        if isinstance(n, ast.JoinedStr):
            t = template_of(n)
            if t is not None and any(h.src == "format_desc" and h.conv != ord("r") for h in t.holes):
                bad.append(t.skeleton())
    ctx.check(not bad, R, "emit_format:spec-not-spliced", "the specifier only appears as a repr'd argument of format()",
              f"the format specifier is spliced into generated text {bad}: a specifier whose fill character is `{{` or `}}` (accepted by "
              f"Format) breaks the str.format template at run time", f"{PYRTL}:{f.lineno}")
    ret = [s for s in f.body if isinstance(s, ast.Return)]
    t = template_of(ret[0].value) if ret else None
    ok = t is not None and t.skeleton() == "''.join([{0}])" and t.holes[0].src == "', '.join(gen_chunks)"
    ctx.check(ok, R, "emit_format:join", "pieces concatenated in chunk order", "the formatted pieces must be concatenated in chunk order",
              f"{PYRTL}:{f.lineno}")
    # evaluator sibling
    fe = model.func(f"{PYEVAL}::eval_format")
    loops = [s for s in fe.body if isinstance(s, ast.For) and unparse(s.iter) == "fmt._chunks"]
    need(len(loops) == 1, "eval_format: chunk loop not found")
    got = set()
    for p in run_paths(loops[0].body):
        for e in p.effects:
            for n in ast.walk(e):
                if isinstance(n, ast.Call) and unparse(n.func) == "chunks.append":
                    got.add((tuple((unparse(c), pol) for c, pol in p.conds), unparse(n.args[0])))
    want = {((("isinstance(chunk, str)", True),), "chunk"),
            ((("isinstance(chunk, str)", False), ("chunk[1].endswith('s')", True)), "format(value_to_string(eval_value(sim, chunk[0])), chunk[1][:-1])"),
            ((("isinstance(chunk, str)", False), ("chunk[1].endswith('s')", False)), "format(eval_value(sim, chunk[0]), chunk[1])")}
    ctx.check(got == want, R, "eval_format", "literal verbatim; format(value, spec); `s` through value_to_string",
              f"eval_format deviates: {sorted(got ^ want)}", f"{PYEVAL}:{fe.lineno}")
    from ..engine import refsem
    fv = model.func(f"{PYEVAL}::value_to_string")
    t = unparse(fv)
    wl = [w for w in fv.body if isinstance(w, ast.While) and unparse(w.test) in ("value", "value != 0", "value > 0")]
    need(len(wl) == 1, "value_to_string: the byte-unpacking loop was not found")
    # one iteration: the low byte is taken, the value moves down by 8 bits, non-zero bytes are appended (compared by summary:
    # `& 0xff ; >>= 8` and `divmod(value, 256)` are the same computation)
    okb = refsem.compare_block(ctx, R, "value_to_string:iteration", f"{PYEVAL}:{wl[0].lineno}", "value_to_string (one iteration)",
                               wl[0].body, [REF_BYTE_STEP], track=("value",),
                               fact="low byte first; value >>= 8; zero bytes dropped",
                               why="value_to_string must unpack bytes least-significant first and drop zero bytes.")
    ok = "return msg.decode()" in t and "msg = bytearray()" in t
    ctx.check(ok, R, "value_to_string", "bytes unpacked LSB-first, NULs dropped, decoded as UTF-8",
              "value_to_string must unpack bytes least-significant first into a bytearray, drop zero bytes and decode it as UTF-8 "
              "(bytes.decode()); joining chr(byte) per byte turns multi-byte characters into mojibake", f"{PYEVAL}:{fv.lineno}")
    ok = any(isinstance(k, ast.Constant) and k.value == "value_to_string" and unparse(v) == "value_to_string"
             for n in ast.walk(model.cls(f"{PYRTL}::_StatementCompiler")) if isinstance(n, ast.Dict) for k, v in zip(n.keys, n.values))
    ctx.check(ok, R, "_StatementCompiler.helpers", "the generated code uses the evaluator's value_to_string",
              "the code generator must use the same value_to_string as the evaluator", f"{PYRTL}:0")
    # RTLIL type map
    fp = model.func(f"{RTLIL}::ModuleEmitter.emit_print")
    maps = {}
    for s in ast.walk(fp):
        if isinstance(s, ast.If):
            m = pmatch("type == _V_K", s.test) or pmatch("type is None", s.test)
            if m is not None and s.body and isinstance(s.body[0], ast.Assign) and unparse(s.body[0].targets[0]) == "type":
                key = const_str(m.get("_V_K")) if "_V_K" in m else None
                maps[key] = const_str(s.body[0].value)
    want = {None: "d", "x": "h", "X": "H", "c": "U", "s": "c"}
    ctx.check(maps == want, R, "rtlil.emit_print:type-map", "None->d, x->h, X->H, c->U, s->c (b, o, d unchanged)",
              f"emit_print must map the accepted presentation types to RTLIL's: {want}; found {maps}", f"{RTLIL}:{fp.lineno}")
    t = unparse(fp)
    ok = "for bit in reversed(range(0, len(chunk.value), 8)):\n                        args += chunk.value[bit:bit + 8]" in t
    ctx.check(ok, R, "rtlil.emit_print:string-bytes", "`s` values are split into bytes, most significant first",
              "`s` values must be emitted byte by byte, most significant byte first", f"{RTLIL}:{fp.lineno}")


def _always_groups(model):
    """named groups of Format._FORMAT_SPEC_PATTERN that take part in every match (top-level, not optional): read off the parsed
    regular expression (re._parser), nothing is matched"""
    import re
    cls = model.cls(f"{AST_PY}::Format")
    pat = None
    for st in ast.walk(cls):
        if isinstance(st, ast.Assign) and unparse(st.targets[0]) == "_FORMAT_SPEC_PATTERN" and isinstance(st.value, ast.Call) and \
                st.value.args and isinstance(st.value.args[0], ast.Constant) and isinstance(st.value.args[0].value, str):
            pat = st.value.args[0].value
            flags = re.VERBOSE if "VERBOSE" in unparse(st.value) or "re.X" in unparse(st.value) else 0
    if pat is None:
        return set()
    try:
        parser = re._parser
    except AttributeError:      # pragma: no cover (older interpreters)
        import sre_parse as parser
    tree = parser.parse(pat, flags)
    names = {v: k for k, v in tree.state.groupdict.items()}
    out = set()
    for op, av in tree:
        if str(op) == "SUBPATTERN" and av[0] in names:
            out.add(names[av[0]])
    return out


def _format_spec_rejections(model, ctx, R):
    fp = model.func(f"{AST_PY}::Format._parse_format_spec")

    def group_fold(node):
        """match.group("a", "b", ..)[k] and match.group("a") are match["a"]: the named groups, however they are read"""
        if isinstance(node, ast.Subscript) and isinstance(node.value, ast.Call) and isinstance(node.value.func, ast.Attribute) and \
                node.value.func.attr == "group" and isinstance(node.slice, ast.Constant) and isinstance(node.slice.value, int) and \
                all(isinstance(a_, ast.Constant) for a_ in node.value.args) and node.slice.value < len(node.value.args):
            return ast.Subscript(value=node.value.func.value, slice=ast.Constant(value=node.value.args[node.slice.value].value),
                                 ctx=ast.Load())
        if isinstance(node, ast.Call) and isinstance(node.func, ast.Attribute) and node.func.attr == "group" and len(node.args) == 1 and \
                isinstance(node.args[0], ast.Constant) and isinstance(node.args[0].value, str):
            return ast.Subscript(value=node.func.value, slice=ast.Constant(value=node.args[0].value), ctx=ast.Load())
        return None
    body = [b_ for b_ in fp.body if not (isinstance(b_, ast.Expr) and isinstance(b_.value, ast.Constant))]
    rpaths = [p for p in run_paths(body, fold=group_fold, max_paths=20000) if p.how == "raise"]
    need(len(rpaths) >= 8, f"_parse_format_spec: only {len(rpaths)} rejecting paths found")
    # the match object is a local; conditions are reported in terms of it
    msrc = [unparse(st.value) for st in fp.body if isinstance(st, ast.Assign) and unparse(st.targets[0]) == "match"]
    need(len(msrc) == 1, "_parse_format_spec: the `match = ...fullmatch(spec)` binding was not found")
    always = _always_groups(model)

    def canon_test(t):
        """a group that takes part in every match is a str: its truthiness is `!= ''`"""
        neg = False
        while t.startswith("not "):
            t, neg = t[4:], not neg
        for g_ in always:
            if t == f"match['{g_}'] != ''":
                t = f"match['{g_}']"
            elif t == f"match['{g_}'] == ''":
                t, neg = f"match['{g_}']", not neg
        return ("not " if neg else "") + t

    def show(n, _m=msrc[0]):
        return canon_test(unparse(n).replace(_m, "match"))
    raising = []        # for every rejecting path: the tests that were true on it
    for p in rpaths:
        raising.append({show(t) for t, pol in p.conds if pol} | {"not " + show(t) for t, pol in p.conds if not pol})
    want = ["not match", "match['align'] == '^'", "match['grouping'] == ','", "match['type'] == 'n'", "shape.signed", "match['align'] == '='",
            "match['show_base']", "match['width_zero'] != ''", "match['sign'] is not None", "match['grouping'] is not None",
            "match['type'] == 's' and shape.width % 8 != 0"]

    def rejected_under(w):
        # a path whose *last* true test is w (the test that raises)
        w = canon_test(w)
        for p in rpaths:
            pos = [show(t) if pol else "not " + show(t) for t, pol in p.conds]
            if pos and pos[-1] == w:
                return True
        return False
    for w in want:
        ctx.check(rejected_under(w), R, f"_parse_format_spec:reject:{w}", "rejected with ValueError",
                  f"_parse_format_spec no longer rejects specifiers with `{w}`", f"{AST_PY}:{fp.lineno}")
    # the character/string restrictions apply to both `c` and `s`: their rejecting paths run under `type in ('c', 's')`
    CS = ["shape.signed", "match['align'] == '='", "match['show_base']", "match['width_zero'] != ''", "match['sign'] is not None",
          "match['grouping'] is not None"]
    okcs = True
    for w in CS:
        hit = [p for p in rpaths if [show(t) if pol else "not " + show(t) for t, pol in p.conds][-1:] == [canon_test(w)]]
        okcs = okcs and bool(hit) and all(("match['type'] in ('c', 's')", True) in {(show(t), pol) for t, pol in p.conds} for p in hit)
    ctx.check(okcs, R, "_parse_format_spec:c/s-block", "character/string restrictions apply to both c and s",
              "the restrictions on signedness, alignment, alternate form, zero fill, sign and grouping must apply to both `c` and `s`",
              f"{AST_PY}:{fp.lineno}")


def r20b(model, ctx):
    R = "R-20b"
    f = model.func(f"{AST_PY}::Format.__init__")
    g = CFG(f, inline_closures=False)
    apps = g.nodes_with(lambda n: isinstance(n, ast.Call) and unparse(n.func) == "chunks.append" and n.args
                        and isinstance(n.args[0], ast.Tuple) and len(n.args[0].elts) == 2)
    need(len(apps) >= 2, "Format.__init__: (value, spec) chunk appends not found")
    for a in apps:
        s = g.stmt[a]
        # the validating call must be the statement executed immediately before, in the same block
        mod = model.mod(AST_PY)
        parent = mod.parent(s)
        body = None
        for fld in ("body", "orelse"):
            b = getattr(parent, fld, None)
            if isinstance(b, list) and s in b:
                body = b
        ok = body is not None and body.index(s) > 0 and \
            unparse(body[body.index(s) - 1]) == "self._parse_format_spec(format_spec, obj.shape())" and \
            unparse(s.value.args[0]) == "(obj, format_spec)"
        ctx.check(ok, R, f"Format.__init__:append@{'value' if 'isinstance(obj, Value)' in unparse(parent.test) else 'castable'}",
                  "_parse_format_spec(format_spec, obj.shape()) immediately precedes the append",
                  "a (value, spec) chunk enters Format._chunks without passing through _parse_format_spec(format_spec, obj.shape()): "
                  "an invalid specifier would only fail when the statement is simulated or converted", f"{AST_PY}:{s.lineno}")
    _format_spec_rejections(model, ctx, R)
    fp = model.func(f"{AST_PY}::Format._parse_format_spec")
    t = unparse(fp)
    ok = "match = Format._FORMAT_SPEC_PATTERN.fullmatch(spec)" in t
    ctx.check(ok, R, "_parse_format_spec:fullmatch", "the whole specifier must match the grammar", "the specifier must be matched with "
              "fullmatch", f"{AST_PY}:{fp.lineno}")
    # statements validate at construction: Print/Property build a Format from their arguments
    for cls in ("Print", "Property"):
        fi = model.func(f"{AST_PY}::{cls}.__init__")
        ok = "Format" in unparse(fi)
        ctx.check(ok, R, f"{cls}.__init__", "message converted to a Format when the statement is built",
                  f"{cls} must convert its message to a Format at construction", f"{AST_PY}:{fi.lineno}")


def r20c(model, ctx):
    R = "R-20c"
    f = model.func(f"{PYRTL}::_StatementCompiler.on_Property")
    tm = []
    for n in ast.walk(f):
        if isinstance(n, ast.Call) and isinstance(n.func, ast.Attribute) and n.func.attr == "append" and n.args:
            t = template_of(n.args[0])
            if t is not None and t.skeleton().startswith("if "):
                tm.append((n, t))
    need(len(tm) == 2, "on_Property: the two `if` emissions (cover, assert/assume) not found")
    mod = model.mod(PYRTL)
    for n, t in tm:
        p = mod.parent(n)
        cover = False
        while p is not None and p is not f:
            if isinstance(p, ast.If) and unparse(p.test) == "stmt.kind == Property.Kind.Cover":
                cover = any(n is x for s in p.body for x in ast.walk(s))
            p = mod.parent(p)
        want = "if {0}:" if cover else "if not {0}:"
        ok = t.skeleton() == want and t.holes[0].src == "self.rhs.sign(stmt.test)"
        ctx.check(ok, R, f"on_Property:{'cover' if cover else 'assert/assume'}", f"`{want}` on the whole condition value",
                  f"{'a cover' if cover else 'an assertion/assumption'} must test the truth of the *whole* condition: `{want}` with "
                  f"self.rhs.sign(stmt.test); found `{t.skeleton()}` with {[h.src for h in t.holes]} (testing only bit 0 fires on "
                  f"non-zero conditions whose LSB is clear)", f"{PYRTL}:{n.lineno}")
    t = unparse(f)
    # the violation names: assigned per kind in an if-chain, or looked up in a table keyed by Property.Kind
    names_ok = ("kind = 'Assertion'" in t and "kind = 'Assumption'" in t)
    if not names_ok:
        cls_ = model.cls(f"{PYRTL}::_StatementCompiler")
        for tbl in ast.walk(cls_):
            if isinstance(tbl, ast.Dict) and tbl.keys and all(k is not None for k in tbl.keys):
                d = {unparse(k): (v.value if isinstance(v, ast.Constant) else None) for k, v in zip(tbl.keys, tbl.values)}
                if d.get("Property.Kind.Assert") == "Assertion" and d.get("Property.Kind.Assume") == "Assumption":
                    names_ok = True
    ok = "pin_blame(" in t and "AssertionError" in t and names_ok
    ctx.check(ok, R, "on_Property:raise", "a failing assert/assume raises AssertionError (simulation stops)", "a failing assertion must raise "
              "AssertionError through pin_blame", f"{PYRTL}:{f.lineno}")
    f = model.func(f"{PYRTL}::_StatementCompiler.on_Print")
    tt = [template_of(n.args[0]) for n in ast.walk(f) if isinstance(n, ast.Call) and n.args and template_of(n.args[0]) is not None]
    ok = len(tt) == 1 and tt[0].skeleton() == "print({0}, end='')" and tt[0].holes[0].src == "self.emit_format(stmt.message)"
    ctx.check(ok, R, "on_Print", "print(<formatted message>, end='')", "Print must emit print(<message>, end='') (the message carries its "
              "own line ending)", f"{PYRTL}:{f.lineno}")
    f = model.func(f"{PYRTL}::_StatementCompiler.on_Switch")
    ok = "def case_handler(pattern, stmt, src_loc):\n        self(stmt)" in unparse(f) and "self._emit_switch(gen_test, stmt.cases, case_handler)" in unparse(f)
    ctx.check(ok, R, "on_Switch:nesting", "case bodies (including prints and properties) are compiled inside their case",
              "statements of a case must be compiled inside that case's branch", f"{PYRTL}:{f.lineno}")
    # netlist
    fs, lvs = model.func(f"{IR}::NetlistEmitter.emit_stmt"), None
    lvs = dispatch_leaves(fs.body)
    for kind, cells in (("Print", ("AsyncPrint", "SyncPrint")), ("Property", ("AsyncProperty", "SyncProperty"))):
        lf = select_leaf(lvs, {"class": kind})
        need(handled(lf), f"emit_stmt: no {kind} branch")
        calls = {dotted(n.func): n for s_ in lf.body for n in ast.walk(s_) if isinstance(n, ast.Call) and dotted(n.func)}
        def kws(name):
            c_ = calls.get(name)
            return {k.arg: unparse(k.value) for k in c_.keywords} if c_ is not None else {}
        a_kw, s_kw = kws(f"_nir.{cells[0]}"), kws(f"_nir.{cells[1]}")
        asg = kws("_nir.Assignment")
        binds = {unparse(s_.targets[0]): unparse(s_.value) for s_ in ast.walk(ast.Module(body=lf.body, type_ignores=[]))
                 if isinstance(s_, ast.Assign) and len(s_.targets) == 1}
        ok = a_kw.get("en") == "cond" and s_kw.get("en") == "cond" and s_kw.get("clk") == "clk" and s_kw.get("clk_edge") == "cd.clk_edge" and \
            asg.get("cond") == "cond" and asg.get("value") == "_nir.Value.ones()" and \
            binds.get("(cond,)", binds.get("cond,")) == "self.netlist.add_value_cell(1, en_cell)" and \
            binds.get("(clk,)", binds.get("clk,")) == "self.emit_signal(cd.clk)" and \
            any(isinstance(s_, ast.If) and unparse(s_.test) == "cd is None" for s_ in ast.walk(ast.Module(body=lf.body, type_ignores=[])))
        ctx.check(ok, R, f"emit_stmt:{kind}", "enable = enclosing condition; comb -> async cell, else sync cell with the domain's clk/edge",
                  f"{kind} cells must be enabled by the enclosing condition and, in a clocked domain, carry that domain's clock and edge",
                  f"{IR}:{lf.lineno}")
    lf = select_leaf(lvs, {"class": "Property"})
    t = "\n".join(unparse(s) for s in lf.body)
    ok = "if len(test) != 1:\n    test = self.emit_operator(module_idx, 'b', test, src_loc=stmt.src_loc)" in t
    ctx.check(ok, R, "emit_stmt:Property:test", "multi-bit conditions are reduced with `b` (non-zero)", "a multi-bit property condition must "
              "be reduced with the boolean operator `b`", f"{IR}:{lf.lineno}")
    # EnableInserter gates every controlled domain with statements (no extra skip conditions)
    _fresh, skip_ok, how = c03.control_inserter_paths(model)
    ctx.check(skip_ok, R, "_ControlInserter.on_fragment:no-extra-skip", "only uncontrolled / comb domains are skipped",
              "a controlled domain must not be skipped for any other reason (e.g. because it drives no signals): EnableInserter gates "
              f"*statements*, so a domain holding only Print/Assert must still be wrapped; found {how}",
              f"{XFRM}:{model.func(f'{XFRM}::_ControlInserter.on_fragment').lineno}")


def _only(rule_fn, keep):
    def wrapped(model, ctx):
        n0, v0 = len(ctx.obligations), len(ctx.violations)
        rule_fn(model, ctx)
        ctx.obligations[n0:] = [o for o in ctx.obligations[n0:] if keep(o["construct"])]
        ctx.violations[v0:] = [v for v in ctx.violations[v0:] if keep(v["construct"])]
    return wrapped


def r20taint(model, ctx):
    for ref in ("_StatementCompiler.emit_format", "_StatementCompiler.on_Property", "_StatementCompiler.on_Print"):
        facts, errors = pyrtl_common.analyse_function(model, ref)
        pyrtl_common.report(ctx, "R-01c", facts, errors)



def r20d(model, ctx):
    """every domain of a fragment that has statements gets a compiled process, whether or not it drives a signal: prints and
    assertions are statements without a target.  In _FragmentCompiler.__call__ the loop over the fragment's domains never
    skips an iteration, and the process it builds is always added to the result."""
    R = "R-20d"
    from ..engine.astutil import parent_map
    fn = model.func(f"{PYRTL}::_FragmentCompiler.__call__")
    loops = [l for l in ast.walk(fn) if isinstance(l, ast.For) and isinstance(l.target, ast.Name) and l.target.id == "domain_name"]
    need(len(loops) == 1, "_FragmentCompiler.__call__: the loop over the fragment's domains was not found")
    lp = loops[0]
    pm = parent_map(lp)

    def owner_loop(node):
        n = pm.get(node)
        while n is not None and not isinstance(n, (ast.For, ast.While)):
            n = pm.get(n)
        return n
    skips = [c for c in ast.walk(lp) if isinstance(c, (ast.Continue, ast.Break)) and (owner_loop(c) is None or owner_loop(c) is lp)]
    ctx.check(not skips, R, "_FragmentCompiler:every-domain-compiled", "no domain of the fragment is skipped",
              f"the loop over the fragment's domains skips an iteration (line(s) {[c.lineno for c in skips]}): a domain whose "
              f"statements are only Print/Assert/Assume/Cover drives no signal but must still be compiled and woken by its clock",
              f"{PYRTL}:{lp.lineno}")
    adds = [c for c in ast.walk(lp) if isinstance(c, ast.Call) and unparse(c.func) == "processes.add" and
            c.args and unparse(c.args[0]) == "domain_process"]
    conds = []
    for a in adds:
        n = pm.get(a)
        while n is not None and n is not lp:
            if isinstance(n, (ast.If, ast.While, ast.For, ast.Try)):
                conds.append(type(n).__name__)
            n = pm.get(n)
    ctx.check(len(adds) == 1 and not conds, R, "_FragmentCompiler:process-registered", "the domain's process is added unconditionally",
              f"processes.add(domain_process) must be executed once per domain, unconditionally (found {len(adds)} under {conds})",
              f"{PYRTL}:{lp.lineno}")



def r20e(model, ctx):
    """compared with their reference semantics (sa/refs/c20_print.py) by path summary"""
    from .reflib import run_ref_file
    run_ref_file(model, ctx, "R-20e", "c20_print")


RULES = [("R-20e", r20e), ("R-20d", r20d), ("R-20a", r20a), ("R-20b", r20b), ("R-20c", r20c), ("R-01c", r20taint), ("R-03a", c03.r03a),
         ("R-03e", _only(c03.r03e, lambda c: c.startswith("EnableInserter")))]
