"""C15 — data layouts and shaped enumerations (structural necessary conditions)."""
import ast
from ..engine.core import AnalysisError, need
from ..engine.astutil import unparse, dotted, pmatch, const_int, dump
from ..engine.symx import run_paths
from ..engine.norm import poly, poly_sub, poly_text
from . import c01, c02

D = "amaranth/lib/data.py"
E = "amaranth/lib/enum.py"

EXPLANATION = (
    "Static (ast-only) decision of structural necessary conditions of C15: (a) View/Const twin agreement — "
    "View.__getitem__ (slices the underlying value) and Const.__getitem__ (shifts and masks the integer) have the same "
    "branch structure and, branch by branch, select the same bit window: the (offset, width) pairs are compared in "
    "polynomial normal form; signed fields are reinterpreted (as_signed() / Const(value, shape).value) and "
    "shape-castable fields go through shape(value) / shape.from_bits(value); (b) layout accumulators — struct fields "
    "are placed use-then-increment from offset 0 by the width of the same member, union fields at offset 0, array "
    "element k at k * element width, and the sizes are max(offset+width) / max(width) / width * length; (c) "
    "Layout.const merges every field with one mask built from that field's own width and offset; from_bits wraps the "
    "raw integer; (d) flag-view operators pass the same-named operator, reflected aliases point at their forward "
    "method, shaped enums convert through Const(member.value, as_shape()) and cls(bits). assignment through a field (a Slice/Part target) "
    "stays inside the field's window in the testbench evaluator, the code generator and the netlist builder (R-02e, "
    "R-02g shared with C02); (e) strided slices of array constants walk the same range as "
    "the view's Cat(), select the same element window and pack the selected elements contiguously. NOT decided: the "
    "round-trip laws for arbitrary layouts."
)
ASSUMPTIONS = ["CPython ast parses /repo's source as the interpreter would"]
MIN_INSTANCES = {"R-15g": 4, "R-15f": 1, "R-02e": 6, "R-02g": 5, "R-15e": 4, "R-15a": 5, "R-15b": 7, "R-15c": 3, "R-15d": 7}


def _norm_cond(t):
    return unparse(t).replace("_View__", "__").replace("_Const__", "__").replace("Constant with", "View with")


def _window_view(v):
    """self.__target[A:B] -> (poly(A), poly(B - A))"""
    m = pmatch("self.__target[_V_A:_V_B]", v)
    if m is None:
        return None
    return poly(m["_V_A"]), poly_sub(poly(m["_V_B"]), poly(m["_V_A"]))


def _window_const(v):
    m = pmatch("self.__target >> _V_A & (1 << _V_N) - 1", v)
    if m is None:
        return None
    return poly(m["_V_A"]), poly(m["_V_N"])


def _getitem_paths(fn):
    out = {}
    for p in run_paths(fn.body, max_paths=512):
        if p.how not in ("return",):
            continue
        key = tuple((_norm_cond(t), pol) for t, pol in p.conds
                    if _norm_cond(t).startswith("isinstance(") or _norm_cond(t) in ("stride == 1", "key < 0")
                    or _norm_cond(t).startswith("Shape.cast(shape).signed"))
        key = tuple(k for k in key if not k[0].startswith("isinstance(value, "))
        out.setdefault(key, []).append(p)
    return out


def _reinterpret_paths(fv):
    """every returning path of View.__getitem__, classified by the outcome of its two tests `isinstance(S, ShapeCastable)` and
    `Shape.cast(S).signed` on the field's shape S: the result must be S(raw.as_signed()), S(raw), raw.as_signed(), raw
    respectively — however the tests and the rebinding of `value` are arranged"""
    import re
    ok, n = True, 0
    for p in run_paths(fv.body, max_paths=1024):
        if p.how != "return" or p.ret is None:
            continue
        cast = sgn = subj = None
        for c, pol in p.conds:
            t = unparse(c)
            m = re.fullmatch(r"isinstance\((.+), ShapeCastable\)", t)
            if m:
                cast, subj = pol, m.group(1)
                continue
            m = re.fullmatch(r"Shape\.cast\((.+)\)\.signed", t)
            if m:
                sgn = pol
        if subj is None or sgn is None:
            # an array layout (the shape of a slice of an array view) is shape-castable and unsigned by construction; any other
            # shape has to be asked: one result cannot serve both answers
            if subj is not None and subj.startswith("ArrayLayout(") and sgn is None:
                sgn = False
            if cast is None or sgn is None:
                n += 1
                ok = False
                continue
        r, lifted = p.ret, False
        if isinstance(r, ast.Call) and len(r.args) == 1 and not r.keywords and unparse(r.func) == subj:
            lifted, r = True, r.args[0]
        m = pmatch("_V_X.as_signed()", r)
        signed = m is not None
        if signed:
            r = m["_V_X"]
        raw = not any(isinstance(x, ast.Attribute) and x.attr in ("as_signed", "as_unsigned") for x in ast.walk(r)) and \
            not any(isinstance(x, ast.Call) and unparse(x.func) == subj for x in ast.walk(r))
        n += 1
        ok = ok and lifted == cast and signed == sgn and raw
    return ok, n


def r15a(model, ctx):
    R = "R-15a"
    fv = model.func(f"{D}::View.__getitem__")
    fc = model.func(f"{D}::Const.__getitem__")
    pv, pc = _getitem_paths(fv), _getitem_paths(fc)
    n = 0
    for key, vpaths in sorted(pv.items()):
        if key not in pc:
            continue
        for vp in vpaths:
            val = vp.env.get("value")
            if val is None:
                continue
            # strip the wrappers to find the raw window
            raw = val
            for _ in range(3):
                m = pmatch("_V_X.as_signed()", raw) or pmatch("shape(_V_X)", raw) or pmatch("self.__layout.elem_shape(_V_X)", raw)
                if m is not None:
                    raw = m["_V_X"]
            wv = None
            for cand in ast.walk(raw):
                wv = _window_view(cand)
                if wv is not None:
                    break
            if wv is None:
                continue
            for cp in pc[key]:
                cval = cp.env.get("value")
                if cval is None:
                    continue
                wc = None
                for cand in ast.walk(cval):
                    wc = _window_const(cand)
                    if wc is not None:
                        break
                if wc is None:
                    continue
                n += 1
                kind = "array-slice" if any("slice" in k[0] and k[1] for k in key) and any("ArrayLayout" in k[0] and k[1] for k in key) else \
                    "array-index" if any("ArrayLayout" in k[0] and k[1] for k in key) else "field"
                ok = wv == wc
                ctx.check(ok, R, f"View/Const.__getitem__:{kind}:window",
                          f"offset {poly_text(wv[0])}, width {poly_text(wv[1])} in both",
                          f"View.__getitem__ selects bits [offset {poly_text(wv[0])}, width {poly_text(wv[1])}] but Const.__getitem__ "
                          f"selects [offset {poly_text(wc[0])}, width {poly_text(wc[1])}] on the {kind} branch: a constant's field "
                          f"would differ from the same field of a view of that constant", f"{D}:{fc.lineno}")
                break
            break
    need(n >= 3, f"only {n} View/Const window pairs recognised")
    # reinterpretation of the selected bits
    tv, tc = unparse(fv), unparse(fc)
    # a shape-castable field is lifted with shape(value); when its underlying shape is signed the (unsigned) slice is first
    # reinterpreted as signed — an enumeration with a signed shape refuses a value of another shape (F15)
    ok, n_re = _reinterpret_paths(fv)
    need(n_re >= 8, f"View.__getitem__: only {n_re} returning paths classified")
    ctx.check(ok, R, "View.__getitem__:reinterpret", "shape-castable: shape(value); signed: as_signed(); else the raw slice",
              "a view's field must be shape(value) for shape-castable fields, value.as_signed() for signed fields, the raw slice otherwise",
              f"{D}:{fv.lineno}")
    ok = "if isinstance(shape, ShapeCastable):\n        return shape.from_bits(value)\n    return hdl.Const(value, Shape.cast(shape)).value" in tc
    ctx.check(ok, R, "Const.__getitem__:reinterpret", "shape-castable: from_bits(value); else Const(value, shape).value",
              "a constant's field must be shape.from_bits(value) for shape-castable fields and Const(value, shape).value otherwise",
              f"{D}:{fc.lineno}")
    # dynamic index on a view uses word_select with the element width
    ok = "value = self.__target.word_select(key, elem_width)" in tv and "return View(self.__layout, self.as_value())[key]" in tc
    ctx.check(ok, R, "getitem:dynamic-index", "View: word_select(key, elem_width); Const: defers to the view",
              "dynamic indexing must use word_select(key, elem_width), and constants must defer to a view", f"{D}:{fv.lineno}")
    # negative indices are normalised the same way
    def _wraps(t):
        # `if key < 0: key += length`, or the remainder by the length (the key was range-checked to [-length, length) before)
        return t.count("key += self.__layout.length") == 1 or "key % self.__layout.length" in t or "key %= self.__layout.length" in t
    ok = _wraps(tv) and _wraps(tc)
    ctx.check(ok, R, "getitem:negative-index", "negative indices wrap by the array length in both", "negative array indices must be "
              "normalised by adding the array length in both twins", f"{D}:{fv.lineno}")


REF_ARRAY_GETITEM = """
if isinstance(key, int):
    if key not in range(-self._length, self._length):
        raise KeyError(key)
    if key < 0:
        key += self._length
    return Field(self._elem_shape, key * Shape.cast(self._elem_shape).width)
raise TypeError()
"""
REF_ARRAY_GETITEM_MOD = """
if isinstance(key, int):
    if key not in range(-self._length, self._length):
        raise KeyError(key)
    return Field(self._elem_shape, (key % self._length) * Shape.cast(self._elem_shape).width)
raise TypeError()
"""


def r15b(model, ctx):
    R = "R-15b"
    f = model.func(f"{D}::StructLayout.__init__")
    c01.check_accumulator(ctx, R, "StructLayout.__init__", D, f, {"offset"})
    loops = [s for s in f.body if isinstance(s, ast.For)]
    ok = len(loops) == 1 and unparse(loops[0].iter) == "members.items()"
    if ok:
        b = loops[0].body
        ok = unparse(b[-2]) == "self._fields[key] = Field(shape, offset)" and unparse(b[-1]) == "offset += cast_shape.width" and \
            any(isinstance(s, ast.Try) and "cast_shape = Shape.cast(shape)" in unparse(s) for s in b)
    ctx.check(ok, R, "StructLayout.__init__:placement", "Field(shape, offset) then offset += width of the same member, in declaration order",
              "struct fields must be placed at the running offset, which then advances by Shape.cast(shape).width of that same member",
              f"{D}:{f.lineno}")
    f = model.func(f"{D}::UnionLayout.__init__")
    ok = any(unparse(s) == "self._fields[key] = Field(shape, 0)" for s in ast.walk(f) if isinstance(s, ast.Assign))
    ctx.check(ok, R, "UnionLayout.__init__:placement", "every field at offset 0", "union fields must all be placed at offset 0", f"{D}:{f.lineno}")
    f = model.func(f"{D}::ArrayLayout.__iter__")
    c01.check_accumulator(ctx, R, "ArrayLayout.__iter__", D, f, {"offset"})
    t = unparse(f)
    ok = "yield (index, Field(self._elem_shape, offset))" in t.replace("yield index, Field(self._elem_shape, offset)", "yield (index, Field(self._elem_shape, offset))") \
        and "offset += Shape.cast(self._elem_shape).width" in t and "for index in range(self._length)" in t
    ctx.check(ok, R, "ArrayLayout.__iter__:placement", "element i at i * element width", "array elements must be yielded at the running "
              "offset advancing by the element width", f"{D}:{f.lineno}")
    from ..engine import refsem
    f, paths = refsem.method_paths(model, f"{D}::ArrayLayout.__getitem__", inline=False)
    ok = refsem.compare(ctx, R, "ArrayLayout.__getitem__", f"{D}:{f.lineno}", "ArrayLayout.__getitem__", paths,
                        [REF_ARRAY_GETITEM, REF_ARRAY_GETITEM_MOD], fact="Field(elem_shape, key * element width), negative keys wrap",
                        why="Array element k must be at offset k * element width (negative k counts from the end); keys outside "
                            "[-length, length) raise KeyError.")
    ctx.check(True, R, "ArrayLayout.__getitem__:present", "Field(elem_shape, key * element width)", "array element k must be at offset k * element width",
              f"{D}:{f.lineno}")
    sizes = {"StructLayout": "max((field.offset + field.width for field in self._fields.values()), default=0)",
             "UnionLayout": "max((field.width for field in self._fields.values()), default=0)",
             "ArrayLayout": "Shape.cast(self._elem_shape).width * self.length"}
    for cls, exp in sizes.items():
        f = model.func(f"{D}::{cls}.size")
        ok = any(isinstance(s, ast.Return) and unparse(s.value) == exp for s in f.body)
        ctx.check(ok, R, f"{cls}.size", exp, f"{cls}.size must be `{exp}`", f"{D}:{f.lineno}")
    f = model.func(f"{D}::Field.width")
    ok = any(isinstance(s, ast.Return) and unparse(s.value) == "Shape.cast(self.shape).width" for s in f.body)
    ctx.check(ok, R, "Field.width", "width of the field's shape", "Field.width must be Shape.cast(self.shape).width", f"{D}:{f.lineno}")
    f = model.func(f"{D}::Layout.as_shape")
    ok = any(isinstance(s, ast.Return) and unparse(s.value) == "unsigned(self.size)" for s in f.body)
    ctx.check(ok, R, "Layout.as_shape", "unsigned(size)", "a layout must cast to unsigned(self.size)", f"{D}:{f.lineno}")


def r15c(model, ctx):
    R = "R-15c"
    f = model.func(f"{D}::Layout.const")
    loops = [s for s in f.body if isinstance(s, ast.For)]
    need(len(loops) == 1, "Layout.const: field loop not found")
    from ..engine import refsem
    from ..engine.bitalg import Canon
    from .evalspec import width_sign_hook
    inline = refsem.inline_table(model, D, "Layout", exclude=("const",))
    paths = [p for p in run_paths(list(loops[0].body), inline=inline, depth=3) if p.how == "fall"]
    ok = bool(paths)
    okv = bool(paths)
    cn = Canon(atom_hook=width_sign_hook)
    FIELD = "self[key]"
    VALUES = [f"hdl.Const.cast(hdl.Const(key_value, {FIELD}.shape))", f"hdl.Const(key_value, Shape.cast({FIELD}.shape))", "key_value"]
    for p in paths:
        v = p.env.get("int_value")
        if v is None:
            ok = False
            continue
        hit = None
        for V in VALUES:
            ref = ast.parse(f"int_value & ~(((1 << Shape.cast({FIELD}.shape).width) - 1) << {FIELD}.offset) | "
                            f"({V}.value << {FIELD}.offset) & (((1 << Shape.cast({FIELD}.shape).width) - 1) << {FIELD}.offset)", mode="eval").body
            if cn(v) == cn(ref):
                hit = V
        ok = ok and hit is not None
        # which conversion applies on this path: shape-castable fields go through Const(value, shape) and Const.cast; plain
        # shapes through Const(value, Shape.cast(shape)) unless the value already is a constant
        castable = any(pol and "ShapeCastable" in unparse(t) for t, pol in p.conds)
        is_const = any((not pol) and unparse(t).startswith("not isinstance(") and "hdl.Const" in unparse(t) for t, pol in p.conds) or \
            any(pol and unparse(t).startswith("isinstance(") and "hdl.Const" in unparse(t) and "ShapeCastable" not in unparse(t) for t, pol in p.conds)
        want = VALUES[0] if castable else (VALUES[2] if is_const else VALUES[1])
        okv = okv and hit == want
    ctx.check(ok, R, "Layout.const:merge", "int_value & ~mask | (field value << offset) & mask, mask = width-mask << offset of the same field",
              "Layout.const must merge each field with one mask built from that field's own width, shifted by that field's own "
              "offset, and shift the field's value by the same offset", f"{D}:{f.lineno}")
    ctx.check(okv, R, "Layout.const:field-value", "each field value is a constant of the field's shape", "field values must be converted "
              "to constants of the field's own shape", f"{D}:{f.lineno}")
    ok = isinstance(f.body[-1], ast.Return) and unparse(f.body[-1].value) == "Const(self, int_value)"
    ctx.check(ok, R, "Layout.const:result", "Const(self, int_value)", "Layout.const must return Const(self, int_value)", f"{D}:{f.lineno}")
    f = model.func(f"{D}::Layout.from_bits")
    ok = any(isinstance(s, ast.Return) and unparse(s.value) == "Const(self, raw)" for s in f.body)
    ctx.check(ok, R, "Layout.from_bits", "Const(self, raw)", "from_bits must wrap the raw integer: Const(self, raw)", f"{D}:{f.lineno}")
    f = model.func(f"{D}::Const.as_bits")
    ok = any(isinstance(s, ast.Return) and unparse(s.value) == "self.__target" for s in f.body)
    ctx.check(ok, R, "Const.as_bits", "the stored integer", "as_bits must return the stored integer", f"{D}:{f.lineno}")
    f = model.func(f"{D}::UnionLayout.const")
    ok = "if init is not None and len(init) > 1:" in unparse(f) and "return super().const(init)" in unparse(f)
    ctx.check(ok, R, "UnionLayout.const", "at most one field initialised", "a union constant may initialise at most one field", f"{D}:{f.lineno}")


def _flag_invert_ok(fi):
    """FlagView.__invert__, decided by what it computes: (A) the loop over the enumeration ors together exactly the members
    whose value has at most one bit set (the test is evaluated over 0..79 with a tiny interpreter of integer expressions);
    (B) for every boundary (none, STRICT, CONFORM, EJECT, KEEP) the path taken returns the enum's view of ~value for
    EJECT/KEEP and of ~value & mask otherwise."""
    import re
    from ..engine.bitalg import Canon
    from .c17 import _short
    loops = [n for n in ast.walk(fi) if isinstance(n, (ast.For, ast.While, ast.ListComp, ast.GeneratorExp, ast.SetComp))]
    if not loops and any(isinstance(n, ast.Attribute) and n.attr in ("_flag_mask_", "_all_bits_") for n in ast.walk(fi)):
        return False        # the enum module's mask of *all* member bits (multi-bit aliases included) is a different mask
    need(len(loops) == 1 and isinstance(loops[0], ast.For) and isinstance(loops[0].target, ast.Name) and not loops[0].orelse,
         "FlagView.__invert__: the loop collecting the single-bit flags was not recognised")
    lp = loops[0]
    x = lp.target.id
    need(unparse(lp.iter) in ("enum_cls", "self.shape()"), f"FlagView.__invert__: loop over `{unparse(lp.iter)}` not recognised")
    need(len(lp.body) == 1 and isinstance(lp.body[0], ast.If) and not lp.body[0].orelse and len(lp.body[0].body) == 1
         and isinstance(lp.body[0].body[0], ast.AugAssign) and isinstance(lp.body[0].body[0].target, ast.Name),
         "FlagView.__invert__: loop body is not `if <single-bit test>: mask |= flag.value`")
    aug = lp.body[0].body[0]
    acc = aug.target.id
    if not (isinstance(aug.op, ast.BitOr) and unparse(aug.value) == f"{x}.value"):
        return False
    inits = [n for n in ast.walk(fi) if isinstance(n, ast.Assign) and any(isinstance(t, ast.Name) and t.id == acc for t in n.targets)]
    others = [n for n in ast.walk(fi) if isinstance(n, ast.AugAssign) and isinstance(n.target, ast.Name) and n.target.id == acc and n is not aug]
    need(len(inits) == 1 and not others and inits[0].lineno < lp.lineno, f"FlagView.__invert__: `{acc}` is assigned in more than one place")
    if const_int(inits[0].value) != 0:
        return False

    def iv(e, v):
        if isinstance(e, ast.Attribute) and unparse(e) == f"{x}.value":
            return v
        if isinstance(e, ast.Constant) and isinstance(e.value, bool):
            return e.value
        c = const_int(e)
        if c is not None:
            return c
        if isinstance(e, ast.BinOp):
            a, b = iv(e.left, v), iv(e.right, v)
            ops = {ast.BitAnd: lambda: a & b, ast.BitOr: lambda: a | b, ast.BitXor: lambda: a ^ b, ast.Add: lambda: a + b,
                   ast.Sub: lambda: a - b, ast.LShift: lambda: a << b if 0 <= b < 64 else need(False, "shift"),
                   ast.RShift: lambda: a >> b if 0 <= b < 64 else need(False, "shift")}
            need(type(e.op) in ops, f"FlagView.__invert__: single-bit test `{unparse(e)}` not recognised")
            return ops[type(e.op)]()
        if isinstance(e, ast.UnaryOp) and isinstance(e.op, ast.Invert):
            return ~iv(e.operand, v)
        if isinstance(e, ast.UnaryOp) and isinstance(e.op, ast.USub):
            return -iv(e.operand, v)
        if isinstance(e, ast.UnaryOp) and isinstance(e.op, ast.Not):
            return not iv(e.operand, v)
        if isinstance(e, ast.BoolOp):
            vals = [bool(iv(t, v)) for t in e.values]
            return all(vals) if isinstance(e.op, ast.And) else any(vals)
        if isinstance(e, ast.Compare) and len(e.ops) == 1:
            a, b = iv(e.left, v), iv(e.comparators[0], v)
            ops = {ast.Eq: a == b, ast.NotEq: a != b, ast.Lt: a < b, ast.LtE: a <= b, ast.Gt: a > b, ast.GtE: a >= b}
            need(type(e.ops[0]) in ops, f"FlagView.__invert__: single-bit test `{unparse(e)}` not recognised")
            return ops[type(e.ops[0])]
        if isinstance(e, ast.Call) and unparse(e) == f"{x}.value.bit_count()":
            return bin(v).count("1")
        need(False, f"FlagView.__invert__: single-bit test `{unparse(e)}` not recognised")

    for v in range(80):
        if bool(iv(lp.body[0].test, v)) != (v & (v - 1) == 0):
            return False

    # (B) the paths
    paths = [p for p in run_paths(fi.body)]
    canon = Canon()
    bounds = ("STRICT", "CONFORM", "EJECT", "KEEP")

    def atom(e, state, _unused):
        t = unparse(e)
        if re.fullmatch(r"hasattr\((self\.shape\(\)|enum_cls), '_boundary_'\)", t):
            return state is not None
        if isinstance(e, ast.Compare) and len(e.ops) == 1 and re.fullmatch(r"(self\.shape\(\)|enum_cls)\._boundary_", unparse(e.left)):
            need(state is not None, "FlagView.__invert__ reads _boundary_ of an enumeration that may not have one")
            rhs = e.comparators[0]
            if isinstance(e.ops[0], (ast.In, ast.NotIn)) and isinstance(rhs, (ast.Tuple, ast.List, ast.Set)):
                names = [unparse(n).split(".")[-1] for n in rhs.elts]
                need(all(n in bounds for n in names), f"FlagView.__invert__: boundary test `{t}` not recognised")
                return (state in names) == isinstance(e.ops[0], ast.In)
            if isinstance(e.ops[0], (ast.Eq, ast.Is, ast.NotEq, ast.IsNot)):
                n = unparse(rhs).split(".")[-1]
                need(n in bounds, f"FlagView.__invert__: boundary test `{t}` not recognised")
                return (state == n) == isinstance(e.ops[0], (ast.Eq, ast.Is))
        need(False, f"FlagView.__invert__: condition `{t}` not recognised")

    for state in (None,) + bounds:
        taken = None
        for p in paths:
            if all(bool(_short(atom, c, state, None)) == pol for c, pol in p.conds):
                taken = p
                break
        need(taken is not None, "FlagView.__invert__: no path for some boundary")
        if taken.how != "return" or taken.ret is None:
            return False
        m = pmatch("_V_C._amaranth_view_class_(_V_D, _V_W)", taken.ret)
        need(m is not None, f"FlagView.__invert__: result `{unparse(taken.ret)}` not recognised")
        if not (unparse(m["_V_C"]) == unparse(m["_V_D"]) == "self.shape()"):
            return False
        want = "~self.as_value()" if state in ("EJECT", "KEEP") else f"~self.as_value() & {acc}__loop0"
        if canon(m["_V_W"]) != canon(ast.parse(want, mode="eval").body):
            return False
    return True


def _format_lift_ok(fn, what):
    """the per-field loop of a layout's format(): on every path the formatted operand is the raw slice, reinterpreted with
    .as_signed() exactly when the field's shape is signed, and lifted with S(...) / S.format(...) exactly when S is
    shape-castable (F15, F17) — classified by the outcome of the two tests, however they are arranged"""
    import re
    loops = [n for n in ast.walk(fn) if isinstance(n, ast.For)]
    need(len(loops) == 1, f"{what}: expected one loop over the fields")
    ok, n = True, 0
    for p in run_paths(loops[0].body):
        if p.how != "fall":
            continue
        cast = sgn = subj = None
        for c, pol in p.conds:
            t = unparse(c)
            m = re.fullmatch(r"isinstance\((.+), ShapeCastable\)", t)
            if m:
                cast, subj = pol, m.group(1)
                continue
            if re.fullmatch(r"(.+)\.signed", t):
                sgn = pol
        need(p.effects, f"{what}: a path through the loop body records nothing")
        e = p.effects[-1]
        if isinstance(e, ast.Assign) and isinstance(e.targets[0], ast.Subscript):
            x = e.value
        elif isinstance(getattr(e, "value", e), ast.Call) and isinstance(getattr(e, "value", e).func, ast.Attribute) and \
                getattr(e, "value", e).func.attr == "append" and len(getattr(e, "value", e).args) == 1:
            x = getattr(e, "value", e).args[0]
        else:
            need(False, f"{what}: `{unparse(e)}` is not the recording of a field's format")
        n += 1
        if cast is None or sgn is None:
            ok = False          # one result cannot serve both answers
            continue
        m = pmatch("_V_S.format(_V_T(_V_X), '')", x)
        lifted = m is not None and unparse(m["_V_S"]) == unparse(m["_V_T"]) == subj
        if not lifted:
            m = pmatch("Format('{}', _V_X)", x)
            need(m is not None, f"{what}: formatted field `{unparse(x)}` not recognised")
        r = m["_V_X"]
        m2 = pmatch("_V_X.as_signed()", r)
        signed = m2 is not None
        if signed:
            r = m2["_V_X"]
        raw = isinstance(r, ast.Subscript) and not any(isinstance(y, ast.Attribute) and y.attr in ("as_signed", "as_unsigned") for y in ast.walk(r))
        ok = ok and lifted == cast and signed == sgn and raw
    need(n >= 2, f"{what}: only {n} paths through the field loop")
    return ok


def r15d(model, ctx):
    R = "R-15d"
    c = model.cls(f"{E}::FlagView")
    ms = model.class_methods(c)
    for name, op in (("__and__", "operator.__and__"), ("__or__", "operator.__or__"), ("__xor__", "operator.__xor__")):
        fn = ms.get(name)
        stmts = [s for s in (fn.body if fn else []) if not (isinstance(s, ast.Expr) and isinstance(s.value, ast.Constant))]
        # operator.__or__ and operator.or_ (etc.) are the same built-in function
        alias = {"operator.__and__": ("operator.__and__", "operator.and_"), "operator.__or__": ("operator.__or__", "operator.or_"),
                 "operator.__xor__": ("operator.__xor__", "operator.xor")}[op]
        ok = len(stmts) == 1 and unparse(stmts[0]) in [f"return self.__bitop(other, {a})" for a in alias]
        ctx.check(ok, R, f"FlagView.{name}", f"__bitop(other, {op})", f"FlagView.{name} must apply {op}; found "
                  f"{unparse(stmts[0]) if stmts else '-'}", f"{E}:{fn.lineno if fn else c.lineno}")
    al = model.class_assigns(c)
    for r, fwd in (("__rand__", "__and__"), ("__ror__", "__or__"), ("__rxor__", "__xor__")):
        ok = unparse(al.get(r, ast.Constant(None))) == fwd
        ctx.check(ok, R, f"FlagView.{r}", f"alias of {fwd}", f"FlagView.{r} must be an alias of {fwd}", f"{E}:{c.lineno}")
    fb = ms.get("_FlagView__bitop") or ms.get("__bitop")
    t = unparse(fb) if fb else ""
    ok = "return enum_cls._amaranth_view_class_(enum_cls, op(self.as_value(), other.as_value()))" in t
    ctx.check(ok, R, "FlagView.__bitop", "op(self.as_value(), other.as_value()) wrapped in the enum's view", "__bitop must apply op to the "
              "two underlying values in order and wrap the result", f"{E}:{fb.lineno if fb else c.lineno}")
    fi = ms.get("__invert__")
    ok = _flag_invert_ok(fi)
    ctx.check(ok, R, "FlagView.__invert__", "complement within the mask of single-bit flags (STRICT/CONFORM boundary)",
              "~flags must be masked with the or of all single-bit flag values unless the boundary is EJECT/KEEP", f"{E}:{fi.lineno}")
    from ..engine import refsem as _rs
    f, paths = _rs.method_paths(model, f"{E}::EnumType.const", inline=False)
    _rs.compare(ctx, R, "EnumType.const", f"{E}:{f.lineno}", "EnumType.const", paths, ["""
if init is None:
    member = cls(0)
else:
    member = cls(init)
return cls(Const(member.value, cls.as_shape()))
"""], fact="cls(Const(member.value, cls.as_shape())), default member value 0",
                why="a shaped enum constant must be cls(Const(member.value, cls.as_shape())) with None meaning the member with value 0")
    f = model.func(f"{E}::EnumType.from_bits")
    # `bits` is a bit pattern: the member is looked up by the value that pattern has in the enumeration's shape (a negative
    # member of a signed enumeration has an unsigned pattern); the plain cls(bits) refuses those patterns
    from ..engine.inline import propagate_locals as _pl
    rets = [unparse(s.value) for s in _pl(f).body if isinstance(s, ast.Return)]
    ok = rets == ["cls(Const(bits, cls.as_shape()).value)"]
    ctx.check(ok, R, "EnumType.from_bits", "cls(Const(bits, cls.as_shape()).value)",
              f"from_bits must look the member up by the value of the bit pattern in the enumeration's own shape "
              f"(cls(Const(bits, cls.as_shape()).value)); found {rets}", f"{E}:{f.lineno}")
    # Layout.format lifts fields the same way as View.__getitem__
    for q in ("Layout.format", "ArrayLayout.format"):
        ff = model.func(f"{D}::{q}")
        okf = _format_lift_ok(ff, q)
        ctx.check(okf, R, f"{q}:signed-fields", "signed fields (shape-castable or not) are reinterpreted before use",
                  f"{q} must reinterpret the slice of a signed field as signed before handing it to a shape-castable shape or to "
                  "Format (Signal(S) builds the format eagerly: a layout with a signed enumeration field could not be instantiated)",
                  f"{D}:{ff.lineno}")
    c = model.cls(f"{E}::EnumView")
    ms = model.class_methods(c)
    for name, op in (("__eq__", "=="), ("__ne__", "!=")):
        fn = ms[name]
        ok = isinstance(fn.body[-1], ast.Return) and unparse(fn.body[-1].value) == f"self.as_value() {op} other.as_value()"
        ctx.check(ok, R, f"EnumView.{name}", f"as_value() {op} other.as_value()", f"EnumView.{name} must compare the underlying values with {op}",
                  f"{E}:{fn.lineno}")


def _mentions(node, name):
    return any(isinstance(n, ast.Name) and n.id == name for n in ast.walk(node))


def _split_abs(e):
    """every abs(X) replaced by X and by -X: list of variants (case split on the sign)"""
    for n in ast.walk(e):
        if isinstance(n, ast.Call) and dotted(n.func) == "abs" and len(n.args) == 1:
            out = []
            for repl in (n.args[0], ast.UnaryOp(op=ast.USub(), operand=n.args[0])):
                out.extend(_split_abs(_replace_node(e, n, repl)))
            return out
    return [e]


def _replace_node(root, target, repl):
    import copy
    if root is target:
        return copy.deepcopy(repl)
    new = copy.copy(root)
    for f, v in ast.iter_fields(root):
        if isinstance(v, ast.AST):
            setattr(new, f, _replace_node(v, target, repl))
        elif isinstance(v, list):
            setattr(new, f, [_replace_node(x, target, repl) if isinstance(x, ast.AST) else x for x in v])
    return new


def r15e(model, ctx):
    """strided slices of array constants: Const.__getitem__ packs the selected elements contiguously (element k of the
    selection at k * elem_width), like the Cat() the View twin builds over the same range."""
    from ..engine.symx import subst
    R = "R-15e"
    fv = model.func(f"{D}::View.__getitem__")
    fc = model.func(f"{D}::Const.__getitem__")
    # the view's strided branch: Cat(<window(index)> for index in <range>)
    gens = [n for n in ast.walk(fv) if isinstance(n, ast.Call) and dotted(n.func) == "Cat" and n.args and isinstance(n.args[0], ast.GeneratorExp)]
    need(len(gens) == 1, "View.__getitem__: strided Cat(...) not found")
    g = gens[0].args[0]
    need(len(g.generators) == 1 and isinstance(g.generators[0].target, ast.Name), "View.__getitem__: strided generator shape")
    v_iter, v_var = g.generators[0].iter, g.generators[0].target.id
    wv = _window_view(g.elt)
    need(wv is not None, "View.__getitem__: strided element window not recognised")
    loops = [n for n in ast.walk(fc) if isinstance(n, ast.For)]
    need(len(loops) == 1, "Const.__getitem__: strided loop not found")
    loop = loops[0]
    counter = None
    it, tgt = loop.iter, loop.target
    if isinstance(it, ast.Call) and dotted(it.func) == "enumerate" and isinstance(tgt, ast.Tuple) and len(tgt.elts) == 2:
        counter, tgt, it = tgt.elts[0].id, tgt.elts[1], it.args[0]
    need(isinstance(tgt, ast.Name), "Const.__getitem__: strided loop target")
    ctx.check(unparse(it) == unparse(v_iter), R, "Const.__getitem__:strided:range", f"both twins walk {unparse(v_iter)}",
              f"Const.__getitem__ walks {unparse(it)} but View.__getitem__ walks {unparse(v_iter)} for a strided slice", f"{D}:{loop.lineno}")
    # the array layout of the result counts the same range
    shp = [n for n in ast.walk(fc) if isinstance(n, ast.Call) and dotted(n.func) == "ArrayLayout"] + \
          [n for n in ast.walk(fv) if isinstance(n, ast.Call) and dotted(n.func) == "ArrayLayout"]
    ok = len(shp) == 2 and all(len(c.args) == 2 and unparse(c.args[1]) == f"len({unparse(v_iter)})" and
                               unparse(c.args[0]) == "self.__layout.elem_shape" for c in shp)
    ctx.check(ok, R, "getitem:slice:result-layout", f"ArrayLayout(elem_shape, len({unparse(v_iter)})) in both twins",
              "a slice of an array view/constant must have the element shape and as many elements as the range selects", f"{D}:{fc.lineno}")
    # element window and placement
    env = {}
    placed = None
    for st in loop.body:
        if isinstance(st, ast.Assign) and isinstance(st.targets[0], ast.Name):
            env[st.targets[0].id] = subst(st.value, env)
        elif isinstance(st, ast.AugAssign) and isinstance(st.op, ast.BitOr) and unparse(st.target) == "value":
            m = pmatch("_V_X << _V_P", st.value)
            need(m is not None, f"Const.__getitem__: strided placement `{unparse(st)}` not of the form value |= X << P")
            placed = (subst(m["_V_X"], env), m["_V_P"], st)
    need(placed is not None, "Const.__getitem__: strided placement not found")
    wc = _window_const(placed[0])
    need(wc is not None, f"Const.__getitem__: strided element window `{unparse(placed[0])}` not recognised")
    ren = {v_var: ast.Name(id=tgt.id, ctx=ast.Load())}
    wv2 = None
    for cand in ast.walk(subst(g.elt, ren)):
        wv2 = _window_view(cand)
        if wv2 is not None:
            break
    ctx.check(wv2 == wc, R, "Const.__getitem__:strided:window", f"element offset {poly_text(wc[0])}, width {poly_text(wc[1])} in both twins",
              f"strided slice: View selects element window (offset {poly_text(wv2[0])}, width {poly_text(wv2[1])}), Const selects "
              f"(offset {poly_text(wc[0])}, width {poly_text(wc[1])})", f"{D}:{loop.lineno}")
    W = wc[1]
    P, st = placed[1], placed[2]
    idx = loop.body.index(st)
    how = None
    if isinstance(P, ast.Name) and not _mentions(P, tgt.id):
        # accumulator idiom: starts at 0 before the loop, advanced by W after its use
        name = P.id
        incs = [(i, b) for i, b in enumerate(loop.body) if isinstance(b, ast.AugAssign) and unparse(b.target) == name]
        init0 = False
        for parent in ast.walk(fc):
            for fld in ("body", "orelse"):
                b = getattr(parent, fld, None)
                if isinstance(b, list) and loop in b:
                    for x in b[:b.index(loop)]:
                        if isinstance(x, ast.Assign) and unparse(x.targets[0]) == name:
                            init0 = const_int(x.value) == 0
        ok = init0 and len(incs) == 1 and isinstance(incs[0][1].op, ast.Add) and incs[0][0] > idx and poly(incs[0][1].value) == W
        how = f"accumulator `{name}` from 0 advanced by {poly_text(W)} after use"
    elif counter is not None and not _mentions(P, tgt.id):
        ok = poly(P) == {tuple(sorted((counter,) + m)): c for m, c in W.items()}
        how = f"enumerate counter `{counter}` times {poly_text(W)}"
    else:
        # closed form in the loop variable: the finite difference along the range step must be the element width
        step = it.args[2] if isinstance(it, ast.Call) and dotted(it.func) == "range" and len(it.args) == 3 else ast.Constant(value=1)
        oks = []
        for variant in _split_abs(P):
            for a in ast.walk(variant):
                if not isinstance(a, (ast.BinOp, ast.UnaryOp, ast.Name, ast.Constant, ast.operator, ast.unaryop, ast.expr_context)):
                    if _mentions(a, tgt.id):
                        raise AnalysisError(f"Const.__getitem__: strided placement `{unparse(P)}` is not polynomial in `{tgt.id}`; "
                                            f"contiguity cannot be decided")
                if isinstance(a, ast.BinOp) and not isinstance(a.op, (ast.Add, ast.Sub, ast.Mult)) and _mentions(a, tgt.id):
                    raise AnalysisError(f"Const.__getitem__: strided placement `{unparse(P)}` is not polynomial in `{tgt.id}`")
            nxt = subst(variant, {tgt.id: ast.BinOp(left=ast.Name(id=tgt.id, ctx=ast.Load()), op=ast.Add(), right=step)})
            oks.append(poly_sub(poly(nxt), poly(variant)) == W)
        ok = all(oks)
        how = f"closed form {unparse(P)} whose step along the range is the element width"
    ctx.check(ok, R, "Const.__getitem__:strided:contiguous", how,
              f"strided slice of an array constant: the k-th selected element must be placed at bit k * ({poly_text(W)}) — "
              f"`{unparse(st)}` does not advance by exactly one element width per selected element (it agrees with the view's "
              f"Cat(...) only for unit strides)", f"{D}:{st.lineno}")


# "assigning through a view field changes only that field's bits - in simulation and in synthesis alike": a view field
# is a Slice (static key) or Part (dynamic index) of the target, so the clause rests on the window discipline of the
# three assignment walkers (testbench evaluator, code generator, netlist builder), decided by R-02e / R-02g.

def r15f(model, ctx):
    """an enumeration member written as an Amaranth constant is replaced by that constant's VALUE (sign included): the
    enumeration's shape and every Const / init made from the member are derived from it"""
    R = "R-15f"
    ENUM = "amaranth/lib/enum.py"
    f = model.func_view(f"{ENUM}::EnumType.__new__", depth=1)
    sets = [c for c in ast.walk(f) if isinstance(c, ast.Call) and unparse(c.func) in ("dict.__setitem__", "namespace.__setitem__")
            and len(c.args) >= 3 and unparse(c.args[1]) == "member_name"]
    sets += [ast.Call(func=ast.Name(id="setitem", ctx=ast.Load()), args=[st.targets[0].value, st.targets[0].slice, st.value], keywords=[])
             for st in ast.walk(f) if isinstance(st, ast.Assign) and isinstance(st.targets[0], ast.Subscript) and
             unparse(st.targets[0]) == "namespace[member_name]"]
    need(len(sets) == 1, "EnumType.__new__: the replacement of a constant member by its value was not found")
    v = unparse(sets[0].args[2])
    ok = v in ("member_const.value", "Const.cast(member_value).value")
    ctx.check(ok, R, "EnumType.__new__:member-value", "constant members are stored as member_const.value",
              f"a member given as an Amaranth constant must be stored as the constant's value (member_const.value); found `{v}`: "
              f"storing its bit pattern turns Const(-2, signed(3)) into 6 and the enumeration unsigned", f"{ENUM}:{sets[0].args[2].lineno if hasattr(sets[0].args[2], 'lineno') else f.lineno}")



def r15g(model, ctx):
    """class-level tables (the declared field defaults of a Struct/Union, an enumeration's members) are shared by every
    constant and signal made from the class: outside class construction (__new__ / __init_subclass__ / __prepare__) they are
    read, never updated in place — neither directly nor through a local that aliases them (`fields = cls.__default;
    fields.update(init)` leaks one call's values into all later ones)"""
    R = "R-15g"
    MUT = {"update", "append", "extend", "insert", "add", "setdefault", "pop", "remove", "clear", "discard", "popitem", "sort", "reverse"}
    n = 0
    for rel in ("amaranth/lib/data.py", "amaranth/lib/enum.py"):
        mod = model.mod(rel)
        for fn in ast.walk(mod.tree):
            if not isinstance(fn, (ast.FunctionDef, ast.AsyncFunctionDef)) or fn.name in ("__new__", "__init_subclass__", "__prepare__"):
                continue
            if not any(isinstance(a, ast.Name) and a.id == "cls" for a in ast.walk(fn)):
                continue
            alias = {}
            for st in ast.walk(fn):
                if isinstance(st, ast.Assign) and len(st.targets) == 1 and isinstance(st.targets[0], ast.Name):
                    vals = st.value.values if isinstance(st.value, ast.BoolOp) else \
                        [st.value.body, st.value.orelse] if isinstance(st.value, ast.IfExp) else [st.value]
                    for v in vals:
                        if isinstance(v, ast.Attribute) and isinstance(v.value, ast.Name) and v.value.id == "cls":
                            alias[st.targets[0].id] = unparse(st.value)
            n += 1
            bad = []
            for x in ast.walk(fn):
                tgts = []
                if isinstance(x, ast.Call) and isinstance(x.func, ast.Attribute) and x.func.attr in MUT:
                    tgts.append(x.func.value)
                if isinstance(x, (ast.Assign, ast.Delete)):
                    tgts += [t.value for t in x.targets if isinstance(t, ast.Subscript)]
                if isinstance(x, ast.AugAssign):
                    tgts.append(x.target.value if isinstance(x.target, ast.Subscript) else x.target)
                for t in tgts:
                    if isinstance(t, ast.Name) and t.id in alias:
                        bad.append(f"`{unparse(x)[:60]}` with {t.id} = {alias[t.id]}")
                    elif isinstance(t, ast.Attribute) and isinstance(t.value, ast.Name) and t.value.id == "cls":
                        bad.append(f"`{unparse(x)[:60]}`")
            ctx.check(not bad, R, f"{mod.qualname_of(fn)}:class-state-read-only", "class-level tables are not updated in place",
                      f"{mod.qualname_of(fn)} updates class-level state in place: {bad}; every later constant or signal of the class "
                      f"inherits the values of this call instead of the declared defaults (copy first)", f"{rel}:{fn.lineno}")
    need(n >= 4, f"only {n} functions using `cls` found in lib/data.py and lib/enum.py")


RULES = [("R-15g", r15g), ("R-15f", r15f), ("R-15e", r15e), ("R-15a", r15a), ("R-15b", r15b), ("R-15c", r15c), ("R-15d", r15d),
         ("R-02e", c02.r02e), ("R-02g", c02.r02g)]
