"""C01 — operators compute exact results in shapes that never overflow (structural necessary conditions)."""
import ast
from ..engine.core import AnalysisError, need
from ..engine.astutil import (dispatch_leaves, select_leaf, template_of, const_str, const_int, dotted, unparse,
                              names_in, is_rejection, pmatch, pat, find_matches, last_name, walk_no_nested, dump)
from ..engine.symx import run_paths, subst
from . import interp
from .interp import AST_PY, PYRTL, PYEVAL, BIN_PY, CMP_PY, UN_PY, env_for, handled
from . import pyrtl_common

EXPLANATION = (
    "Static (ast-only) decision of structural necessary conditions of C01: (a) every operator the API can construct "
    "is handled, under the right arity, by Operator.shape, the compiling simulator and the testbench evaluator; "
    "(b) each is implemented with the Python operator of the same meaning on (left, right) in that order, with "
    "zero-guarded division; (c) in the Python code generator un-normalised operand text reaches generated code only "
    "through the enumerated masking idioms (taint rule); (d) the evaluator masks/sign-folds where Python's result "
    "can exceed the node's width; (e) the result-shape rules, summarised symbolically in max-plus normal form with "
    "signedness enumerated, equal the documented table; (f) Value dunder/reflected constructor tables; (g) the "
    "three pattern decoders agree; (h) concat accumulators use-then-increment from 0; (i,j) part-select constant "
    "folding and stride agreement; (k) sign-fold idiom uses one width. NOT decided: the arithmetic fact that the "
    "documented shapes contain the exact result (paper argument in DESIGN.md), value-level behaviour of derived "
    "operators (rotate/shift_left/abs/matches index arithmetic) beyond the listed structure."
)
ASSUMPTIONS = [
    "CPython ast parses /repo's source as the interpreter would",
    "reference tables (symbol -> Python operator; documented result shapes) frozen in sa/rules/c01.py and interp.py",
    "name-based resolution of helper lambdas and local aliases inside the anchor functions",
]

MIN_INSTANCES = {"R-01m": 21, "R-01i": 10, "R-01f": 70, "R-01e": 60, "R-01a": 60, "R-01b": 40, "R-01c": 30, "R-01d": 6, "R-01g": 3, "R-01h": 4}


# ----------------------------------------------------------------------------------------------- R-01a

def r01a(model, ctx):
    uni, nonlit = interp.operator_universe(model)
    need(len(uni) >= 20, f"operator universe shrank to {len(uni)} pairs")
    tables = {
        "Operator.shape": f"{AST_PY}::Operator.shape",
        "_RHSValueCompiler.on_Operator": f"{PYRTL}::_RHSValueCompiler.on_Operator",
        "eval_value": f"{PYEVAL}::eval_value",
    }
    for tname, ref in tables.items():
        fn, lvs = interp.leaves(model, ref)
        for (sym, arity), sites in sorted(uni.items()):
            lf = select_leaf(lvs, env_for(sym, arity))
            rel = ref.split("::")[0]
            ctx.check(handled(lf), "R-01a", f"{tname}:{sym}/{arity}",
                      f"handled at line {lf.lineno if lf else '?'}",
                      f"operator {sym!r} with {arity} operand(s) (constructed at {sites[0]}) falls through to the "
                      f"rejection tail of {tname}", f"{rel}:{lf.lineno if lf else fn.lineno}")
    ctx.note(f"operator universe: {sorted(uni)}; non-literal re-wrapping constructions: {nonlit}")


# ----------------------------------------------------------------------------------------------- R-01b

def _operand_names(leaf):
    """[name of operand0, name of operand1] from `lhs, rhs = value.operands` / `arg, = value.operands` /
    `op_a = eval_value(sim, value.operands[0])` in the leaf's prelude."""
    names = {}
    for s in leaf.prelude + leaf.body:
        if isinstance(s, ast.Assign) and len(s.targets) == 1:
            t, v = s.targets[0], s.value
            if isinstance(t, (ast.Tuple, ast.List)) and isinstance(v, ast.Attribute) and v.attr == "operands":
                for i, e in enumerate(t.elts):
                    if isinstance(e, ast.Name):
                        names[e.id] = i
            elif isinstance(t, ast.Name):
                m = pmatch("eval_value(_V_S, _V_X.operands[_V_N])", v) or pmatch("_V_X.operands[_V_N]", v)
                if m is not None and const_int(m["_V_N"]) is not None:
                    names[t.id] = const_int(m["_V_N"])
    return names


def _strip(e):
    return e


def _hole_operand(tmpl, node, opnames):
    """index of the operand a hole node (Name __Hn__) refers to, or None"""
    if not isinstance(node, ast.Name):
        return None
    h = tmpl.hole_by_name(node.id)
    if h is None:
        return None
    hit = [opnames[n] for n in names_in(h.expr) if n in opnames]
    return hit[0] if len(hit) == 1 else None


def _check_zero_guard_lambda(model, name, pyop):
    cls = model.cls(f"{PYRTL}::_ValueCompiler")
    helpers = model.class_assigns(cls).get("helpers")
    need(isinstance(helpers, ast.Dict), "_ValueCompiler.helpers is not a dict literal")
    for k, v in zip(helpers.keys, helpers.values):
        if const_str(k) == name:
            need(isinstance(v, ast.Lambda), f"helper {name} is not a lambda")
            params = [a.arg for a in v.args.args]
            need(len(params) == 2, f"helper {name} does not take two parameters")
            b = v.body
            ok = (isinstance(b, ast.IfExp) and pmatch(f"{params[1]} == 0", b.test) is not None
                  and const_int(b.body) == 0 and isinstance(b.orelse, ast.BinOp) and isinstance(b.orelse.op, pyop)
                  and dotted(b.orelse.left) == params[0] and dotted(b.orelse.right) == params[1])
            return ok, unparse(v), v.lineno
    raise AnalysisError(f"helper {name} not found in _ValueCompiler.helpers")


# which normaliser the code generator must apply to an operand before using it (value-preserving `sign` for
# everything whose result depends on the operand's numeric value; bit-pattern `mask` for pure bit-pattern operators)
NORMALISER = {("~", 1): {"mask"}, ("b", 1): {"mask", "sign"}, ("r|", 1): {"mask", "sign"}, ("r&", 1): {"mask"},
              ("r^", 1): {"mask"}, ("-", 1): {"sign"}}


def r01b(model, ctx):
    from ..engine.astutil import parse_guard, candidate_leaves
    uni, _ = interp.operator_universe(model)
    # ---- code generator
    fn = model.func(f"{PYRTL}::_RHSValueCompiler.on_Operator")
    lvs = dispatch_leaves(fn.body, guard=parse_guard)      # lenient: conditional handlers are kept as candidates
    for (sym, arity) in sorted(uni):
      for lf in candidate_leaves(lvs, env_for(sym, arity)):
        if not handled(lf):
            continue
        extra = [a[1] for a in lf.conds if a[0] == "unknown"]
        where = f"{PYRTL}:{lf.lineno}"
        cons = f"_RHSValueCompiler.on_Operator:{sym}/{arity}" + (f"@if {' and '.join(extra)}" if extra else "")
        opn = _operand_names(lf)
        ret = [s for s in lf.body if isinstance(s, ast.Return)]
        need(len(ret) == 1 and ret[0].value is not None, f"{where}: branch for {sym!r} is not a single return")
        rv = ret[0].value
        if sym in ("u", "s") and arity == 1:
            ok = isinstance(rv, ast.Call) and dotted(rv.func) == "self" and len(rv.args) == 1 and \
                 opn.get(dotted(rv.args[0])) == 0
            ctx.check(ok, "R-01b", cons, "returns the operand's code unchanged (reinterpretation only)",
                      f"{sym!r} must hand the operand's bit pattern on unchanged, found {unparse(rv)}", where)
            continue
        t = template_of(rv)
        need(t is not None, f"{where}: branch for {sym!r} does not return a template")
        subs = {h.idx: sym for h in t.holes if h.src.endswith(".operator")}
        try:
            e = ast.parse(t.text_with(subs).strip(), mode="eval").body
        except SyntaxError:
            e = None
        need(e is not None, f"{where}: generated code for {sym!r} is not an expression: {t.skeleton()!r}")
        H = lambda n: _hole_operand(t, n, opn)
        # normaliser discipline
        want_norm = NORMALISER.get((sym, arity), {"sign"})
        for h in t.holes:
            hit = [opn[n] for n in names_in(h.expr) if n in opn]
            if len(hit) == 1 and isinstance(h.expr, ast.Call):
                callee = (dotted(h.expr.func) or "").split(".")[-1]
                if callee in ("sign", "mask"):
                    ctx.check(callee in want_norm, "R-01b", cons + f":operand{hit[0]}:normaliser",
                              f"operand {hit[0]} normalised with {callee}()",
                              f"operator {sym!r} needs its operand {hit[0]} normalised with {'/'.join(sorted(want_norm))}() "
                              f"but the generated code uses {callee}(): mask() yields the unsigned bit pattern, sign() "
                              f"the numeric value in the operand's own shape (they differ for negative signed operands)",
                              where)
        ok, why = False, ""
        if arity == 2 and sym in BIN_PY and sym not in ("//", "%"):
            ok = isinstance(e, ast.BinOp) and isinstance(e.op, BIN_PY[sym]) and H(e.left) == 0 and H(e.right) == 1
            why = f"expected <operand0> {sym} <operand1>"
        elif arity == 2 and sym in ("//", "%"):
            helper = {"//": "zdiv", "%": "zmod"}[sym]
            ok = isinstance(e, ast.Call) and dotted(e.func) == helper and len(e.args) == 2 and \
                 H(e.args[0]) == 0 and H(e.args[1]) == 1
            why = f"expected {helper}(<operand0>, <operand1>)"
            if ok:
                lok, ltxt, lline = _check_zero_guard_lambda(model, helper, BIN_PY[sym])
                ctx.check(lok, "R-01b", f"_ValueCompiler.helpers:{helper}", ltxt,
                          f"helper {helper} must be `0 if rhs == 0 else lhs {sym} rhs`, found {ltxt}",
                          f"{PYRTL}:{lline}")
        elif arity == 2 and sym in CMP_PY:
            ok = isinstance(e, ast.Compare) and len(e.ops) == 1 and isinstance(e.ops[0], CMP_PY[sym]) and \
                 H(e.left) == 0 and H(e.comparators[0]) == 1
            why = f"expected <operand0> {sym} <operand1>"
        elif arity == 1 and sym in UN_PY:
            ok = isinstance(e, ast.UnaryOp) and isinstance(e.op, UN_PY[sym]) and H(e.operand) == 0
            why = f"expected {sym}<operand0>"
        elif arity == 1 and sym in ("b", "r|"):
            ok = (isinstance(e, ast.Call) and dotted(e.func) == "bool" and len(e.args) == 1 and H(e.args[0]) == 0) or \
                 (isinstance(e, ast.Compare) and len(e.ops) == 1 and isinstance(e.ops[0], ast.NotEq) and (
                     (const_int(e.left) == 0 and H(e.comparators[0]) == 0) or
                     (const_int(e.comparators[0]) == 0 and H(e.left) == 0)))
            why = "expected bool(<operand>) or <operand> != 0"
        elif arity == 1 and sym == "r&":
            ok = False
            if isinstance(e, ast.Compare) and len(e.ops) == 1 and isinstance(e.ops[0], ast.Eq):
                sides = [e.left, e.comparators[0]]
                for a, bb in (sides, sides[::-1]):
                    h = t.hole_by_name(a.id) if isinstance(a, ast.Name) else None
                    if h is not None and H(bb) == 0:
                        m = pmatch("(1 << len(_V_X)) - 1", h.expr)
                        if m is not None and opn.get(dotted(m["_V_X"])) == 0:
                            ok = True
            why = "expected ((1 << len(operand)) - 1) == <operand>"
        elif arity == 1 and sym == "r^":
            m = pmatch("format(_V_X, 'b').count('1') % 2", e)
            ok = m is not None and H(m["_V_X"]) == 0
            why = "expected popcount parity of <operand>"
        else:
            raise AnalysisError(f"{where}: no reference for operator {sym!r}/{arity}")
        ctx.check(ok, "R-01b", cons, f"generated code {t.skeleton()!r}",
                  f"generated code {t.skeleton()!r} does not implement {sym!r}: {why}", where)

    # ---- evaluator: specialise eval_value per operator and compare the residual with the reference semantics
    from . import evalspec
    for (sym, arity) in sorted(uni):
        if (sym, arity) in (("u", 1), ("s", 1), ("~", 1)):
            continue      # decided by R-01d (masking / sign folding of the whole branch)
        fn, paths = evalspec.specialise_eval(model, "Operator", sym, arity)
        if not [p for p in paths if p.how != "raise"]:
            continue      # not handled at all: R-01a reports it
        refs = evalspec.EVAL_REF.get((sym, arity))
        if refs is None:
            raise AnalysisError(f"{PYEVAL}: no reference semantics for operator {sym!r}/{arity}")
        line = min(p.lineno for p in paths if p.how != "raise")
        evalspec.compare(model, ctx, "R-01b", f"eval_value:{sym}/{arity}", f"{PYEVAL}:{line}", paths, refs, evalspec.NAMES,
                         f"evaluator branch for {sym!r}")


# ----------------------------------------------------------------------------------------------- R-01c

VALUE_COMPILER_FUNCS = ["_RHSValueCompiler.sign", "_RHSValueCompiler.on_Operator", "_RHSValueCompiler.on_Slice",
                        "_RHSValueCompiler.on_Part", "_RHSValueCompiler.on_Concat",
                        "_RHSValueCompiler.on_SwitchValue", "_Compiler._emit_switch"]


def r01c(model, ctx):
    for ref in VALUE_COMPILER_FUNCS:
        facts, errors = pyrtl_common.analyse_function(model, ref, val_params=("test",))
        pyrtl_common.report(ctx, "R-01c", facts, errors)
    # every on_<Kind> of the RHS compiler that is not listed must not produce templates with raw holes unseen:
    cls = model.cls(f"{PYRTL}::_RHSValueCompiler")
    listed = {r.split(".")[1] for r in VALUE_COMPILER_FUNCS}
    for name, node in model.class_methods(cls).items():
        if name in listed or name in ("__init__", "on_Const", "on_Signal"):
            continue
        if name == "compile":
            callers = _callers_of_compile(model)
            if callers:
                facts, errors = pyrtl_common.analyse_function(model, f"_RHSValueCompiler.{name}")
                pyrtl_common.report(ctx, "R-01c", facts, errors)
            else:
                ctx.note("_RHSValueCompiler.compile has no caller in amaranth/ (dead code): exempt from R-01c")
            continue
        facts, errors = pyrtl_common.analyse_function(model, f"_RHSValueCompiler.{name}")
        pyrtl_common.report(ctx, "R-01c", facts, errors)
    # a part select shifts its operand right by a run-time amount that may pass the operand's MSB: what is read there are
    # sign bits (the evaluator shifts the signed Python value, `$shift` has A_SIGNED), so the operand must be sign-normalised;
    # masking it reads zeros instead
    fp = model.func(f"{PYRTL}::_RHSValueCompiler.on_Part")
    shifted = []
    import re as _re
    okp = True
    for node in ast.walk(fp):
        t = template_of(node) if isinstance(node, (ast.JoinedStr, ast.BinOp)) else None
        if t is None or ">>" not in t.skeleton():
            continue
        left = t.skeleton().split(">>")[0].rstrip()
        # the operand of >> is the maximal balanced suffix of what precedes it
        if left.endswith(")"):
            depth, k = 0, len(left)
            while k > 0:
                k -= 1
                depth += (left[k] == ")") - (left[k] == "(")
                if depth == 0:
                    break
            operand = left[k:]
        else:
            operand = _re.search(r"(\{\d+\})$", left).group(1) if _re.search(r"(\{\d+\})$", left) else left
        holes = [t.holes[int(n)] for n in _re.findall(r"\{(\d+)\}", operand)]
        if not any("value.value" in h.src for h in holes):
            continue
        shifted.append((operand, [h.src for h in holes]))
        okp = okp and _re.fullmatch(r"\{\d+\}", operand) is not None and holes[0].src == "self.sign(value.value)"
    need(shifted, "_RHSValueCompiler.on_Part: the `operand >> offset` template was not found")
    ctx.check(okp, "R-01c", "_RHSValueCompiler.on_Part:operand-sign", "the shifted operand is self.sign(value.value)",
              f"on_Part must shift the sign-normalised operand (self.sign(value.value)); found {shifted}: a "
              f"masked operand makes a select that reaches past the MSB of a negative signed value read zeros where the "
              f"evaluator and RTLIL read sign bits", f"{PYRTL}:{fp.lineno}")
    # on_Const / on_Signal produce normalised text by construction: Const.value and slot values are in range
    f = model.func(f"{PYRTL}::_RHSValueCompiler.on_Const")
    ok = any(isinstance(s, ast.Return) and template_of(s.value) is not None and
             [h.src for h in template_of(s.value).holes] == ["value.value"] for s in f.body)
    ctx.check(ok, "R-01c", "_RHSValueCompiler.on_Const", "emits Const.value (already normalised by Const.__init__)",
              "on_Const no longer emits value.value", f"{PYRTL}:{f.lineno}")


def _callers_of_compile(model):
    out = []
    for rel in model.all_files():
        m = model.mod(rel)
        for n in ast.walk(m.tree):
            if isinstance(n, ast.Call) and isinstance(n.func, ast.Attribute) and n.func.attr == "compile" \
                    and dotted(n.func.value) in ("_RHSValueCompiler", "_StatementCompiler", "cls"):
                out.append(f"{rel}:{n.lineno}")
    return out


# ----------------------------------------------------------------------------------------------- R-01d

def _mask_w(e):
    m = pmatch("(1 << _V_W) - 1", e)
    return None if m is None else m["_V_W"]


def r01d(model, ctx):
    fn, lvs = interp.leaves(model, f"{PYEVAL}::eval_value")
    R = "R-01d"

    def leaf_for(env):
        lf = select_leaf(lvs, env)
        need(handled(lf), f"eval_value has no branch for {env}")
        return lf

    from . import evalspec
    for sym, fact in (("~", "unsigned ~ masked to the node's width"), ("u", "masked to the node's width"),
                      ("s", "masked to the node's width and sign-folded at bit W-1")):
        fnn, paths = evalspec.specialise_eval(model, "Operator", sym, 1)
        need([p for p in paths if p.how != "raise"], f"eval_value has no branch for operator {sym!r}")
        line = min(p.lineno for p in paths if p.how != "raise")
        evalspec.compare(model, ctx, R, f"eval_value:{sym}", f"{PYEVAL}:{line}", paths, evalspec.EVAL_REF[(sym, 1)],
                         evalspec.NAMES, f"evaluator branch for {sym!r}")
    for kind in ("Slice", "Part"):
        fnn, paths = evalspec.specialise_eval(model, kind)
        need([p for p in paths if p.how != "raise"], f"eval_value has no branch for {kind}")
        line = min(p.lineno for p in paths if p.how != "raise")
        evalspec.compare(model, ctx, R, f"eval_value:{kind}", f"{PYEVAL}:{line}", paths, evalspec.KIND_REF[kind],
                         evalspec.NAMES, f"evaluator branch for {kind}")
    lf = leaf_for({"class": "Part"})
    # R-01j: the stride is applied exactly once (a residual with stride**2 or without stride differs from the reference
    # above; this instance keeps the separate rule id used by C04's sibling check)
    fnn, paths = evalspec.specialise_eval(model, "Part")
    live = [p for p in paths if p.how == "return" and p.ret is not None]
    n_stride = sum(1 for p in live for n in ast.walk(p.ret) if isinstance(n, ast.Attribute) and n.attr == "stride")
    ctx.check(len(live) == 1 and n_stride == 1, "R-01j", "eval_value:Part", "offset multiplied by stride exactly once",
              f"Part offset must be eval(offset) * stride, found {unparse(live[0].ret) if live else '-'}", f"{PYEVAL}:{lf.lineno}")

    # Concat: each part masked with its own width before being or-ed in at the running position
    lf = leaf_for({"class": "Concat"})
    loops = [s for s in lf.body if isinstance(s, ast.For)]
    need(len(loops) == 1, "eval_value Concat branch is not a single loop")
    body_paths = run_paths(loops[0].body)
    need(len(body_paths) == 1, "eval_value Concat loop body branches")
    env = body_paths[0].env
    res = env.get("res")
    ok = False
    if res is not None:
        from ..engine.bitalg import Canon
        cn = Canon(atom_hook=evalspec.width_sign_hook)
        want = ast.parse("res | ((eval_value(sim, part) & ((1 << len(part)) - 1)) << pos)", mode="eval").body
        ok = cn(res) == cn(want)
    ctx.check(ok, R, "eval_value:Concat", "res |= (eval(part) & mask(len(part))) << pos",
              f"Concat must or-in each part masked to its own width at the running offset; found res = "
              f"{unparse(res) if res is not None else '-'}", f"{PYEVAL}:{lf.lineno}")

    # arithmetic / comparison branches need no mask: their Python result is exact — nothing to check beyond R-01b.


# ----------------------------------------------------------------------------------------------- R-01g

def _charmap(e, var=None):
    """E5c: the map applied to each pattern character ('0','1','-') by a decoding expression, or None.
    Understands  "".join(A if b == "-" else B for b in pattern)  and  "0" + pattern.replace(x, y).replace(...)"""
    m = pmatch('"".join(_V_GEN)', e)
    if m is not None and isinstance(m["_V_GEN"], ast.GeneratorExp) and len(m["_V_GEN"].generators) == 1:
        g = m["_V_GEN"]
        v = g.generators[0].target
        if not isinstance(v, ast.Name) or g.generators[0].ifs:
            return None
        out = {}
        for ch in "01-":
            r = _eval_char(g.elt, v.id, ch)
            if r is None:
                return None
            out[ch] = r
        return out
    if isinstance(e, ast.BinOp) and isinstance(e.op, ast.Add) and const_str(e.left) in ("0", ""):
        return _charmap(e.right)
    # replace chain
    chain = []
    cur = e
    while isinstance(cur, ast.Call) and isinstance(cur.func, ast.Attribute) and cur.func.attr == "replace" \
            and len(cur.args) == 2 and const_str(cur.args[0]) is not None and const_str(cur.args[1]) is not None:
        chain.append((const_str(cur.args[0]), const_str(cur.args[1])))
        cur = cur.func.value
    if isinstance(cur, ast.Name) and (chain or True):
        out = {ch: ch for ch in "01-"}
        for a, b in reversed(chain):
            if len(a) != 1 or len(b) != 1:
                return None
            out = {k: (b if v == a else v) for k, v in out.items()}
        return out
    return None


def _eval_char(e, var, ch):
    if const_str(e) is not None:
        return const_str(e)
    if isinstance(e, ast.Name) and e.id == var:
        return ch
    if isinstance(e, ast.IfExp):
        t = e.test
        if isinstance(t, ast.Compare) and len(t.ops) == 1 and isinstance(t.left, ast.Name) and t.left.id == var \
                and const_str(t.comparators[0]) is not None:
            eq = ch == const_str(t.comparators[0])
            if isinstance(t.ops[0], ast.NotEq):
                eq = not eq
            elif not isinstance(t.ops[0], ast.Eq):
                return None
            return _eval_char(e.body if eq else e.orelse, var, ch)
    return None


MASK_MAP = {"0": "1", "1": "1", "-": "0"}
VALUE_MAP = {"0": "0", "1": "1", "-": "0"}


def _pattern_decode(fn_node):
    """All character maps of `int(<decoding>, 2)` expressions in a function."""
    maps = []
    for n in ast.walk(fn_node):
        m = pmatch("int(_V_E, 2)", n)
        if m is None:
            continue
        cm = _charmap(m["_V_E"])
        if cm is not None:
            maps.append(cm)
    return maps


def r01g(model, ctx):
    sites = [
        ("_Compiler._emit_switch", f"{PYRTL}::_Compiler._emit_switch", PYRTL),
        ("_eval_matches", f"{PYEVAL}::_eval_matches", PYEVAL),
        ("Value.matches", f"{AST_PY}::Value.matches", AST_PY),
    ]
    from ..engine.inline import reachable_helpers
    from ..engine.astutil import parent_map
    for name, ref, rel in sites:
        fn0 = model.func(ref)
        # the decoder may live in helpers of the same class/module (extract-method): look at fn and what it calls
        fn = ast.Module(body=reachable_helpers(model, ref), type_ignores=[])
        fn.lineno = fn0.lineno
        pm = parent_map(fn)
        maps = _pattern_decode(fn)
        mask_ok = MASK_MAP in maps
        val_ok = VALUE_MAP in maps
        extra = [m for m in maps if m not in (MASK_MAP, VALUE_MAP, {"0": "0", "1": "1", "-": "-"})]
        cmp_ok = False
        for n in ast.walk(fn):
            if isinstance(n, ast.Compare) and (pmatch("value == (mask & test)", n) is not None
                                               or pmatch("(self & mask) == pattern", n) is not None):
                cmp_ok = True
            t = template_of(n) if isinstance(n, ast.JoinedStr) else None
            if t is not None and [h.src for h in t.holes] == ["value", "mask", "test"]:
                e = t.as_expr()
                if e is not None and pmatch("__H0__ == (__H1__ & __H2__)", e) is not None:
                    cmp_ok = True
        # empty-pattern safety (zero-width selectors produce the pattern ""): int("", 2) raises ValueError
        mod = model.mod(rel)
        for n in ast.walk(fn):
            m = pmatch("int(_V_E, 2)", n)
            if m is None:
                continue
            e = m["_V_E"]
            safe = (isinstance(e, ast.BinOp) and isinstance(e.op, ast.Add) and const_str(e.left) == "0") or \
                   (isinstance(e, ast.BoolOp) and isinstance(e.op, ast.Or) and const_str(e.values[-1]) == "0")
            p = pm.get(n)
            while not safe and p is not None and p is not fn:
                if isinstance(p, ast.If) and pmatch('"-" in pattern', p.test) is not None and \
                        any(n is x for s_ in p.body for x in ast.walk(s_)):
                    safe = True
                p = pm.get(p)
            ctx.check(safe, "R-01g", f"{name}:empty-pattern:{unparse(e)[:50]}",
                      "int(.., 2) argument cannot be the empty string",
                      f"`int({unparse(e)}, 2)` raises ValueError for the empty pattern that a zero-width selector "
                      f"produces; the sibling decoders guard this with `\"0\" + ...` / `pattern or \"0\"` / "
                      f"a `\"-\" in pattern` test", f"{rel}:{n.lineno}")
        if name == "Value.matches":
            # every comparison built for a *string* pattern must mask the value (a bare `self == int` compares a signed
            # value numerically with an unsigned pattern)
            for br in ast.walk(fn):
                if isinstance(br, ast.If) and pmatch("isinstance(pattern, str)", br.test) is not None:
                    for n in ast.walk(ast.Module(body=br.body, type_ignores=[])):
                        if isinstance(n, ast.Call) and unparse(n.func) == "matches.append" and len(n.args) == 1:
                            okm = pmatch("(self & _V_M) == _V_P", n.args[0]) is not None
                            ctx.check(okm, "R-01g", f"Value.matches:str-pattern:{unparse(n.args[0])[:40]}",
                                      "(self & mask) == pattern",
                                      f"a string pattern must be matched as (self & mask) == value; found "
                                      f"{unparse(n.args[0])}: comparing a signed value directly with the unsigned "
                                      f"integer of the pattern never matches patterns whose MSB is 1", f"{rel}:{n.lineno}")
        ctx.check(mask_ok and val_ok and cmp_ok and not extra, "R-01g", name,
                  "'-'->(mask 0, value 0), '0'/'1'->(mask 1, value bit); test: value == (mask & test)",
                  f"pattern decoding deviates from ('-'->mask 0/value 0, '0'/'1'->mask 1/value bit; "
                  f"value == (mask & test)): mask map present={mask_ok}, value map present={val_ok}, "
                  f"comparison ok={cmp_ok}, maps found={maps}", f"{rel}:{fn.lineno}")


# ----------------------------------------------------------------------------------------------- R-01h

def _accumulator_loops(fn):
    """(loop, accumulator name, increment expr) for loops `for part in X.parts: ... acc += len(part)`-style."""
    out = []
    for loop in ast.walk(fn):
        if not isinstance(loop, ast.For):
            continue
        for s in loop.body:
            if isinstance(s, ast.AugAssign) and isinstance(s.op, ast.Add) and isinstance(s.target, ast.Name):
                out.append((loop, s.target.id, s))
    return out


def check_accumulator(ctx, rule, construct, mod_rel, fn, acc_names):
    """use-then-increment from 0: inside the loop every read of the accumulator precedes its `+=`,
    and the accumulator is initialised to 0 before the loop."""
    hits = [(loop, name, aug) for loop, name, aug in _accumulator_loops(fn) if name in acc_names]
    need(hits, f"{construct}: no accumulator loop over {acc_names} found")
    for loop, name, aug in hits:
        reads_after = []
        idx = loop.body.index(aug)
        for s in loop.body[idx + 1:]:
            for n in ast.walk(s):
                if isinstance(n, ast.Name) and n.id == name and isinstance(n.ctx, ast.Load):
                    reads_after.append(n.lineno)
        reads_before = [n.lineno for s in loop.body[:idx] for n in ast.walk(s)
                        if isinstance(n, ast.Name) and n.id == name and isinstance(n.ctx, ast.Load)]
        # initial value
        init0 = False
        parent_body = None
        for p in ast.walk(fn):
            for f in ("body", "orelse"):
                b = getattr(p, f, None)
                if isinstance(b, list) and loop in b:
                    parent_body = b
        if parent_body is not None:
            for s in parent_body[:parent_body.index(loop)]:
                if isinstance(s, ast.Assign) and any(isinstance(t, ast.Name) and t.id == name for t in s.targets) \
                        and const_int(s.value) == 0:
                    init0 = True
                if isinstance(s, ast.Assign) and isinstance(s.targets[0], ast.Name) and s.targets[0].id == name \
                        and const_int(s.value) != 0:
                    init0 = False
                if isinstance(s, ast.Assign) and isinstance(s.value, ast.Constant) and s.value.value == 0 and \
                        any(isinstance(t, ast.Name) and t.id == name for t in s.targets):
                    init0 = True
        ok = init0 and not reads_after and bool(reads_before)
        ctx.check(ok, rule, f"{construct}:{name}",
                  f"`{name}` starts at 0, is used (lines {reads_before}) before `{unparse(aug)}`",
                  f"concat accumulator `{name}` must start at 0 and be used before it is advanced "
                  f"(first argument occupies the low bits): init0={init0}, reads after increment at lines {reads_after}, "
                  f"reads before: {reads_before}", f"{mod_rel}:{loop.lineno}")


def r01h(model, ctx):
    for ref, rel, accs in [
        (f"{PYRTL}::_RHSValueCompiler.on_Concat", PYRTL, {"offset"}),
        (f"{PYRTL}::_LHSValueCompiler.on_Concat", PYRTL, {"offset"}),
        (f"{PYEVAL}::eval_value", PYEVAL, {"pos"}),
        (f"{AST_PY}::Const.cast", AST_PY, {"width"}),
    ]:
        fn = model.func(ref)
        check_accumulator(ctx, "R-01h", ref.split("::")[1], rel, fn, accs)
        # the increment must be the width of the part just placed
        for loop, name, aug in _accumulator_loops(fn):
            if name not in accs:
                continue
            # the step, with the loop body's locals substituted, must be the width of the part placed in this iteration
            from ..engine.norm import poly as _p, poly_sub as _ps
            tgt = unparse(loop.target)
            bp = run_paths(loop.body)
            v = unparse(aug.value)
            ok = len(bp) >= 1
            for p_ in bp:
                e_ = p_.env.get(name)
                if e_ is None:
                    ok = False
                    continue
                step = _ps(_p(e_), _p(ast.Name(id=name, ctx=ast.Load())))
                atoms = list(step.items())
                ok = ok and len(atoms) == 1 and atoms[0][1] == 1 and len(atoms[0][0]) == 1 and \
                    atoms[0][0][0] in (f"len({tgt})", f"len(Const.cast({tgt}))")
                v = unparse(e_)
            ctx.check(ok, "R-01h", f"{ref.split('::')[1]}:{name}:step", f"advances by {v}",
                      f"accumulator `{name}` advances by {v}, expected the width of the part just placed",
                      f"{rel}:{aug.lineno}")


# ----------------------------------------------------------------------------------------------- R-01e

def _ref_shape(sym, arity, a, b, sa, sb):
    """documented result shapes (docs/reference: Value.__add__ ... docstrings), as max-plus terms"""
    from ..engine.norm import MP
    def unify():
        if not sa and not sb:
            return a.max(b), False
        return (a + (0 if sa else 1)).max(b + (0 if sb else 1)), True
    if arity == 1:
        return {"~": (a, sa), "+": (a, sa), "-": (a + 1, True), "b": (MP.const(1), False), "r|": (MP.const(1), False),
                "r&": (MP.const(1), False), "r^": (MP.const(1), False), "u": (a, False), "s": (a, True)}[sym]
    if sym == "+":
        w, s_ = unify()
        return w + 1, s_
    if sym == "-":
        w, s_ = unify()
        return w + 1, True
    if sym == "*":
        return a + b, sa or sb
    if sym == "//":
        return a + (1 if sb else 0), sa or sb
    if sym == "%":
        return b, sb
    if sym in ("==", "!=", "<", "<=", ">", ">="):
        return MP.const(1), False
    if sym in ("&", "|", "^"):
        return unify()
    if sym == "<<":
        return a + MP.sym("2**b") - 1, sa
    if sym == ">>":
        return a, sa
    raise AnalysisError(f"no documented shape for {sym!r}/{arity}")


def check_unify(model, ctx, rule, construct, qual="Shape._unify", wrap=None, hooks=None):
    """Shape._unify (or another shape-unifying function `qual`) decided by partial evaluation: for every signedness pattern
    of 0..3 input shapes with symbolic widths the result is unsigned(max(widths)) when no input is signed, else
    signed(max(signed widths, unsigned widths + 1)).  wrap(ShapeV) builds the element the function iterates over."""
    from itertools import product
    from ..engine.norm import MP
    from ..engine.shapeeval import ShapeEval, ShapeV
    fu = model.func(f"{AST_PY}::{qual}")

    def lookup(q):
        try:
            return model.func(f"{AST_PY}::{q}")
        except AnalysisError:
            return None
    bad = []
    n = 0
    for k in range(0, 4):
        for signs in product([False, True], repeat=k):
            syms = [MP.sym(f"w{i}") for i in range(k)]
            ops = [ShapeV(w, sg) for w, sg in zip(syms, signs)]
            lower = {f"w{i}": (1 if sg else 0) for i, sg in enumerate(signs)}
            got = ShapeEval({}, lookup=lookup, self_class="Shape", hooks=hooks).call(fu, [[wrap(o) for o in ops] if wrap else ops])
            need(isinstance(got, ShapeV), f"{qual} returned {got!r}")
            if not any(signs):
                want_w, want_s = MP.const(0), False
                for w in syms:
                    want_w = want_w.max(w)
            else:
                want_w, want_s = None, True
                for w, sg in zip(syms, signs):
                    t = w if sg else w + 1
                    want_w = t if want_w is None else want_w.max(t)
            n += 1
            if got.signed != want_s or got.width.key(lower) != want_w.key(lower):
                bad.append((signs, repr(got), want_w.prune(lower).text()))
    ctx.check(not bad, rule, construct, f"{n} signedness patterns: all unsigned -> max; otherwise signed(max(signed, unsigned + 1))",
              f"{qual} must give unsigned(max) for all-unsigned inputs and signed(max(signed_width, unsigned_width + 1)) "
              f"otherwise; for input signedness {bad[0][0] if bad else ''} it gives {bad[0][1] if bad else ''}, expected width "
              f"{bad[0][2] if bad else ''}", f"{AST_PY}:{fu.lineno}")


def r01e(model, ctx):
    from itertools import product
    from ..engine.norm import MP
    from ..engine.shapeeval import ShapeEval, ShapeV, _Raise
    R = "R-01e"
    shape_fn = model.func(f"{AST_PY}::Operator.shape")
    funcs = {"Shape._unify": model.func(f"{AST_PY}::Shape._unify")}

    def lookup(q):
        try:
            return model.func(f"{AST_PY}::{q}")
        except AnalysisError:
            return None
    uni, _ = interp.operator_universe(model)
    keys = sorted(set(uni) | {("+", 1)})
    n = 0
    for sym, arity in keys:
        for signs in product([False, True], repeat=arity):
            if sym in ("<<", ">>") and signs[1]:
                continue      # shift amounts are unsigned (constructor raises / asserts)
            a, b = MP.sym("a"), MP.sym("b")
            ops = [ShapeV(a, signs[0])] + ([ShapeV(b, signs[1])] if arity == 2 else [])
            lower = {"a": 1 if signs[0] else 0, "b": (1 if signs[1] else 0) if arity == 2 else 0, "2**b": 1}
            ev = ShapeEval(dict(funcs), lookup=lookup, self_class="Operator")
            where = f"{AST_PY}:{shape_fn.lineno}"
            cons = f"Operator.shape:{sym}/{arity}:{''.join('s' if x else 'u' for x in signs)}"
            try:
                got = ev.call(shape_fn, [], selfobj={"operator": sym, "operands": ops, "_operator": sym, "_operands": ops})
            except _Raise:
                if (sym, arity) == ("+", 1):
                    continue
                ctx.viol(R, cons, f"Operator.shape raises for {sym!r} with {arity} operand(s)", where)
                continue
            need(isinstance(got, ShapeV), f"Operator.shape returned {got!r} for {cons}")
            rw, rs = _ref_shape(sym, arity, a, b, signs[0], signs[1] if arity == 2 else False)
            ok = got.signed == rs and got.width.key(lower) == rw.key(lower)
            n += 1
            ctx.check(ok, R, cons, f"{got!r}",
                      f"Operator.shape gives {got!r} for operator {sym!r} on "
                      f"({'signed' if signs[0] else 'unsigned'}(a)" + (f", {'signed' if signs[1] else 'unsigned'}(b))" if arity == 2 else ")") +
                      f"; the documented shape is {'signed' if rs else 'unsigned'}({rw.prune(lower).text()}) — a narrower shape cannot "
                      f"hold the exact result, a wider/differently signed one changes every downstream width", where)
    need(n >= 60, f"only {n} (operator, signedness) cases evaluated")
    # shapes of the non-operator value kinds
    SIMPLE = {"Slice.shape": "Shape(self.stop - self.start)", "Part.shape": "Shape(self.width)",
              "Concat.shape": "Shape(sum((len(part) for part in self.parts)))",
              "SwitchValue.shape": "Shape._unify((value.shape() for (_patterns, value) in self._cases))"}
    for q, exp in SIMPLE.items():
        f = model.func(f"{AST_PY}::{q}")
        got = [unparse(s_.value) for s_ in f.body if isinstance(s_, ast.Return)]
        got = [g.replace("for _patterns, value in", "for (_patterns, value) in") for g in got]
        ctx.check(got == [exp], R, q, exp, f"{q} must be `{exp}` (unsigned, exactly the selected/concatenated/unified width); found {got}",
                  f"{AST_PY}:{f.lineno}")
    f = model.func(f"{AST_PY}::ArrayProxy.shape")
    t = unparse(f)
    ok = "Shape._unify" in t and "elem" in t
    ctx.check(ok, R, "ArrayProxy.shape", "unification of the element shapes", "ArrayProxy.shape must unify the shapes of its elements",
              f"{AST_PY}:{f.lineno}")


# ----------------------------------------------------------------------------------------------- R-01f

FWD = {"__add__": "+", "__sub__": "-", "__mul__": "*", "__floordiv__": "//", "__mod__": "%", "__eq__": "==", "__ne__": "!=",
       "__lt__": "<", "__le__": "<=", "__gt__": ">", "__ge__": ">=", "__and__": "&", "__or__": "|", "__xor__": "^",
       "__lshift__": "<<", "__rshift__": ">>"}
REFL = {"__radd__": "+", "__rsub__": "-", "__rmul__": "*", "__rfloordiv__": "//", "__rmod__": "%", "__rand__": "&", "__ror__": "|",
        "__rxor__": "^", "__rlshift__": "<<", "__rrshift__": ">>"}
UNARY = {"__neg__": "-", "__invert__": "~", "bool": "b", "any": "r|", "all": "r&", "xor": "r^", "as_unsigned": "u", "as_signed": "s"}
# the method a ValueCastable may implement to override a forward method (Python's reflected-operand protocol)
OVERRIDE = {"__add__": "__radd__", "__sub__": "__rsub__", "__mul__": "__rmul__", "__floordiv__": "__rfloordiv__", "__mod__": "__rmod__",
            "__eq__": "__eq__", "__ne__": "__ne__", "__lt__": "__gt__", "__le__": "__ge__", "__gt__": "__lt__", "__ge__": "__le__",
            "__and__": "__rand__", "__or__": "__ror__", "__xor__": "__rxor__", "__lshift__": "__rlshift__", "__rshift__": "__rrshift__"}


def r01f(model, ctx):
    R = "R-01f"
    c = model.cls(f"{AST_PY}::Value")
    ms = model.class_methods(c)
    for table, order, kind in ((FWD, ["self", "other"], "forward"), (REFL, ["other", "self"], "reflected"), (UNARY, ["self"], "unary")):
        for name, sym in table.items():
            fn = ms.get(name)
            need(fn is not None, f"Value.{name} not found")
            rets = [s_ for s_ in ast.walk(fn) if isinstance(s_, ast.Return) and isinstance(s_.value, ast.Call) and dotted(s_.value.func) == "Operator"]
            ok = len(rets) == 1
            got = unparse(rets[0].value) if rets else "-"
            if ok:
                call = rets[0].value
                ok = const_str(call.args[0]) == sym and isinstance(call.args[1], ast.List) and [unparse(e) for e in call.args[1].elts] == order
            ctx.check(ok, R, f"Value.{name}", f"Operator({sym!r}, [{', '.join(order)}])",
                      f"Value.{name} must build Operator({sym!r}, [{', '.join(order)}]) ({kind}); found {got}", f"{AST_PY}:{fn.lineno}")
            if kind == "forward":
                decs = [d for d in fn.decorator_list if isinstance(d, ast.Call) and dotted(d.func) == "_overridable_by_reflected"]
                okd = len(decs) == 1 and const_str(decs[0].args[0]) == OVERRIDE[name]
                ctx.check(okd, R, f"Value.{name}:override", f"overridable by {OVERRIDE[name]}",
                          f"Value.{name} must defer to a ValueCastable's {OVERRIDE[name]} (the mirrored method: a < b is b > a); found "
                          f"{[unparse(d) for d in fn.decorator_list]}", f"{AST_PY}:{fn.lineno}")
    fo = model.func(f"{AST_PY}::_overridable_by_reflected.decorator.wrapper")
    t = unparse(fo)
    ok = "res = getattr(other, method_name)(self)" in t and "if res is not NotImplemented:\n            return res" in t.replace("\n", "\\n") or \
        ("res = getattr(other, method_name)(self)" in t and "return f(self, other)" in t)
    ctx.check(ok, R, "_overridable_by_reflected", "other.<reflected>(self) unless NotImplemented, else f(self, other)",
              "the override wrapper must call getattr(other, method_name)(self) and fall back to f(self, other)", f"{AST_PY}:{fo.lineno}")
    # ArrayProxy forwards every operator to the method of the same name
    ap = model.cls(f"{AST_PY}::ArrayProxy")
    n = 0
    for name, v in model.class_assigns(ap).items():
        if isinstance(v, ast.Call) and dotted(v.func) == "_proxy_value":
            n += 1
            ctx.check(const_str(v.args[0]) == name, R, f"ArrayProxy.{name}", "proxies the method of the same name",
                      f"ArrayProxy.{name} proxies Value.{const_str(v.args[0])}", f"{AST_PY}:{v.lineno}")
    need(n >= 40, f"only {n} ArrayProxy proxies found")
    missing = [k for k in list(FWD) + list(REFL) + list(UNARY) if k not in model.class_assigns(ap)]
    ctx.check(not missing, R, "ArrayProxy:coverage", "every operator method of Value is proxied",
              f"ArrayProxy does not proxy {missing}", f"{AST_PY}:{ap.lineno}")
    fp = model.func(f"{AST_PY}::_proxy_value.inner")
    ok = "return getattr(Value.cast(self), name)(*args, **kwargs)" in unparse(fp)
    ctx.check(ok, R, "_proxy_value", "getattr(Value.cast(self), name)(*args, **kwargs)", "_proxy_value must forward to the cast value",
              f"{AST_PY}:{fp.lineno}")


# ----------------------------------------------------------------------------------------------- R-01i

REF_SHIFT_LEFT = """
if not isinstance(amount, int):
    raise TypeError()
if amount < 0:
    return self.shift_right(-amount)
if self.shape().signed:
    return Cat(Const(0, amount), self).as_signed()
else:
    return Cat(Const(0, amount), self)
"""
REF_SHIFT_RIGHT = """
if not isinstance(amount, int):
    raise TypeError()
if amount < 0:
    return self.shift_left(-amount)
if self.shape().signed:
    if amount >= len(self):
        amount = len(self) - 1
    return self[amount:].as_signed()
else:
    return self[amount:]
"""
REF_SHIFT_RIGHT_MIN = """
if not isinstance(amount, int):
    raise TypeError()
if amount < 0:
    return self.shift_left(-amount)
if self.shape().signed:
    return self[min(amount, len(self) - 1):].as_signed()
else:
    return self[amount:]
"""


def evalspec_hook(e, canon):
    from .evalspec import width_sign_hook
    return width_sign_hook(e, canon)


def r01i(model, ctx):
    """derived operators: constant folding of part-selects, sign-preserving rewrites, rotate mirror symmetry"""
    from ..engine.norm import poly, poly_sub, poly_text
    from ..engine.symx import subst
    R = "R-01i"
    for meth, stride_src in (("bit_select", "1"), ("word_select", "width")):
        f = model.func(f"{AST_PY}::Value.{meth}")
        ifs = [s_ for s_ in f.body if isinstance(s_, ast.If) and "type(offset) is Const" in unparse(s_.test)]
        need(len(ifs) == 1, f"Value.{meth}: constant-offset shortcut not found")
        ret = ifs[0].body[-1]
        m = pmatch("self[_V_A:_V_B]", ret.value) if isinstance(ret, ast.Return) else None
        parts = [n for n in ast.walk(f) if isinstance(n, ast.Call) and dotted(n.func) == "Part"]
        ok = m is not None and len(parts) == 1
        if ok:
            kw = {k.arg: unparse(k.value) for k in parts[0].keywords}
            stride = kw.get("stride")
            okp = [unparse(a) for a in parts[0].args] == ["self", "offset", "width"] and stride == stride_src
            start, length = poly(m["_V_A"]), poly_sub(poly(m["_V_B"]), poly(m["_V_A"]))
            want_start = poly(ast.parse(f"offset.value * ({stride_src})", mode="eval").body)
            ok = okp and start == want_start and length == poly(ast.parse("width", mode="eval").body)
        ctx.check(ok, R, f"Value.{meth}:const-fold", f"constant offset k folds to self[k*{stride_src} : k*{stride_src} + width], same as Part(stride={stride_src})",
                  f"Value.{meth}: the constant-offset shortcut must select the window [offset*stride, +width) of the Part it replaces "
                  f"(stride={stride_src}); found {unparse(ret.value) if isinstance(ret, ast.Return) else '-'} vs "
                  f"{unparse(parts[0]) if parts else '-'}", f"{AST_PY}:{f.lineno}")
    # sign-preserving rewrites: signed branch == unsigned branch + .as_signed()
    for meth in ("shift_left", "shift_right"):
        f = model.func(f"{AST_PY}::Value.{meth}")
        ifs = [s_ for s_ in f.body if isinstance(s_, ast.If) and unparse(s_.test) == "self.shape().signed"]
        need(len(ifs) == 1, f"Value.{meth}: signedness split not found")
        rs = [x for x in ifs[0].body if isinstance(x, ast.Return)]
        ru = [x for x in ifs[0].orelse if isinstance(x, ast.Return)]
        ok = len(rs) == 1 and len(ru) == 1
        if ok:
            m = pmatch("_V_X.as_signed()", rs[0].value)
            ok = m is not None and dump(m["_V_X"]) == dump(ru[0].value)
            if not ok and m is not None:
                # the sign IS kept (as_signed() is applied); whether the construction underneath equals the unsigned branch's
                # is not decided here once the two are spelt differently (e.g. the clamp folded into the slice bound)
                need(False, f"Value.{meth}: signed branch `{unparse(rs[0].value)}` is not the unsigned branch's expression with "
                            f".as_signed(); equivalence of the two constructions is not decided")
        ctx.check(ok, R, f"Value.{meth}:sign", "signed result = unsigned construction reinterpreted with as_signed()",
                  f"Value.{meth}: the signed branch must be the unsigned branch's expression with .as_signed() (the sign must not "
                  f"be lost); found {unparse(rs[0].value) if rs else '-'} / {unparse(ru[0].value) if ru else '-'}", f"{AST_PY}:{f.lineno}")
    from ..engine import refsem
    for meth, refs, fact, why in [
        ("shift_left", [REF_SHIFT_LEFT], "Cat(Const(0, amount), self); negative amounts shift right",
         "shift_left must prepend `amount` zero bits below self and delegate negative amounts to shift_right."),
        ("shift_right", [REF_SHIFT_RIGHT, REF_SHIFT_RIGHT_MIN], "self[amount:]; a signed value keeps at least its sign bit",
         "shift_right must drop the low `amount` bits, clamping the amount to len-1 for signed values (the sign bit remains)."),
    ]:
        f, paths = refsem.method_paths(model, f"{AST_PY}::Value.{meth}", inline=False)
        refsem.compare(ctx, R, f"Value.{meth}", f"{AST_PY}:{f.lineno}", f"Value.{meth}", paths, refs, fact=fact, why=why,
                       hook=evalspec_hook)
    # rotates: mirror symmetry (rotate_left(n) == rotate_right(-n)) and the modulo reduction
    fl, fr = model.func(f"{AST_PY}::Value.rotate_left"), model.func(f"{AST_PY}::Value.rotate_right")
    rl = [x for x in fl.body if isinstance(x, ast.Return)][-1].value
    rr = [x for x in fr.body if isinstance(x, ast.Return)][-1].value
    neg = ast.UnaryOp(op=ast.USub(), operand=ast.Name(id="amount", ctx=ast.Load()))
    mirrored = subst(rr, {"amount": neg})
    ok = dump(mirrored) == dump(rl) and pmatch("Cat(self[amount:], self[:amount])", rr) is not None
    ctx.check(ok, R, "Value.rotate_left/right:mirror", "rotate_right = Cat(self[n:], self[:n]); rotate_left is its mirror image (n -> -n)",
              f"rotate_right must be Cat(self[amount:], self[:amount]) (the upper part moves to the bottom) and rotate_left the same "
              f"with -amount; found {unparse(rr)} / {unparse(rl)}", f"{AST_PY}:{fl.lineno}")
    for f in (fl, fr):
        t = unparse(f)
        ok = "if len(self) != 0:\n        amount %= len(self)" in t
        ctx.check(ok, R, f"Value.{f.name}:modulo", "amount reduced modulo len(self) (when non-empty)",
                  f"Value.{f.name} must reduce the amount modulo len(self) (guarding the empty value)", f"{AST_PY}:{f.lineno}")
    f = model.func(f"{AST_PY}::Value.__abs__")
    t = unparse(f)
    ok = "if self.shape().signed:\n        return Mux(self >= 0, self, -self)[:len(self)]\n    else:\n        return self" in t
    ctx.check(ok, R, "Value.__abs__", "signed: Mux(self >= 0, self, -self) truncated to len(self); unsigned: self",
              "abs must negate exactly when the value is negative and keep the operand's width", f"{AST_PY}:{f.lineno}")
    f = model.func(f"{AST_PY}::Value.replicate")
    ok = any(isinstance(x, ast.Return) and unparse(x.value) == "Cat((self for _ in range(count)))" for x in f.body)
    ctx.check(ok, R, "Value.replicate", "Cat(self for _ in range(count))", "replicate must concatenate `count` copies", f"{AST_PY}:{f.lineno}")
    f = model.func(f"{AST_PY}::Mux")
    ok = any(isinstance(x, ast.Return) and unparse(x.value) == "SwitchValue(sel, ((0, val0), (None, val1)), src_loc_at=1)" for x in f.body)
    ctx.check(ok, R, "Mux", "sel == 0 -> val0, otherwise val1", "Mux(sel, val1, val0) must choose val0 exactly when sel is zero", f"{AST_PY}:{f.lineno}")
    from ..engine import refsem as _rs
    f, paths = _rs.method_paths(model, f"{AST_PY}::Value.__getitem__", inline=False)
    _rs.compare(ctx, R, "Value.__getitem__", f"{AST_PY}:{f.lineno}", "Value.__getitem__", paths, [REF_VALUE_GETITEM],
                fact="int -> one-bit slice (negative indices wrap); slice -> Python slice semantics",
                why="indexing must follow Python sequence semantics: int k -> Slice(k, k+1) with negative wrap, slices via "
                    "key.indices(len): Slice(start, stop) or Cat over range(start, stop, step)")
    # Array indexing: ArrayProxy.as_value builds a SwitchValue over the elements in order
    f = model.func(f"{AST_PY}::ArrayProxy.as_value")
    t = unparse(f)
    ok = False
    for c in ast.walk(f):
        if isinstance(c, ast.Call) and dotted(c.func) == "SwitchValue" and len(c.args) >= 2 and \
                unparse(c.args[0]) == "self._index" and isinstance(c.args[1], ast.GeneratorExp):
            g = c.args[1]
            ok = len(g.generators) == 1 and unparse(g.generators[0].iter) == "enumerate(self._elems)" and \
                unparse(g.elt) == unparse(g.generators[0].target)
    ctx.check(ok, R, "ArrayProxy.as_value", "SwitchValue over (index, element) pairs in order", "array indexing must lower to a "
              "SwitchValue keyed by element index", f"{AST_PY}:{f.lineno}")


REF_VALUE_GETITEM = """
length = len(self)
if isinstance(key, int):
    if key not in range(-length, length):
        raise IndexError()
    if key < 0:
        key += length
    return Slice(self, key, key + 1, src_loc_at=1)
elif isinstance(key, slice):
    if isinstance(key.start, Value) or isinstance(key.stop, Value):
        raise TypeError()
    start, stop, step = key.indices(length)
    if step != 1:
        return Cat(self[i] for i in range(start, stop, step))
    return Slice(self, start, stop, src_loc_at=1)
elif isinstance(key, Value):
    raise TypeError()
else:
    raise TypeError()
"""


def r01m(model, ctx):
    """the default value/statement transformation every design passes through (Fragment.prepare -> DomainLowerer), casts and
    pattern normalisation: compared with their reference semantics (sa/refs/c01_xfrm.py, c01_ast.py) by path summary"""
    from .reflib import run_ref_file
    run_ref_file(model, ctx, "R-01m", "c01_xfrm")
    run_ref_file(model, ctx, "R-01m", "c01_ast", only=lambda r: "FSM" not in r)


RULES = [("R-01m", r01m), ("R-01i", r01i), ("R-01f", r01f), ("R-01e", r01e), ("R-01a", r01a), ("R-01b", r01b), ("R-01c", r01c), ("R-01d", r01d), ("R-01g", r01g), ("R-01h", r01h)]
