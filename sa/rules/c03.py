"""C03 — clock domains, resets and control inserters (structural necessary conditions)."""
import ast
from ..engine.core import AnalysisError, need
from ..engine.astutil import (dispatch_leaves, select_leaf, const_str, const_int, dotted, unparse, pmatch, str_elts,
                              walk_no_nested, find_matches, dump, names_in, template_of)
from ..engine.symx import run_paths
from ..engine.cfg import CFG
from . import interp
from .interp import IR, XFRM, PYRTL, handled

MEM = "amaranth/hdl/_mem.py"

EXPLANATION = (
    "Static (ast-only) decision of structural necessary conditions of C03: (a) wake-source discipline of the "
    "simulator's per-domain process: the clock waker takes its polarity from the domain's clk_edge, the only other "
    "wake source is the rising edge (literal polarity 1) of an async reset, and a process that can be woken without "
    "a clock edge must not execute clocked work unconditionally; (b) reset-less exclusion in the simulator reset "
    "block, the netlist driver emission and ResetInserter, and sync-vs-async reset selection; (c) every "
    "domain-bearing field (statements keys, ClockSignal/ResetSignal, memory port domains, RequirePosedge, "
    "domain_renames) is rewritten by DomainRenamer with a single simultaneous lookup, read by DomainCollector, and "
    "handled by the control inserters with a fresh per-domain mask collector; (d) FragmentTransformer copies every "
    "behaviour-bearing field of every Fragment subclass; (e) EnableInserter wraps the whole existing statement list "
    "and gates both memory port kinds. NOT decided: multi-clock interleaving behaviour."
)
ASSUMPTIONS = ["CPython ast parses /repo's source as the interpreter would",
               "Fragment subclasses and their behaviour-bearing fields are read from hdl/_ir.py and hdl/_mem.py on every run"]
MIN_INSTANCES = {"R-03i": 2, "R-03h": 5, "R-03g": 1, "R-03f": 2, "R-03a": 3, "R-03b": 4, "R-03c": 12, "R-03d": 12, "R-03e": 3}


def r03a(model, ctx):
    R = "R-03a"
    fn = model.func(f"{PYRTL}::_FragmentCompiler.__call__")
    mod = model.mod(PYRTL)
    cls = model.cls(f"{PYRTL}::_FragmentCompiler")
    wakers = []
    side = []   # edge wakers on other processes
    for meth in model.class_methods(cls).values():
        local = {unparse(s_.targets[0]): s_.value for s_ in ast.walk(meth) if isinstance(s_, ast.Assign) and len(s_.targets) == 1
                 and isinstance(s_.targets[0], ast.Name)}
        for n in ast.walk(meth):
            m0 = pmatch("self.state.add_signal_waker(_V_SIG, _V_W)", n)
            if m0 is None:
                continue
            wk = m0["_V_W"]
            if isinstance(wk, ast.Name) and wk.id in local:
                wk = local[wk.id]          # waker bound to a local first
            mw = pmatch("edge_waker(_V_PROC, _V_POL)", wk)
            if mw is None:
                continue
            m = {"_V_SIG": m0["_V_SIG"], "_V_PROC": mw["_V_PROC"], "_V_POL": mw["_V_POL"]}
            if unparse(m["_V_PROC"]) == "domain_process":
                wakers.append((n, unparse(m["_V_SIG"]), m["_V_POL"]))
            else:
                side.append((meth, n, unparse(m["_V_SIG"]), m["_V_POL"], unparse(m["_V_PROC"])))
    need(len(wakers) >= 1, "no edge_waker registration on the domain process found")
    for meth, n, sig, p, proc in side:
        # a dedicated asynchronous-reset process: woken by rising rst only, loads init into non-reset_less signals only
        created = any(isinstance(s_, ast.Assign) and unparse(s_.targets[0]) == proc and
                      pmatch("PyRTLProcess(is_comb=False)", s_.value) is not None for s_ in ast.walk(meth))
        tmpls = [(x, template_of(x.args[0])) for x in ast.walk(meth) if isinstance(x, ast.Call) and
                 isinstance(x.func, ast.Attribute) and x.func.attr == "append" and x.args and template_of(x.args[0]) is not None]
        sk = [t.skeleton() for _, t in tmpls]
        UPD = "slots[{0}].update({1}, {2})"
        only_reset = set(sk) <= {"def run():", "pass", UPD, "slots[{0}].update({1})"} and (UPD in sk or "slots[{0}].update({1})" in sk)
        guarded = True
        # the reset loads init through the mask of the bits this domain drives (the clocked process commits the same
        # signals with `slots[i].update(next_i, mask)`: an unmasked load would clobber bits owned by another domain and
        # make the result depend on which of the two processes runs last when rst rises together with a clock edge)
        masked = UPD in sk and "slots[{0}].update({1})" not in sk
        for x, t in tmpls:
            if t.skeleton() == UPD:
                loop = mod.parent(x)
                while loop is not None and not isinstance(loop, ast.For):
                    loop = mod.parent(loop)
                mvar = t.holes[2].src
                masked = masked and loop is not None and isinstance(loop.target, ast.Tuple) and len(loop.target.elts) == 2 and \
                    unparse(loop.target.elts[1]) == mvar and unparse(loop.iter).endswith(".masks()")
                # the same sign extension of the mask as the clocked commit
                ext = [y for y in ast.walk(loop) if isinstance(y, ast.If) and
                       unparse(y.test) == f"signal.shape().signed and {mvar} & 1 << len(signal) - 1" and
                       [unparse(z) for z in y.body] == [f"{mvar} |= -1 << len(signal)"]] if loop is not None else []
                commit_ext = [y for y in ast.walk(fn) if isinstance(y, ast.If) and
                              unparse(y.test) == "signal.shape().signed and mask & 1 << len(signal) - 1"]
                masked = masked and (bool(ext) == bool(commit_ext))
            if t.skeleton() in (UPD, "slots[{0}].update({1})"):
                ok_h = t.holes[1].src == "signal.init"
                q = mod.parent(x)
                g = False
                while q is not None and q is not meth:
                    if isinstance(q, ast.If) and unparse(q.test) == "not signal.reset_less":
                        g = True
                    q = mod.parent(q)
                if not g:
                    # guard clause: `if signal.reset_less: continue` earlier in the body of the enclosing loop
                    lp_, child = mod.parent(x), x
                    while lp_ is not None and not isinstance(lp_, ast.For):
                        lp_, child = mod.parent(lp_), lp_
                    if lp_ is not None and child in lp_.body:
                        for st in lp_.body[:lp_.body.index(child)]:
                            if isinstance(st, ast.If) and unparse(st.test) == "signal.reset_less" and not st.orelse and \
                                    len(st.body) == 1 and isinstance(st.body[0], ast.Continue):
                                g = True
                guarded = guarded and g and ok_h
        # call site guard
        calls = [c_ for c_ in ast.walk(fn) if isinstance(c_, ast.Call) and unparse(c_.func) == f"self.{meth.name}"]
        site_ok = len(calls) == 1
        if site_ok:
            q = mod.parent(calls[0])
            gt = ""
            while q is not None and q is not fn:
                if isinstance(q, ast.If):
                    gt += unparse(q.test) + " ; "
                q = mod.parent(q)
            site_ok = "domain.async_reset" in gt and "domain.rst is not None" in gt and \
                any(pmatch(f"processes.add(self.{meth.name}(_V_A, _V_B))", y) is not None for y in ast.walk(fn))
        # the collector handed to the reset process holds the domain's registers only (built from the statements; memory
        # read port outputs are not resettable: $memrd_v2 has no reset)
        regs_only = False
        for y in ast.walk(fn):
            mm = pmatch(f"processes.add(self.{meth.name}(_V_A, _V_B))", y)
            if mm is not None and isinstance(mm["_V_B"], ast.Name):
                cname = mm["_V_B"].id
                uses = [c_ for c_ in ast.walk(fn) if isinstance(c_, ast.Call) and isinstance(c_.func, ast.Attribute) and
                        isinstance(c_.func.value, ast.Name) and c_.func.value.id == cname]
                regs_only = bool(uses) and all(c_.func.attr == "visit_stmt" and [unparse(a) for a in c_.args] == ["domain_stmts"]
                                               for c_ in uses if c_.func.attr.startswith("visit"))
        ctx.check(masked, R, f"_FragmentCompiler:async-reset-process:{meth.name}:masked",
                  "loads init through the collector's mask (sign-extended like the clocked commit)",
                  f"the asynchronous-reset process must load signal.init with `slots[i].update(init, mask)` using the mask of the "
                  f"bits its domain drives (extended over the sign like the clocked commit): an unmasked load changes bits driven "
                  f"from another domain and, when rst rises together with a clock edge, the last process to run wins", f"{PYRTL}:{n.lineno}")
        ctx.check(regs_only, R, f"_FragmentCompiler:async-reset-process:{meth.name}:registers-only",
                  "the reset process is given the statement-driven bits only",
                  f"the collector handed to the asynchronous-reset process must be built from the domain's statements only "
                  f"(visit_stmt(domain_stmts)); memory read port outputs added with visit_value are not resettable, and "
                  f"resetting them races with the clocked read", f"{PYRTL}:{n.lineno}")
        ok = sig == "domain.rst" and const_int(p) == 1 and created and only_reset and guarded and site_ok
        ctx.check(ok, R, f"_FragmentCompiler:async-reset-process:{meth.name}",
                  "separate process, woken by rising rst only, loads init into non-reset_less signals only",
                  f"the asynchronous-reset process must be a dedicated PyRTLProcess woken only by the rising edge "
                  f"(literal 1) of domain.rst of an async_reset domain and must only load signal.init into signals that "
                  f"are not reset_less (sig={sig}, pol={unparse(p)}, created={created}, only-reset-code={only_reset}, "
                  f"reset_less-guard={guarded}, call-site-guard={site_ok})", f"{PYRTL}:{n.lineno}")
    binds = {unparse(s.targets[0]): s.value for s in ast.walk(fn) if isinstance(s, ast.Assign) and len(s.targets) == 1}
    clk = [w for w in wakers if w[1] == "domain.clk"]
    need(len(clk) == 1, "clock waker registration not unique")
    pol = clk[0][2]
    pol_e = binds.get(unparse(pol), pol)
    ok = pmatch('1 if domain.clk_edge == "pos" else 0', pol_e) is not None
    ctx.check(ok, R, "_FragmentCompiler:clk-waker-polarity", "polarity = 1 if clk_edge == 'pos' else 0",
              f"the clock waker must wake on the domain's active edge (1 if domain.clk_edge == 'pos' else 0); found "
              f"{unparse(pol_e)}", f"{PYRTL}:{clk[0][0].lineno}")
    others = [w for w in wakers if w[1] != "domain.clk"]
    for n, sig, p in others:
        guard = mod.parent(n)
        while guard is not None and not isinstance(guard, ast.If):
            guard = mod.parent(guard)
        gt = unparse(guard.test) if guard is not None else ""
        ok = sig == "domain.rst" and const_int(p) == 1 and "domain.async_reset" in gt and "domain.rst is not None" in gt
        ctx.check(ok, R, f"_FragmentCompiler:extra-waker:{sig}",
                  "only an async reset's rising edge (literal 1) is an additional wake source",
                  f"additional wake source {sig} with polarity {unparse(p)} under `{gt}`: the only legitimate extra "
                  f"wake-up is the rising edge (polarity 1, reset is active-high regardless of clk_edge) of the reset "
                  f"of an async_reset domain", f"{PYRTL}:{n.lineno}")
    # if the process has a second wake source, clocked work must be conditional on a clock wake-up
    if others:
        # statements are compiled unconditionally into run(): look for a generated guard around them
        stmt_calls = [n for n in ast.walk(fn) if isinstance(n, ast.Call) and isinstance(n.func, ast.Call)
                      and dotted(n.func.func) == "_StatementCompiler" and not n.func.keywords]
        need(len(stmt_calls) == 1, "sync statement compilation site not found")
        sc = stmt_calls[0]
        # is there an `emitter.append(f"if <clock-edge condition>:")` + indent around it?
        p = mod.parent(sc)
        guarded = False
        while p is not None and p is not fn:
            if isinstance(p, ast.With) and any("emitter.indent()" in unparse(it.context_expr) for it in p.items):
                guarded = True
            p = mod.parent(p)
        # or a separate process for the asynchronous reset (clock process woken by the clock only)
        ctx.check(guarded, R, "_FragmentCompiler:async-reset-runs-clocked-work",
                  "clocked work is emitted under a clock wake-up condition",
                  "in an async_reset domain the domain process is also woken by the rising edge of rst, and the same "
                  "run() body executes the user statements, memory writes and sync Print/Assert unconditionally: "
                  "reset-less registers, memory write ports and prints are clocked by the reset edge with the clock "
                  "idle", f"{PYRTL}:{sc.lineno}")
    # edge_waker: wakes iff next == polarity
    fe = model.func(f"{PYRTL}::edge_waker.waker")
    ifs = [s for s in fe.body if isinstance(s, ast.If)]
    # by path: the flag is set on exactly the paths where next == polarity holds, and every path returns True
    from ..engine.symx import run_paths as _rp
    ps = _rp(list(fe.body))
    ok = bool(ps)
    for p_ in ps:
        sets = any(isinstance(e, ast.Assign) and unparse(e.targets[0]) == "process.runnable" and unparse(e.value) == "True" for e in p_.effects)
        conds = {(unparse(t), pol) for t, pol in p_.conds_open()}
        eq = ("next == polarity", True) in conds or ("next != polarity", False) in conds or ("polarity == next", True) in conds
        ne = ("next == polarity", False) in conds or ("next != polarity", True) in conds or ("polarity == next", False) in conds
        need(eq or ne, f"edge_waker: unrecognised wake condition {sorted(conds)}")
        ok = ok and sets == eq and p_.how == "return" and p_.ret is not None and unparse(p_.ret) == "True"
    ctx.check(ok, R, "edge_waker", "wakes the process iff the new value equals the polarity; stays registered",
              "edge_waker must mark the process runnable exactly when next == polarity and return True", f"{PYRTL}:{fe.lineno}")
    # PyRTLProcess for a clocked domain is not initially runnable
    fr = model.func(f"{PYRTL}::PyRTLProcess.reset")
    ok = any(unparse(s) == "self.runnable = self.is_comb" for s in fr.body)
    ctx.check(ok, R, "PyRTLProcess.reset", "runnable initially only for comb processes",
              "a clocked process must not be runnable before its first clock edge (runnable = is_comb)", f"{PYRTL}:{fr.lineno}")
    hits = [n for n in ast.walk(fn) if pmatch('PyRTLProcess(is_comb=domain_name == "comb")', n) is not None]
    ctx.check(len(hits) == 1, R, "_FragmentCompiler:is_comb", "is_comb iff domain is 'comb'",
              "the domain process must be combinational exactly for the 'comb' domain", f"{PYRTL}:{fn.lineno}")


def r03b(model, ctx):
    R = "R-03b"
    fn = model.func(f"{PYRTL}::_FragmentCompiler.__call__")
    mod = model.mod(PYRTL)
    # reset block: `next_i = init` under `if not signal.reset_less` under `if {rst}:` under `if domain.rst is not None`
    found = False
    for n in ast.walk(fn):
        if isinstance(n, ast.If) and unparse(n.test) == "domain.rst is not None":
            for c in ast.walk(n):
                if isinstance(c, ast.If) and unparse(c.test) == "not signal.reset_less":
                    t = [template_of(x.args[0]) for x in ast.walk(c) if isinstance(x, ast.Call) and
                         isinstance(x.func, ast.Attribute) and x.func.attr == "append" and x.args]
                    if any(tt is not None and tt.skeleton() == "next_{0} = {1}" and tt.holes[1].src == "signal.init" for tt in t):
                        found = True
            # the rst test template
            tmpl = [template_of(x.args[0]) for x in ast.walk(n) if isinstance(x, ast.Call) and
                    isinstance(x.func, ast.Attribute) and x.func.attr == "append" and x.args]
            has_if = any(tt is not None and tt.skeleton() == "if {0}:" for tt in tmpl)
            found = found and has_if
    # the reset block loads registers only: the collector it walks is built from the domain's statements (memory read port
    # outputs, added to the commit collector with visit_value, have no reset: $memrd_v2 ties SRST/ARST to 0 and a disabled
    # port holds its output)
    regs_only = False
    for lp in ast.walk(fn):
        if isinstance(lp, ast.For) and unparse(lp.iter).endswith(".masks()") and isinstance(lp.iter, ast.Call) and \
                isinstance(lp.iter.func, ast.Attribute) and isinstance(lp.iter.func.value, ast.Name):
            tm = [template_of(x.args[0]) for x in ast.walk(lp) if isinstance(x, ast.Call) and isinstance(x.func, ast.Attribute)
                  and x.func.attr == "append" and x.args]
            if any(tt is not None and tt.skeleton() == "next_{0} = {1}" and tt.holes[1].src == "signal.init" for tt in tm):
                cname = lp.iter.func.value.id
                uses = [c_ for c_ in ast.walk(fn) if isinstance(c_, ast.Call) and isinstance(c_.func, ast.Attribute) and
                        isinstance(c_.func.value, ast.Name) and c_.func.value.id == cname and c_.func.attr.startswith("visit")]
                regs_only = bool(uses) and all(c_.func.attr == "visit_stmt" and [unparse(a) for a in c_.args] == ["domain_stmts"] for c_ in uses)
    ctx.check(regs_only, R, "_FragmentCompiler:reset-block:registers-only", "the reset block walks the statement-driven bits only",
              "the simulator's reset block must reset only the registers driven by the domain's statements: the collector it walks "
              "must not contain memory read port outputs (visit_value(port._data, ..)), which have no reset in the netlist and hold "
              "their value while the port is disabled", f"{PYRTL}:{fn.lineno}")
    ctx.check(found, R, "_FragmentCompiler:reset-block", "if rst: next_i = init for every non-reset_less signal",
              "the simulator's reset block must load signal.init under `if <rst>:` for exactly the signals that are not "
              "reset_less", f"{PYRTL}:{fn.lineno}")
    # netlist side, on the view of emit_drivers that is indifferent to helper extraction and hoisted conditions: the full
    # path condition (conjunction of the enclosing `if` tests) of the two reset constructs, as sets of conjuncts
    from ..engine.astutil import parent_map, path_condition
    from ..engine.bitalg import conjuncts
    fd = model.func_view(f"{IR}::NetlistEmitter.emit_drivers", depth=3)
    pm = parent_map(fd)

    def req(*srcs):
        return conjuncts([(ast.parse(x, mode="eval").body, True) for x in srcs])
    apps = [x for x in ast.walk(fd) if isinstance(x, ast.Expr) and isinstance(x.value, ast.Call) and
            unparse(x.value.func) == "driver.assignments.append"]
    need(len(apps) == 1, "emit_drivers: the synchronous reset assignment (driver.assignments.append) was not found")
    got = conjuncts(path_condition(pm, apps[0], fd))
    want = req("driver.domain is not None", "driver.domain.rst is not None", "not driver.domain.async_reset",
               "not driver.signal.reset_less")
    ctx.check(got == want, R, "emit_drivers:sync-reset", "appended iff domain has rst, is not async_reset and signal is not reset_less",
              "the synchronous reset assignment must be appended exactly when the domain has a reset, is not async_reset "
              "and the signal is not reset_less", f"{IR}:{fd.lineno}")
    arsts = [x for x in ast.walk(fd) if isinstance(x, ast.Assign) and unparse(x.targets[0]) in ("arst,", "(arst,)", "arst")]
    real = [x for x in arsts if unparse(x.value) == "self.emit_signal(driver.domain.rst)"]
    zero = [x for x in arsts if unparse(x.value) == "_nir.Net.from_const(0)"]
    need(len(arsts) == 2 and len(real) == 1 and len(zero) == 1,
         f"emit_drivers: the two assignments of the flip-flop's arst were not found ({[unparse(x) for x in arsts]})")
    got = conjuncts(path_condition(pm, real[0], fd))
    want = req("driver.domain is not None", "driver.domain.rst is not None", "driver.domain.async_reset", "not driver.signal.reset_less")
    # the constant-0 assignment is the other arm of the innermost test
    p_real, p_zero = path_condition(pm, real[0], fd), path_condition(pm, zero[0], fd)
    arms = len(p_real) == len(p_zero) and p_real[:-1] == p_zero[:-1] and p_real[-1][0] is p_zero[-1][0] and \
        p_real[-1][1] != p_zero[-1][1]
    ctx.check(got == want and arms, R, "emit_drivers:async-reset", "arst = domain.rst iff async_reset and not reset_less, else const 0",
              "the flip-flop's arst must be the domain's rst exactly when the domain is async_reset (with a reset) and the "
              "signal is not reset_less, and constant 0 otherwise", f"{IR}:{fd.lineno}")
    # the match on rst is for value 1
    ok = any(pmatch('self.emit_match(driver.module_idx, _nir.Net.from_const(1), self.emit_signal(driver.domain.rst), (("1",),), src_loc=_V_S)', n) is not None
             for n in ast.walk(fd))
    ctx.check(ok, R, "emit_drivers:reset-active-high", "reset condition is rst == 1",
              "the synchronous reset condition must be a match of the domain's rst against '1'", f"{IR}:{fd.lineno}")
    fr = model.func(f"{XFRM}::ResetInserter._insert_control")
    loops = [s for s in fr.body if isinstance(s, ast.For)]
    ok = len(loops) == 1 and isinstance(loops[0].body[0], ast.If) and unparse(loops[0].body[0].test) == "signal.reset_less" \
        and isinstance(loops[0].body[0].body[0], ast.Continue)
    ctx.check(ok, R, "ResetInserter:reset_less-skipped", "reset_less signals are skipped",
              "ResetInserter must skip reset_less signals", f"{XFRM}:{fr.lineno}")
    t = unparse(fr)
    ok = "signal.eq(Const(signal.init, signal.shape()))" in t and \
        "signal[start:stop].eq(Const(signal.init, signal.shape())[start:stop])" in t and \
        "Switch(self.controls[domain], [(1, stmts, None)]" in t and "fragment.add_statements(domain," in t
    ctx.check(ok, R, "ResetInserter:loads-init", "appends Switch(control, [(1, [sig.eq(init)...])]) after the statements",
              "ResetInserter must append (after the existing statements, so it wins) a Switch on the control whose case 1 "
              "loads signal.init into every driven chunk", f"{XFRM}:{fr.lineno}")


def control_inserter_paths(model):
    """path analysis of one iteration of _ControlInserter.on_fragment's loop over the fragment's (domain, statements):
    -> (every inserting path uses a collector created in that iteration and filled from that domain's statements,
        inserting paths are guarded by nothing but "controlled and not comb", description).
    Conditions this analysis does not know end the analysis (exit 2); conditions on the collector's or the statements'
    emptiness are the recognised mistake (a domain holding only Print/Assert is skipped)."""
    f = model.func(f"{XFRM}::_ControlInserter.on_fragment")
    loops = [s for s in f.body if isinstance(s, ast.For) and "fragment.statements" in unparse(s.iter)]
    need(len(loops) == 1, "_ControlInserter.on_fragment: the loop over fragment.statements was not found")
    lp = loops[0]
    names = [n.id for n in ast.walk(lp.target) if isinstance(n, ast.Name)]
    need(len(names) >= 1, "_ControlInserter.on_fragment: loop variables not recognised")
    dom = names[0]
    stm = names[1] if len(names) > 1 else None
    env = {}
    for st in f.body:
        if st is lp:
            break
        if isinstance(st, ast.Assign) and len(st.targets) == 1 and isinstance(st.targets[0], ast.Name) and \
                not (isinstance(st.value, ast.Call) and dotted(st.value.func) == "LHSMaskCollector"):
            env[st.targets[0].id] = st.value
    from ..engine.symx import run_paths
    paths = run_paths(list(lp.body), env=env)
    allowed = {(f"{dom} == 'comb' or {dom} not in self.controls", False), (f"{dom} == 'comb'", False),
               (f"{dom} not in self.controls", False), (f"{dom} in self.controls", True), (f"{dom} != 'comb'", True),
               (f"{dom} != 'comb' and {dom} in self.controls", True), (f"{dom} in self.controls and {dom} != 'comb'", True),
               (f"{dom} in self.controls.keys() - {{'comb'}}", True), (f"{dom} not in self.controls.keys() - {{'comb'}}", False),
               (f"{dom} not in self.controls or {dom} == 'comb'", False)}
    fresh_ok, skip_ok, how = True, True, []
    n_insert = 0
    for p in paths:
        calls = [e for e in p.effects if isinstance(e, ast.Call) and unparse(e.func) == "self._insert_control"]
        if not calls:
            continue
        n_insert += 1
        c = calls[0]
        arg = unparse(c.args[2]) if len(c.args) >= 3 else "?"
        visited = any(isinstance(e, ast.Call) and unparse(e.func) == "LHSMaskCollector().visit_stmt" and stm is not None and
                      [unparse(a) for a in e.args] == [stm] for e in p.effects[:p.effects.index(c)])
        this_fresh = len(c.args) >= 3 and unparse(c.args[1]) == dom and \
            arg == "LHSMaskCollector()" and visited
        if not this_fresh:
            # recognised mistakes: a collector that lives outside the iteration (a plain name), or not filled from `statements`
            need(isinstance(c.args[2] if len(c.args) >= 3 else None, ast.Name) or arg == "LHSMaskCollector()",
                 f"_ControlInserter.on_fragment: unrecognised collector argument `{arg}`")
            fresh_ok = False
            how.append(f"_insert_control(.., {arg}) visited={visited}")
        for t, pol in p.conds_open():
            key = (unparse(t), pol)
            if key in allowed:
                continue
            txt = unparse(t)
            if "lhs" in txt or (stm is not None and stm in txt) or "masks" in txt:
                skip_ok = False
                how.append(f"extra condition `{txt}` is {pol}")
            else:
                raise AnalysisError(f"_ControlInserter.on_fragment: unrecognised guard `{txt}` on the inserting path")
    need(n_insert >= 1, "_ControlInserter.on_fragment: no path calls _insert_control")
    return fresh_ok, skip_ok, "; ".join(how) or "fresh collector, guarded by controlled-and-not-comb only"


def r03c(model, ctx):
    R = "R-03c"
    # ---- DomainRenamer: every domain-bearing field rewritten, each with a single simultaneous lookup
    c = model.cls(f"{XFRM}::DomainRenamer")
    ms = model.class_methods(c)
    for meth in ("on_ClockSignal", "on_ResetSignal", "map_domains", "map_statements", "map_domain_renames",
                 "map_memory_ports", "on_fragment"):
        ctx.check(meth in ms, R, f"DomainRenamer.{meth}", "defined", f"DomainRenamer lacks {meth}: that domain-bearing "
                  f"field would keep its old domain", f"{XFRM}:{c.lineno}")
    for meth, cls_ in (("on_ClockSignal", "ClockSignal"), ("on_ResetSignal", "ResetSignal")):
        f = ms[meth]
        ok = any(isinstance(s, ast.If) and unparse(s.test) == "value.domain in self.domain_map" and
                 f"return {cls_}(self.domain_map[value.domain]" in unparse(s) for s in f.body) and \
            isinstance(f.body[-1], ast.Return) and unparse(f.body[-1].value) == "value"
        ctx.check(ok, R, f"DomainRenamer.{meth}:single-lookup", "renamed by one lookup of its own domain",
                  f"{meth} must return {cls_}(domain_map[value.domain]) iff its domain is in the map, else the value",
                  f"{XFRM}:{f.lineno}")
    if "on_ResetSignal" in ms:
        ok = "allow_reset_less=value.allow_reset_less" in unparse(ms["on_ResetSignal"])
        ctx.check(ok, R, "DomainRenamer.on_ResetSignal:keeps-allow_reset_less", "allow_reset_less preserved",
                  "renaming a ResetSignal must preserve allow_reset_less", f"{XFRM}:{ms['on_ResetSignal'].lineno}")
    f = ms["map_statements"]
    ok = any(pmatch("new_fragment.add_statements(self.domain_map.get(domain, domain), map(self.on_statement, statements))", n) is not None
             for n in ast.walk(f))
    ctx.check(ok, R, "DomainRenamer.map_statements", "statements move to domain_map.get(domain, domain), values rewritten",
              "map_statements must add each domain's statements under domain_map.get(domain, domain) with every statement "
              "passed through on_statement", f"{XFRM}:{f.lineno}")
    f = ms["map_memory_ports"]
    mod = model.mod(XFRM)
    assigns = [s for s in ast.walk(f) if isinstance(s, ast.Assign) and unparse(s.targets[0]) == "port._domain"]
    loops_ok = True
    kinds = set()
    for a in assigns:
        p = mod.parent(a)
        chain = []
        while p is not None and p is not f:
            if isinstance(p, ast.For):
                chain.append(unparse(p.iter))
            if isinstance(p, ast.If):
                chain.append("if " + unparse(p.test))
            p = mod.parent(p)
        for x in chain:
            if x.startswith("new_fragment._"):
                kinds.add(x)
        loops_ok = loops_ok and "if port._domain in self.domain_map" in chain and \
            not any("domain_map" in x and not x.startswith("if ") for x in chain) and \
            unparse(a.value) == "self.domain_map[port._domain]"
    ok = loops_ok and kinds == {"new_fragment._read_ports", "new_fragment._write_ports"} and \
        any(unparse(s) == "super().map_memory_ports(fragment, new_fragment)" for s in ast.walk(f) if isinstance(s, ast.Expr))
    ctx.check(ok, R, "DomainRenamer.map_memory_ports", "each read and write port renamed once: domain_map[port._domain]",
              "memory ports must be renamed simultaneously: for every read and write port, one lookup "
              "`port._domain = domain_map[port._domain]` if present — not a sequential loop over the map's entries "
              "(which re-renames ports when a target is also a source) — after the values were rewritten by super()",
              f"{XFRM}:{f.lineno}")
    f = ms["on_fragment"]
    ok = "isinstance(new_fragment, RequirePosedge) and new_fragment._domain in self.domain_map" in unparse(f) and \
        "new_fragment._domain = self.domain_map[new_fragment._domain]" in unparse(f)
    ctx.check(ok, R, "DomainRenamer.on_fragment:RequirePosedge", "RequirePosedge domain renamed",
              "RequirePosedge fragments must have their domain renamed", f"{XFRM}:{f.lineno}")
    f = ms["map_domain_renames"]
    ok = "self.domain_map.get(dst, dst)" in unparse(f) and "new_fragment.domain_renames[src] = dst" in unparse(f)
    ctx.check(ok, R, "DomainRenamer.map_domain_renames", "existing renames composed, new ones recorded",
              "domain_renames must compose existing renames with the map and record the new ones", f"{XFRM}:{f.lineno}")
    f = ms["map_domains"]
    ok = "cd.rename(self.domain_map[domain])" in unparse(f) and "new_fragment.add_domains(cd)" in unparse(f)
    ctx.check(ok, R, "DomainRenamer.map_domains", "defined ClockDomain objects renamed",
              "ClockDomain objects defined in the fragment must be renamed and re-added", f"{XFRM}:{f.lineno}")
    # bases: rewrites values inside statements and fragments
    ok = set(model.base_names(c)) >= {"FragmentTransformer", "ValueTransformer", "StatementTransformer"}
    ctx.check(ok, R, "DomainRenamer:bases", "is a Fragment+Value+Statement transformer",
              "DomainRenamer must transform fragments, statements and values", f"{XFRM}:{c.lineno}")

    # ---- DomainCollector.on_fragment reads every domain-bearing field
    f = model.func(f"{XFRM}::DomainCollector.on_fragment")
    t = unparse(f)
    iters = {unparse(n.iter) for n in ast.walk(f) if isinstance(n, ast.For)}
    tests = {unparse(n.test) for n in ast.walk(f) if isinstance(n, ast.If)}
    for what, present in [("read port domain", "fragment._read_ports" in iters), ("write port domain", "fragment._write_ports" in iters),
                          ("RequirePosedge", "isinstance(fragment, RequirePosedge)" in tests),
                          ("statement domains", "fragment.statements.items()" in iters),
                          ("subfragments", "fragment.subfragments" in iters)]:
        ctx.check(present, R, f"DomainCollector.on_fragment:{what}", "visited",
                  f"DomainCollector.on_fragment no longer visits {what}: a used domain would not be created/propagated",
                  f"{XFRM}:{f.lineno}")
    n_add = t.count("self._add_used_domain(port._domain)")
    ctx.check(n_add == 2 and "self._add_used_domain(fragment._domain)" in t and "self._add_used_domain(domain_name)" in t,
              R, "DomainCollector.on_fragment:adds", "used domains recorded for ports, RequirePosedge, statements",
              "every domain-bearing field must be recorded with _add_used_domain", f"{XFRM}:{f.lineno}")
    for meth in ("on_ClockSignal", "on_ResetSignal"):
        f2 = model.func(f"{XFRM}::DomainCollector.{meth}")
        ctx.check("self._add_used_domain(value.domain)" in unparse(f2), R, f"DomainCollector.{meth}", "records the domain",
                  f"DomainCollector.{meth} must record value.domain", f"{XFRM}:{f2.lineno}")

    # ---- control inserters: per-domain fresh mask collector, all statement domains, memory ports
    fresh_ok, skip_ok, how = control_inserter_paths(model)
    ctx.check(fresh_ok, R, "_ControlInserter.on_fragment", "fresh LHSMaskCollector per controlled domain",
              "for every controlled domain the inserter must build a *fresh* LHSMaskCollector from that domain's statements "
              f"(a collector shared across domains makes one domain's reset load another domain's registers) and call "
              f"_insert_control with it; found {how}", f"{XFRM}:{model.func(f'{XFRM}::_ControlInserter.on_fragment').lineno}")
    # sim: memory port domains are part of the compiled domain set
    fc = model.func(f"{PYRTL}::_FragmentCompiler.__call__")
    t = unparse(fc)
    ok = "domains = set(fragment.statements)" in t and t.count("domains.add(port._domain)") == 2
    ctx.check(ok, R, "_FragmentCompiler:memory-port-domains", "read and write port domains compiled",
              "the simulator must compile a process for every memory port domain (read and write ports)", f"{PYRTL}:{fc.lineno}")


def _init_fields(cls_node):
    out = []
    init = [n for n in cls_node.body if isinstance(n, ast.FunctionDef) and n.name == "__init__"]
    if not init:
        return out
    for s in ast.walk(init[0]):
        if isinstance(s, (ast.Assign, ast.AnnAssign)):
            ts = s.targets if isinstance(s, ast.Assign) else [s.target]
            for t in ts:
                if isinstance(t, ast.Attribute) and unparse(t.value) == "self":
                    out.append(t.attr)
    return out


def r03d(model, ctx):
    R = "R-03d"
    f = model.func(f"{XFRM}::FragmentTransformer.on_fragment")
    lvs = dispatch_leaves(f.body)
    # Fragment subclasses, read from the source
    subs = []
    for rel in (IR, MEM):
        for c in model.classes(rel):
            if "Fragment" in model.base_names(c):
                subs.append((rel, c))
    need(len(subs) >= 4, f"only {len(subs)} Fragment subclasses found")
    REQUIRED = {  # behaviour-bearing fields that must be carried over (how they appear in the branch)
        "Instance": ["fragment.type", "fragment.parameters", "self.map_ports(fragment, new_fragment)"],
        "IOBufferInstance": ["port=fragment.port", "fragment.i", "fragment.o", "fragment.oe"],
        "MemoryInstance": ["data=fragment._data", "attrs=fragment._attrs", "domain=port._domain", "addr=port._addr",
                           "data=port._data", "en=port._en", "transparent_for=port._transparent_for",
                           "for port in fragment._read_ports", "for port in fragment._write_ports",
                           "self.map_memory_ports(fragment, new_fragment)"],
        "RequirePosedge": ["RequirePosedge(fragment._domain"],
    }
    for rel, c in subs:
        lf = select_leaf(lvs, {"class": c.name})
        okb = handled(lf) and not any(a[0] == "not" for a in lf.conds[-1:]) if lf else False
        ctx.check(bool(lf) and any(a[0] == "isinstance" and c.name in a[2] for a in lf.conds), R,
                  f"FragmentTransformer.on_fragment:{c.name}", "has its own branch",
                  f"Fragment subclass {c.name} has no branch in FragmentTransformer.on_fragment: it would be rebuilt as a "
                  f"plain Fragment and lose its behaviour", f"{XFRM}:{f.lineno}")
        if lf is None or c.name not in REQUIRED:
            if c.name not in REQUIRED:
                raise AnalysisError(f"Fragment subclass {c.name} is not in the field table of rule R-03d")
            continue
        txt = "\n".join(unparse(s) for s in lf.body)
        for req in REQUIRED[c.name]:
            ctx.check(req in txt, R, f"FragmentTransformer.on_fragment:{c.name}:{req}", "carried over",
                      f"transforming a {c.name} drops `{req}`", f"{XFRM}:{lf.lineno}")
    t = unparse(f)
    for req in ["new_fragment.attrs = OrderedDict(fragment.attrs)", "self.map_subfragments(fragment, new_fragment)",
                "self.map_domains(fragment, new_fragment)", "self.map_statements(fragment, new_fragment)",
                "self.map_domain_renames(fragment, new_fragment)"]:
        ctx.check(req in t, R, f"FragmentTransformer.on_fragment:common:{req}", "applied to every fragment kind",
                  f"on_fragment no longer performs `{req}` for every fragment", f"{XFRM}:{f.lineno}")
    f2 = model.func(f"{XFRM}::FragmentTransformer.map_memory_ports")
    t = unparse(f2)
    ok = all(t.count(f"port._{a} = self.on_value(port._{a})") == 2 for a in ("en", "addr", "data"))
    ctx.check(ok, R, "FragmentTransformer.map_memory_ports", "en/addr/data of read and write ports rewritten",
              "map_memory_ports must rewrite en, addr and data of every read and write port", f"{XFRM}:{f2.lineno}")
    f3 = model.func(f"{XFRM}::FragmentTransformer.map_subfragments")
    ok = "new_fragment.add_subfragment(self(subfragment), name, src_loc=src_loc)" in unparse(f3)
    ctx.check(ok, R, "FragmentTransformer.map_subfragments", "recurses into every subfragment",
              "transformers must be applied to every subfragment", f"{XFRM}:{f3.lineno}")
    # TransformedElaboratable applies transforms in order
    f4 = model.func(f"{XFRM}::TransformedElaboratable.elaborate")
    ok = "for transform in self._transforms_:\n        fragment = transform(fragment)" in unparse(f4)
    ctx.check(ok, R, "TransformedElaboratable.elaborate", "transforms applied in the order they were added",
              "wrapped transforms must be applied in order to the elaborated fragment", f"{XFRM}:{f4.lineno}")


def r03e(model, ctx):
    R = "R-03e"
    f = model.func(f"{XFRM}::EnableInserter._insert_control")
    t = unparse(f)
    ok = "fragment.statements[domain] = _StatementList([Switch(self.controls[domain], [(1, fragment.statements[domain], None)]" in t
    ctx.check(ok, R, "EnableInserter._insert_control", "whole existing statement list wrapped in Switch(control, case 1)",
              "EnableInserter must replace the domain's statements by one Switch on the control whose case 1 holds the "
              "*whole* existing list (so inner resets are frozen too)", f"{XFRM}:{f.lineno}")
    f = model.func(f"{XFRM}::EnableInserter.on_fragment")
    t = unparse(f)
    ok = "for port in new_fragment._read_ports" in t and "port._en = port._en & self.controls[port._domain]" in t and \
        "for port in new_fragment._write_ports" in t and \
        "port._en = Mux(self.controls[port._domain], port._en, Const(0, len(port._en)))" in t and \
        t.count("if port._domain in self.controls") == 2
    ctx.check(ok, R, "EnableInserter.on_fragment:memory-ports", "read en and-ed, write en muxed to 0 when disabled",
              "EnableInserter must gate memory read ports (en & control) and write ports (Mux(control, en, 0)) of the "
              "controlled domains", f"{XFRM}:{f.lineno}")
    f = model.func(f"{XFRM}::_ControlInserter.__init__")
    ok = 'if "comb" in controls' in unparse(f).replace("'", '"') and "raise ValueError" in unparse(f)
    ctx.check(ok, R, "_ControlInserter.__init__", "comb cannot be controlled", "controls on 'comb' must be rejected",
              f"{XFRM}:{f.lineno}")


def r03f(model, ctx):
    """(1) LHSMaskCollector.chunks walks every bit position 0..len(signal)-1 of the mask (ResetInserter resets exactly the
    chunks it yields); (2) domain propagation never replaces a domain a subfragment defines itself."""
    R = "R-03f"
    f = model.func_view(f"{XFRM}::LHSMaskCollector.chunks")
    whiles = [w for w in ast.walk(f) if isinstance(w, ast.While)]
    fors = [w for w in ast.walk(f) if isinstance(w, ast.For) and "range(" in unparse(w.iter)]
    if len(whiles) == 2 and not fors:
        outer = [w for w in whiles if any(x is not w and isinstance(x, ast.While) for x in ast.walk(w))]
        need(len(outer) == 1, "LHSMaskCollector.chunks: nested scan loops not recognised")
        o = outer[0]
        inner = [x for x in ast.walk(o) if isinstance(x, ast.While) and x is not o][0]
        ot = unparse(o.test)
        it = unparse(inner.test)
        ok = ot == "start < len(signal)" and it.startswith("stop < len(signal) and ") and \
            any(unparse(x) == "stop = start" for x in ast.walk(o)) and any(unparse(x) == "start = stop" for x in ast.walk(o)) and \
            any(isinstance(x, ast.AugAssign) and unparse(x) == "start += 1" for x in ast.walk(o)) and \
            any(isinstance(x, ast.AugAssign) and unparse(x) == "stop += 1" for x in ast.walk(inner))
        how = f"outer `{ot}`, inner `{it}`"
    elif len(fors) == 1 and not whiles:
        # single scan with a sentinel position: range(len(signal) + 1)
        ok = unparse(fors[0].iter) in ("range(len(signal) + 1)", "range(0, len(signal) + 1)")
        how = f"scan over {unparse(fors[0].iter)}"
    else:
        raise AnalysisError("LHSMaskCollector.chunks: scan idiom not recognised")
    ctx.check(ok, R, "LHSMaskCollector.chunks:scan", "every bit position of the signal is examined; runs end at len(signal)",
              f"chunks() must scan positions 0..len(signal)-1 and close a run at len(signal) ({how}): a run that starts at the MSB "
              f"would otherwise not be yielded and ResetInserter would leave that bit un-reset", f"{XFRM}:{f.lineno}")
    fp = model.func(f"{IR}::Fragment._propagate_domains_down")
    adds = [x for x in ast.walk(fp) if isinstance(x, ast.Call) and unparse(x.func) == "subfrag.add_domains"]
    stores = [x for x in ast.walk(fp) if isinstance(x, (ast.Assign, ast.AugAssign)) and "subfrag.domains" in unparse(x.targets[0] if isinstance(x, ast.Assign) else x.target)]
    from ..engine.astutil import parent_map, dominating_conditions
    pm = parent_map(fp)
    ok = len(adds) == 1 and not stores
    if ok:
        conds = {(unparse(t), pol) for t, pol in dominating_conditions(pm, pm.get(adds[0]), fp)}
        ok = ("domain not in subfrag.domains", True) in conds or ("domain in subfrag.domains", False) in conds
        if not ok:
            # the same filter as the `if` clause of a comprehension / generator that feeds the adding loop
            lp = pm.get(adds[0])
            while lp is not None and not isinstance(lp, ast.For):
                lp = pm.get(lp)
            src = lp.iter if lp is not None else None
            if isinstance(src, ast.Name):
                defs = [st.value for st in ast.walk(fp) if isinstance(st, ast.Assign) and len(st.targets) == 1 and
                        unparse(st.targets[0]) == src.id]
                src = defs[0] if len(defs) == 1 else None
            if isinstance(src, (ast.GeneratorExp, ast.ListComp)) and len(src.generators) == 1:
                v = unparse(src.generators[0].target)
                filt = {unparse(c) for c in src.generators[0].ifs}
                # a generator is evaluated lazily (one test per element, against the subfragment as it is then); a list is built first
                ok = f"{v} not in subfrag.domains" in filt and unparse(src.elt) == v and unparse(lp.target) == "domain"
            elif isinstance(src, ast.Name) and not conds:
                need(False, "Fragment._propagate_domains_down: unrecognised source of the domains that are added")
    ctx.check(ok, R, "Fragment._propagate_domains_down", "a parent's domain is added only where the subfragment has none of that name",
              "a subfragment that defines a domain itself must keep it: the parent's domain of the same name may only be added "
              "under `domain not in subfrag.domains` (and never stored over an existing entry)", f"{IR}:{fp.lineno}")



def r03g(model, ctx):
    """late-bound ClockSignal/ResetSignal are resolved in the domains of the fragment that uses them: a transformer that keeps
    per-fragment state on `self` (DomainLowerer.domains) and recurses through FragmentTransformer.on_fragment — which lowers the
    subfragments BEFORE the fragment's own statements — must put the enclosing fragment's state back once a subfragment is done
    (on every exit), or lower the statements first.  Otherwise a module's ClockSignal("sync") binds to the clock of a submodule
    that defines its own domain of that name."""
    R = "R-03g"
    base = model.func(f"{XFRM}::FragmentTransformer.on_fragment")
    order = [unparse(c.func) for c in ast.walk(base) if isinstance(c, ast.Call) and unparse(c.func) in
             ("self.map_subfragments", "self.map_statements")]
    calls = sorted((c.lineno, unparse(c.func)) for c in ast.walk(base) if isinstance(c, ast.Call) and unparse(c.func) in
                   ("self.map_subfragments", "self.map_statements"))
    need(len(calls) == 2, "FragmentTransformer.on_fragment: map_subfragments / map_statements calls not found")
    subs_first = calls[0][1] == "self.map_subfragments"
    n = 0
    for cls in model.classes(XFRM):
        fn = model.class_methods(cls).get("on_fragment")
        if fn is None or cls.name == "FragmentTransformer":
            continue
        supers = [c for c in ast.walk(fn) if isinstance(c, ast.Call) and unparse(c.func) == "super().on_fragment"]
        if not supers:
            continue
        stores = [st for st in ast.walk(fn) if isinstance(st, ast.Assign) and len(st.targets) == 1 and
                  isinstance(st.targets[0], ast.Attribute) and unparse(st.targets[0].value) == "self" and
                  any(isinstance(x, ast.Name) and x.id == "fragment" for x in ast.walk(st.value)) and
                  st.lineno < supers[0].lineno]
        for st in stores:
            n += 1
            attr = unparse(st.targets[0])
            saved = [b.targets[0].id for b in ast.walk(fn) if isinstance(b, ast.Assign) and len(b.targets) == 1 and
                     isinstance(b.targets[0], ast.Name) and unparse(b.value) == attr and b.lineno < st.lineno]
            # restored in a finally block that covers the recursive call
            restored = False
            for t in ast.walk(fn):
                if isinstance(t, ast.Try) and any(c in list(ast.walk(ast.Module(body=t.body, type_ignores=[]))) for c in supers):
                    restored = restored or any(isinstance(b, ast.Assign) and unparse(b.targets[0]) == attr and
                                               isinstance(b.value, ast.Name) and b.value.id in saved
                                               for f_ in t.finalbody for b in ast.walk(f_))
            ctx.check(restored or not subs_first, R, f"{cls.name}.on_fragment:{attr}",
                      "per-fragment state is restored after the subfragments were lowered (try/finally)",
                      f"{cls.name}.on_fragment sets {attr} from the fragment and recurses; FragmentTransformer.on_fragment lowers the "
                      f"subfragments before this fragment's statements, so {attr} still holds the last subfragment's value when the "
                      f"fragment's own ClockSignal/ResetSignal are resolved: save it before and restore it in a `finally`",
                      f"{XFRM}:{fn.lineno}")
    need(n >= 1, "no transformer with per-fragment state found (DomainLowerer.domains expected)")




def r03h(model, ctx):
    """every clocked netlist cell (flip-flop, memory read/write port, synchronous print/property) is built with the active edge
    of its own clock domain: `clk_edge=<domain>.clk_edge`, with the clock taken from the same domain object; a literal edge is
    allowed only on the constant-clock register that holds the init value of an undriven signal"""
    R = "R-03h"
    n = 0
    mod = model.mod(IR)
    tree = mod.tree
    for call in ast.walk(tree):
        if not isinstance(call, ast.Call):
            continue
        kw = {k.arg: k.value for k in call.keywords if k.arg}
        if "clk_edge" not in kw:
            continue
        n += 1
        edge = kw["clk_edge"]
        if isinstance(edge, ast.Name):
            # a local holding the edge: its single definition in the enclosing function
            fn_ = mod.enclosing_def(call)
            defs = [st.value for st in ast.walk(fn_ or tree) if isinstance(st, ast.Assign) and len(st.targets) == 1 and
                    isinstance(st.targets[0], ast.Name) and st.targets[0].id == edge.id]
            need(len(defs) == 1, f"clk_edge={edge.id}: the local's definition was not found ({IR}:{call.lineno})")
            edge = defs[0]
        cons = f"{unparse(call.func)}@clk_edge"
        if isinstance(edge, ast.Constant):
            ok = "clk" in kw and unparse(kw["clk"]).endswith("Net.from_const(0)")
            ctx.check(ok, R, cons + ":literal", "a literal edge only together with a constant clock",
                      f"`{unparse(call.func)}(... clk_edge={unparse(edge)})` uses a fixed edge for a real clock: a cell in a "
                      f"clk_edge=\"neg\" domain would be emitted rising-edge while the simulator and the domain's flip-flops use the "
                      f"falling edge", f"{IR}:{call.lineno}")
        else:
            ok = isinstance(edge, ast.Attribute) and edge.attr == "clk_edge"
            ctx.check(ok, R, cons, "clk_edge=<domain>.clk_edge",
                      f"`{unparse(call.func)}` must take its active edge from its clock domain (<domain>.clk_edge); found "
                      f"`{unparse(edge)}`", f"{IR}:{call.lineno}")
    need(n >= 5, f"only {n} clocked cell constructions with clk_edge= found in hdl/_ir.py")




def r18e_shared(model, ctx):
    """transformers rebuild fragments whole (shared with C18): memory ports, I/O buffers and RequirePosedge keep every field"""
    from . import c18
    c18.r18e(model, ctx)



def r03i(model, ctx):
    """ResetInserter resets exactly the bits its domain drives: the whole-signal assignment is used only for the chunk that IS
    the whole signal (start == 0 and stop is None, the way LHSMaskCollector.chunks reports it); every other chunk is reset
    through the slice [start:stop] of the signal and of its init constant"""
    R = "R-03i"
    from ..engine.bitalg import conjuncts
    f = model.func(f"{XFRM}::ResetInserter._insert_control")
    ifs = [n for n in ast.walk(f) if isinstance(n, ast.If) and any(isinstance(x, ast.Call) and unparse(x.func) == "signal.eq"
                                                                   for b in n.body for x in ast.walk(b))]
    need(len(ifs) == 1, "ResetInserter._insert_control: the whole-signal / chunk split was not found")
    test = ifs[0].test
    parts = {unparse(c) for c in (test.values if isinstance(test, ast.BoolOp) and isinstance(test.op, ast.And) else [test])}
    whole = {"start == 0", "stop is None"}
    if parts != whole:
        need(parts <= whole | {"stop == len(signal)", "stop is None or stop == len(signal)"} or parts < whole,
             f"ResetInserter._insert_control: unrecognised whole-signal test `{unparse(test)}`")
    ctx.check(whole <= parts, R, "ResetInserter._insert_control:whole-signal", "whole-signal reset only for start == 0 and stop is None",
              f"the whole-signal reset is chosen under `{unparse(test)}`: a chunk that merely starts at bit 0 would reset the whole "
              f"signal, bits driven from other domains included", f"{XFRM}:{ifs[0].lineno}")
    sl = [unparse(x) for b in ifs[0].orelse for x in ast.walk(b) if isinstance(x, ast.Call) and unparse(x.func).endswith(".eq")]
    ok = any("signal[start:stop].eq(Const(signal.init, signal.shape())[start:stop])" == t for t in sl)
    if not ok:
        need(sl, "ResetInserter._insert_control: the chunk reset was not found")
    ctx.check(ok, R, "ResetInserter._insert_control:chunk", "signal[start:stop] <= init[start:stop]",
              f"a partial chunk must be reset with the same slice of the init constant; found {sl}", f"{XFRM}:{ifs[0].lineno}")


RULES = [("R-03i", r03i), ("R-18e", r18e_shared), ("R-03h", r03h), ("R-03g", r03g), ("R-03f", r03f), ("R-03a", r03a), ("R-03b", r03b), ("R-03c", r03c), ("R-03d", r03d), ("R-03e", r03e)]
