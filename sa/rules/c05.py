"""C05 — testbench reads and writes agree with circuits (structural necessary conditions)."""
import ast
from ..engine.core import AnalysisError, need
from ..engine.astutil import (dispatch_leaves, select_leaf, const_int, dotted, unparse, pmatch, walk_no_nested,
                              find_matches)
from ..engine.symx import run_paths
from ..engine.cfg import CFG, EXIT, RAISE
from . import interp, c01, c02
from .interp import PYEVAL, handled

ASYNC = "amaranth/sim/_async.py"
PYSIM = "amaranth/sim/pysim.py"

EXPLANATION = (
    "Static (ast-only) decision of structural necessary conditions of C05: the testbench evaluator is one of the "
    "sibling interpreters, so the operator exhaustiveness/identity/normalisation rules (R-01a/b/d/g/h) and the "
    "assignment-walker rules (R-02a kind coverage, R-02e window containment, R-02g masked merge) are decided for "
    "sim/_pyeval.py; plus (R-05a) every normal path of TestbenchContext.set runs step_design() after set_value(); "
    "(R-05b) get/set/sample apply from_bits/const under the same ValueCastable+ShapeCastable guard; (R-05c) "
    "combinationally driven signals are refused before `next` is touched; (R-05d) leaf reads use the committed "
    "value (`curr`, memory `read`) and unsupported kinds are rejected; (R-05e) engine plumbing passes the whole "
    "target with window [0, len). NOT decided: value-level agreement on concrete expressions."
)
ASSUMPTIONS = [
    "CPython ast parses /repo's source as the interpreter would",
    "reference tables shared with C01/C02 (sa/rules/c01.py, c02.py, interp.py)",
]
MIN_INSTANCES = {"R-05f": 2, "R-05a": 1, "R-05b": 4, "R-05c": 1, "R-05d": 4, "R-05e": 3, "R-01b": 20, "R-02e": 6}


def r05a(model, ctx):
    fn = model.func(f"{ASYNC}::TestbenchContext.set")
    g = CFG(fn)
    sets = g.nodes_with(lambda n: isinstance(n, ast.Call) and unparse(n.func) == "self._engine.set_value")
    steps = g.nodes_with(lambda n: isinstance(n, ast.Call) and unparse(n.func) == "self._engine.step_design")
    need(len(sets) == 1, "TestbenchContext.set: set_value call site not unique")
    ok = bool(steps) and g.must_pass(sets[0], set(steps), targets=(EXIT,))
    ctx.check(ok, "R-05a", "TestbenchContext.set",
              "every normal path from set_value() reaches step_design() before returning",
              "a testbench write must settle the design (self._engine.step_design()) on every path after "
              "self._engine.set_value() before returning", f"{ASYNC}:{fn.lineno}")
    # ProcessContext.set must NOT settle (processes run inside step_design)
    fp = model.func(f"{ASYNC}::ProcessContext.set")
    bad = [n for n in ast.walk(fp) if isinstance(n, ast.Call) and unparse(n.func) == "self._engine.step_design"]
    ctx.check(not bad, "R-05a", "ProcessContext.set", "does not re-enter step_design()",
              "a process write must not call step_design() re-entrantly (it runs inside the eval phase)",
              f"{ASYNC}:{fp.lineno}")


def _guarded_conversion(fn, conv):
    """Is there a call X.<conv>(value) under `isinstance(expr, ValueCastable)` and `isinstance(shape, ShapeCastable)`
    with shape = expr.shape()?"""
    for n in ast.walk(fn):
        if isinstance(n, ast.If) and pmatch("isinstance(expr, ValueCastable)", n.test) is not None:
            has_shape = any(isinstance(s, ast.Assign) and unparse(s.targets[0]) == "shape" and
                            unparse(s.value) == "expr.shape()" for s in n.body)
            for s in n.body:
                if isinstance(s, ast.If) and pmatch("isinstance(shape, ShapeCastable)", s.test) is not None:
                    for c in ast.walk(s):
                        if isinstance(c, ast.Call) and unparse(c.func) == f"shape.{conv}" and len(c.args) == 1 \
                                and unparse(c.args[0]) == "value":
                            return has_shape
    return False


REF_GET = """
value = self._engine.get_value(expr)
if isinstance(expr, ValueCastable):
    shape = expr.shape()
    if isinstance(shape, ShapeCastable):
        return shape.from_bits(value)
return value
"""
REF_SET_PROC = """
if isinstance(expr, ValueCastable):
    shape = expr.shape()
    if isinstance(shape, ShapeCastable):
        value = shape.const(value)
value = Const.cast(value).value
self._engine.set_value(expr, value)
"""
REF_SET_TB = REF_SET_PROC + "self._engine.step_design()\n"


def r05b(model, ctx):
    R = "R-05b"
    # whole-method summaries (module-level helpers expanded) against the reference semantics of the conversions
    from ..engine import refsem
    fg, paths = refsem.method_paths(model, f"{ASYNC}::TestbenchContext.get")
    refsem.compare(ctx, R, "TestbenchContext.get", f"{ASYNC}:{fg.lineno}", "TestbenchContext.get", paths, [REF_GET],
                   fact="from_bits applied iff ValueCastable with a ShapeCastable shape",
                   why="get() must return shape.from_bits(engine value) exactly when expr is a ValueCastable whose shape() is a "
                       "ShapeCastable, and the raw integer otherwise.")
    for cname, ref in (("TestbenchContext", REF_SET_TB), ("ProcessContext", REF_SET_PROC)):
        fs, paths = refsem.method_paths(model, f"{ASYNC}::{cname}.set")
        refsem.compare(ctx, R, f"{cname}.set", f"{ASYNC}:{fs.lineno}", f"{cname}.set", paths, [ref],
                       fact="const() under the same guard, then Const.cast(value).value",
                       why=f"{cname}.set must convert through shape.const(value) under the ValueCastable/ShapeCastable guard and "
                           f"then pass Const.cast(value).value to set_value(expr, ...).")
    fc = model.func(f"{PYSIM}::_PyTriggerState.compute_result")
    ok = False
    for n in ast.walk(fc):
        if isinstance(n, ast.If) and pmatch("isinstance(trigger.shape, ShapeCastable)", n.test) is not None:
            ok = any(pmatch("result.append(trigger.shape.from_bits(value))", c) is not None for c in ast.walk(ast.Module(body=n.body, type_ignores=[]))) \
                and any(pmatch("result.append(value)", c) is not None for c in ast.walk(ast.Module(body=n.orelse, type_ignores=[])))
    ctx.check(ok, R, "_PyTriggerState.compute_result", "sampled values converted with from_bits iff ShapeCastable",
              "sample()/changed() results must go through trigger.shape.from_bits(value) iff the shape is a ShapeCastable",
              f"{PYSIM}:{fc.lineno}")
    # the trigger records shape from the same guard
    for tname in ("SampleTrigger", "ChangedTrigger"):
        ft = model.func(f"{ASYNC}::{tname}.__init__")
        txt = unparse(ft)
        ok = "self.shape" in txt
        ctx.check(ok, R, f"{tname}.__init__", "records the shape used for conversion",
                  f"{tname} must record the expression's shape for from_bits conversion", f"{ASYNC}:{ft.lineno}")


_ENTRY = """
if lhs_start >= len(lhs):
    return
if lhs_start + rhs_len > len(lhs):
    rhs_len = len(lhs) - lhs_start
"""
_CLAMP = """
if lhs_stop > len(lhs):
    lhs_stop = len(lhs)
if lhs_start >= len(lhs):
    return
"""
_SIGNAL_BODY = """
slot = sim.get_signal(lhs)
if sim.slots[slot].is_comb:
    raise DriverConflict()
value = sim.slots[slot].next
mask = (1 << lhs_stop) - (1 << lhs_start)
value &= ~mask
value |= (rhs << lhs_start) & mask
value &= (1 << len(lhs)) - 1
if lhs._signed and (value & (1 << (len(lhs) - 1))):
    value |= -1 << (len(lhs) - 1)
sim.slots[slot].update(value)
"""
_ROW_BODY = """
slot = sim.get_memory(lhs._memory)
mask = (1 << lhs_stop) - (1 << lhs_start)
sim.slots[slot].write(lhs._index, rhs << lhs_start, mask)
"""
# the window is clipped on entry; the per-branch clamp that repeats it is redundant and may or may not be present
REF_ASSIGN_SIGNAL = [_ENTRY + "lhs_stop = lhs_start + rhs_len\n" + _CLAMP + _SIGNAL_BODY,
                     _ENTRY + "lhs_stop = lhs_start + rhs_len\n" + _SIGNAL_BODY]
REF_ASSIGN_ROW = [_ENTRY + "lhs_stop = lhs_start + rhs_len\n" + _CLAMP + _ROW_BODY,
                  _ENTRY + "lhs_stop = lhs_start + rhs_len\n" + _ROW_BODY]


def assign_leaf_paths(model, cls):
    """_eval_assign_inner specialised for a target of class `cls` (module-level helpers expanded)"""
    from ..engine import refsem
    fn = model.func(f"{PYEVAL}::_eval_assign_inner")
    inline = refsem.inline_table(model, PYEVAL, None, exclude=("_eval_assign_inner", "eval_value", "eval_assign"))
    body = [b for b in fn.body if not (isinstance(b, ast.Expr) and isinstance(b.value, ast.Constant))]
    return fn, run_paths(body, inline=inline, fold=refsem.class_fold("lhs", cls), max_paths=2000, depth=3)


def compare_assign_leaf(model, ctx, rule, construct, cls, refs, fact, why):
    from ..engine import refsem
    fn, paths = assign_leaf_paths(model, cls)
    refsem.compare(ctx, rule, construct, f"{PYEVAL}:{fn.lineno}", f"_eval_assign_inner ({cls} target)", paths, refs,
                   fact=fact, why=why)


def r05c(model, ctx):
    compare_assign_leaf(model, ctx, "R-05c", "_eval_assign_inner:Signal", "Signal", REF_ASSIGN_SIGNAL,
                        "`if slot.is_comb: raise DriverConflict` precedes every access to next/update; merge into next under the window mask",
                        "A testbench write to a combinationally driven signal must be refused (raise DriverConflict) before the "
                        "signal's `next` value is read or updated; the write merges (rhs << start) into `next` under the window mask.")


def r05d(model, ctx):
    R = "R-05d"
    fn, lvs = interp.leaves(model, f"{PYEVAL}::eval_value")
    lf = select_leaf(lvs, {"class": "Signal"})
    paths = [p for p in run_paths(lf.body) if p.how == "return"]
    ok = len(paths) == 1 and unparse(paths[0].ret) == "sim.slots[sim.get_signal(value)].curr"
    ctx.check(ok, R, "eval_value:Signal", "reads the committed value slots[i].curr",
              f"a testbench read of a signal must return the committed value `.curr`; found "
              f"{unparse(paths[0].ret) if paths else '-'}", f"{PYEVAL}:{lf.lineno}")
    lf = select_leaf(lvs, {"class": "_Row"})
    paths = [p for p in run_paths(lf.body) if p.how == "return"] if lf else []
    ok = len(paths) == 1 and unparse(paths[0].ret) == "sim.slots[sim.get_memory(value._memory)].read(value._index)"
    ctx.check(ok, R, "eval_value:MemoryData._Row", "reads the row through slot.read(index)",
              "a memory row must be read with slots[get_memory(row._memory)].read(row._index)", f"{PYEVAL}:{lf.lineno if lf else 0}")
    lf = select_leaf(lvs, {"class": "Const"})
    paths = [p for p in run_paths(lf.body) if p.how == "return"]
    ok = len(paths) == 1 and unparse(paths[0].ret) == "value.value"
    ctx.check(ok, R, "eval_value:Const", "value.value", "Const must evaluate to value.value", f"{PYEVAL}:{lf.lineno}")
    for kind in ("ResetSignal", "ClockSignal", "AnyValue", "Initial"):
        lf = select_leaf(lvs, {"class": kind})
        ok = lf is not None and any(isinstance(s, ast.Raise) and "ValueError" in unparse(s) for s in lf.body)
        ctx.check(ok, R, f"eval_value:{kind}", "rejected with ValueError",
                  f"{kind} cannot be evaluated in simulation and must raise ValueError", f"{PYEVAL}:{lf.lineno if lf else 0}")
    # SwitchValue: first matching case wins; no match -> 0
    lf = select_leaf(lvs, {"class": "SwitchValue"})
    loops = [s for s in lf.body if isinstance(s, ast.For)]
    ok = len(loops) == 1 and unparse(loops[0].iter) == "value.cases"
    if ok:
        b = loops[0].body
        ok = len(b) == 1 and isinstance(b[0], ast.If) and pmatch("_eval_matches(test, patterns)", b[0].test) is not None \
            and isinstance(b[0].body[0], ast.Return) and unparse(b[0].body[0].value) == "eval_value(sim, val)" and \
            isinstance(lf.body[-1], ast.Return) and const_int(lf.body[-1].value) == 0 and \
            any(isinstance(s, ast.Assign) and unparse(s.targets[0]) == "test" and
                unparse(s.value) == "eval_value(sim, value.test)" for s in lf.body)
    ctx.check(ok, R, "eval_value:SwitchValue", "first matching case is returned; 0 when none matches",
              "SwitchValue must return the first case whose patterns match the evaluated test, and 0 when none does",
              f"{PYEVAL}:{lf.lineno}")
    # _eval_matches: None -> True; str patterns masked; returns False at the end
    fm = model.func(f"{PYEVAL}::_eval_matches")
    first = fm.body[0]
    ok = isinstance(first, ast.If) and pmatch("patterns is None", first.test) is not None and \
        isinstance(first.body[0], ast.Return) and first.body[0].value.value is True and \
        isinstance(fm.body[-1], ast.Return) and fm.body[-1].value.value is False
    ctx.check(ok, R, "_eval_matches", "None matches everything; falls through to False",
              "_eval_matches must return True for the default (None) and False when no pattern matches",
              f"{PYEVAL}:{fm.lineno}")
    # _eval_assign_inner SwitchValue: first match only
    fa, lva = interp.leaves(model, f"{PYEVAL}::_eval_assign_inner")
    lf = select_leaf(lva, {"class": "SwitchValue"})
    loops = [s for s in lf.body if isinstance(s, ast.For)]
    ok = len(loops) == 1
    if ok:
        b = loops[0].body
        ok = len(b) == 1 and isinstance(b[0], ast.If) and pmatch("_eval_matches(test, patterns)", b[0].test) is not None \
            and isinstance(b[0].body[-1], ast.Return)
    ctx.check(ok, R, "_eval_assign_inner:SwitchValue:first-match", "assigns through the first matching case only",
              "assignment through a choice must stop after the first matching case (return after the recursive call)",
              f"{PYEVAL}:{lf.lineno}")
    # Row write
    compare_assign_leaf(model, ctx, R, "_eval_assign_inner:MemoryData._Row", "MemoryData._Row", REF_ASSIGN_ROW,
                        "write(index, rhs << start, (1<<stop)-(1<<start))",
                        "A memory row write must go through slot.write(index, rhs << lhs_start, mask) with the window mask.")


def r05e(model, ctx):
    R = "R-05e"
    f = model.func(f"{PYSIM}::PySimEngine.get_value")
    ok = any(pmatch("eval_value(self._state, Value.cast(expr))", n) is not None for n in ast.walk(f))
    ctx.check(ok, R, "PySimEngine.get_value", "eval_value(state, Value.cast(expr))",
              "get_value must evaluate Value.cast(expr) on the engine state", f"{PYSIM}:{f.lineno}")
    f = model.func(f"{PYSIM}::PySimEngine.set_value")
    ok = any(pmatch("eval_assign(self._state, Value.cast(expr), value)", n) is not None for n in ast.walk(f))
    ctx.check(ok, R, "PySimEngine.set_value", "eval_assign(state, Value.cast(expr), value)",
              "set_value must assign through eval_assign(state, Value.cast(expr), value)", f"{PYSIM}:{f.lineno}")
    f = model.func(f"{PYEVAL}::eval_assign")
    from ..engine.inline import propagate_locals as _pl
    ok = any(pmatch("_eval_assign_inner(sim, lhs, 0, value, len(lhs))", n) is not None for n in ast.walk(_pl(f)))
    ctx.check(ok, R, "eval_assign", "window [0, len(lhs))",
              "eval_assign must start the walk with the window [0, len(lhs)) of the whole target", f"{PYEVAL}:{f.lineno}")


def _only_pyeval(rule_fn, keep):
    """run a shared rule and keep only obligations about the evaluator"""
    def wrapped(model, ctx):
        n0, v0 = len(ctx.obligations), len(ctx.violations)
        rule_fn(model, ctx)
        ctx.obligations[n0:] = [o for o in ctx.obligations[n0:] if keep(o["construct"])]
        ctx.violations[v0:] = [v for v in ctx.violations[v0:] if keep(v["construct"])]
    return wrapped


_is_eval = lambda c: c.startswith("eval_value") or c.startswith("_eval_") or c.startswith("_PySignalState") \
    or c.startswith("_PyMemoryState")

def r05f(model, ctx):
    """the legacy generator testbench interface goes through the same context: a yielded value is read with get_value, a
    yielded assignment writes the evaluated right-hand side, unchanged, with context.set"""
    R = "R-05f"
    CORO = "amaranth/sim/_pycoro.py"
    fn = model.func(f"{CORO}::coro_wrapper.inner")
    from ..engine.astutil import parent_map, dominating_conditions
    pm = parent_map(fn)
    sets = [c for c in ast.walk(fn) if isinstance(c, ast.Call) and unparse(c.func) == "context.set"]
    need(len(sets) == 1, "coro_wrapper: the context.set(...) of a yielded assignment was not found")
    c = sets[0]
    conds = {(unparse(t), pol) for t, pol in dominating_conditions(pm, pm.get(c), fn)}
    ok = [unparse(a) for a in c.args] == ["command.lhs", "context._engine.get_value(command.rhs)"] and not c.keywords and \
        ("isinstance(command, Assign)", True) in conds
    ctx.check(ok, R, "coro_wrapper:Assign", "context.set(command.lhs, get_value(command.rhs)) — the evaluated value, unchanged",
              f"a yielded assignment must write the right-hand side's evaluated value unchanged (context.set extends it "
              f"according to its sign): found {unparse(c)}; masking it to len(rhs) first zero-extends negative values", f"{CORO}:{c.lineno}")
    gets = [s_ for s_ in ast.walk(fn) if isinstance(s_, ast.Assign) and unparse(s_.targets[0]) == "response" and
            isinstance(s_.value, ast.Call) and unparse(s_.value.func) == "context._engine.get_value"]
    ok = len(gets) == 1 and [unparse(a) for a in gets[0].value.args] == ["command"]
    ctx.check(ok, R, "coro_wrapper:Value", "response = get_value(command)", "a yielded value must be answered with the engine's value "
              "of that expression, unchanged", f"{CORO}:{fn.lineno}")



def r08h_shared(model, ctx):
    """the trigger machinery (shared with C08): what a testbench is told when it awaits a tick, an edge, a change or a delay"""
    from . import c08
    c08.r08h(model, ctx)


RULES = [("R-08h", r08h_shared), 
    ("R-05f", r05f), ("R-05a", r05a), ("R-05b", r05b), ("R-05c", r05c), ("R-05d", r05d), ("R-05e", r05e),
    ("R-01a", _only_pyeval(c01.r01a, _is_eval)), ("R-01b", _only_pyeval(c01.r01b, _is_eval)),
    ("R-01d", c01.r01d), ("R-01g", _only_pyeval(c01.r01g, _is_eval)), ("R-01h", _only_pyeval(c01.r01h, _is_eval)),
    ("R-02a", _only_pyeval(c02.r02a, _is_eval)), ("R-02e", _only_pyeval(c02.r02e, _is_eval)),
    ("R-02g", _only_pyeval(c02.r02g, _is_eval)),
]
