"""C12 — synchronous FIFOs (structural necessary conditions, decided on the elaborate() bodies)."""
import ast
from ..engine.core import AnalysisError, need
from ..engine.astutil import unparse, dotted, pmatch, const_int, dump
from ..engine.hdlmodel import ElabModel

FIFO = "amaranth/lib/fifo.py"

EXPLANATION = (
    "Static (ast-only) decision of structural necessary conditions of C12 on SyncFIFO/SyncFIFOBuffered.elaborate "
    "(E7 Module-DSL analyser: assignments with domain, guards, Python path conditions, alias-expanded syntactic "
    "support): (a) acceptance gating — the storage write enable and every produce-pointer update depend on both "
    "w_en and w_rdy, every consume-pointer update on r_en and the relevant ready, level registers on both sides; "
    "(b) capacity — level signals are Signal(range(depth + 1)), pointers Signal(range(depth)), and the pointer "
    "modulus, pointer range and storage depth are one expression; (c) level bookkeeping — +1 exactly under "
    "(accepted write & ~accepted read) and -1 under the mirrored guard, built from the same accepted-strobe terms as "
    "the pointer updates; (d) ready flags compare the occupancy with the capacity / zero; data path wiring "
    "(w_port.addr/data, r_port.addr, r_data) and domains (pointers and levels in sync). NOT decided: ordering, "
    "levels and liveness as reachable-state properties of the counters."
)
ASSUMPTIONS = ["CPython ast parses /repo's source as the interpreter would",
               "syntactic support over-approximates dependence; a term that is present but cancelled algebraically is not detected"]
MIN_INSTANCES = {"R-12e": 6, "R-12a": 10, "R-12b": 8, "R-12c": 4, "R-12d": 8}

W = {"self.w_en", "self.w_rdy"}
R_ = {"self.r_en", "self.r_rdy"}


REF_INCR = """
if modulo == 2 ** len(signal):
    return signal + 1
else:
    return Mux(signal == modulo - 1, 0, signal + 1)
"""


def _model(model, cls):
    fn = model.func_expanded(f"{FIFO}::{cls}.elaborate", depth=3, exclude=("_gray_encode", "_gray_decode", "_incr"))
    return fn, ElabModel(fn)


def _res(em, e):
    """text of an expression with the elaborate()'s plain local aliases (x = <expr>) substituted to a fixpoint"""
    from ..engine.symx import subst
    if isinstance(e, str):
        e = ast.parse(e, mode="eval").body
    al = {k: v for k, v in em.aliases.items() if isinstance(v, ast.AST)}
    for _ in range(6):
        n = subst(e, al)
        if unparse(n) == unparse(e):
            break
        e = n
    return unparse(e)


def _same(em, a, b):
    """two expressions denote the same integer once the elaborate()'s local aliases are resolved (compared as polynomials,
    so `inner_depth + 1` and `self.depth` agree when inner_depth = self.depth - 1)"""
    from ..engine.norm import poly
    ra, rb = _res(em, a), _res(em, b)
    if ra == rb:
        return True
    try:
        return poly(ast.parse(ra, mode="eval").body) == poly(ast.parse(rb, mode="eval").body)
    except Exception:
        return False


def _main(assigns):
    """assignments of the general (depth >= 2 / not special-cased) configuration: all Python conditions negative"""
    return [a for a in assigns if all(not p for _t, p in a.pyconds)]


def _supp(em, a, include_rhs=False):
    s = em.guard_support(a)
    if include_rhs:
        s |= em.support(a.rhs)
    return s


def r12a(model, ctx):
    R = "R-12a"
    for cls in ("SyncFIFO", "SyncFIFOBuffered"):
        fn, em = _model(model, cls)
        main = _main(em.assigns)
        def get(target, domain):
            hits = [a for a in main if a.target_text == target and a.domain == domain]
            need(hits, f"{cls}.elaborate: no {domain} assignment to {target} found")
            return hits
        # storage write enable
        for a in get("w_port.en", "comb"):
            s = _supp(em, a, include_rhs=True)
            ctx.check(W <= s, R, f"{cls}:w_port.en", f"depends on {sorted(W & s)}",
                      f"{cls}: the storage write enable `{unparse(a.rhs)}` does not depend on {sorted(W - s)}: a write strobe "
                      f"while w_rdy is low (or without w_en) would overwrite stored entries", f"{FIFO}:{a.lineno}")
        for a in get("produce", "sync"):
            s = _supp(em, a)
            ctx.check(W <= s, R, f"{cls}:produce", f"guard depends on {sorted(W & s)}",
                      f"{cls}: the produce pointer advances under a guard that does not depend on {sorted(W - s)}", f"{FIFO}:{a.lineno}")
        want_r = R_ if cls == "SyncFIFO" else {"self.r_en", "self.r_rdy", "inner_r_rdy"}
        for a in get("consume", "sync"):
            s = _supp(em, a)
            ctx.check(want_r <= s, R, f"{cls}:consume", f"guard depends on {sorted(want_r & s)}",
                      f"{cls}: the consume pointer advances under a guard that does not depend on {sorted(want_r - s)}",
                      f"{FIFO}:{a.lineno}")
        lvl = "self.level" if cls == "SyncFIFO" else "inner_level"
        both = W | ({"self.r_en", "self.r_rdy"})
        for a in get(lvl, "sync"):
            s = _supp(em, a)
            ctx.check(both <= s, R, f"{cls}:{lvl}:{unparse(a.rhs)}", f"guard depends on both sides",
                      f"{cls}: {lvl} is updated ({unparse(a.rhs)}) under a guard that does not depend on {sorted(both - s)}",
                      f"{FIFO}:{a.lineno}")
        if cls == "SyncFIFOBuffered":
            for a in get("r_port.en", "comb"):
                s = _supp(em, a, include_rhs=True)
                ctx.check(want_r <= s, R, f"{cls}:r_port.en", "read port enabled only for an accepted inner read",
                          f"{cls}: the storage read enable does not depend on {sorted(want_r - s)}", f"{FIFO}:{a.lineno}")
            # depth == 1 special case
            one = [a for a in em.assigns if any(p and unparse(t) == "self.depth == 1" for t, p in a.pyconds)]
            need(one, "SyncFIFOBuffered: depth == 1 special case not found")
            for a in one:
                if a.domain == "sync":
                    s = _supp(em, a)
                    side = W if unparse(a.rhs) in ("self.w_data", "1") else R_
                    ctx.check(side <= s, R, f"{cls}:depth1:{a.target_text}={unparse(a.rhs)}", "guarded by the accepted strobe",
                              f"{cls} (depth 1): {a.target_text}.eq({unparse(a.rhs)}) is not guarded by {sorted(side - s)}",
                              f"{FIFO}:{a.lineno}")


def _sig_range(call):
    """Signal(range(X)) -> X AST, else None"""
    m = pmatch("Signal(range(_V_X))", call)
    return None if m is None else m["_V_X"]


def r12b(model, ctx):
    R = "R-12b"
    fi = model.func_view(f"{FIFO}::FIFOInterface.__init__")
    for attr in ("w_level", "r_level"):
        hits = [s for s in fi.body if isinstance(s, ast.Assign) and unparse(s.targets[0]) == f"self.{attr}"]
        ok = len(hits) == 1 and _sig_range(hits[0].value) is not None and unparse(_sig_range(hits[0].value)) == "depth + 1"
        ctx.check(ok, R, f"FIFOInterface.{attr}", "Signal(range(depth + 1))",
                  f"{attr} must be Signal(range(depth + 1)) so that it can hold the value `depth` (a full queue)", f"{FIFO}:{fi.lineno}")
    for cls in ("SyncFIFO", "SyncFIFOBuffered"):
        f = model.func(f"{FIFO}::{cls}.__init__")
        hits = [s for s in f.body if isinstance(s, ast.Assign) and unparse(s.targets[0]) == "self.level"]
        ok = len(hits) == 1 and _sig_range(hits[0].value) is not None and unparse(_sig_range(hits[0].value)) == "depth + 1"
        ctx.check(ok, R, f"{cls}.level", "Signal(range(depth + 1))",
                  f"{cls}.level must be Signal(range(depth + 1)): with range(depth) a full queue of a power-of-two depth "
                  f"reads as level 0", f"{FIFO}:{f.lineno}")
        ok = any(pmatch("super().__init__(width=width, depth=depth)", n) is not None for n in ast.walk(f))
        ctx.check(ok, R, f"{cls}.__init__:super", "width/depth handed to FIFOInterface unchanged",
                  f"{cls} must pass width and depth unchanged to FIFOInterface", f"{FIFO}:{f.lineno}")
        fn, em = _model(model, cls)
        D = "self.depth" if cls == "SyncFIFO" else "inner_depth"
        for ptr in ("produce", "consume"):
            c = em.signals.get(ptr)
            ok = c is not None and _sig_range(c) is not None and _same(em, _sig_range(c), D)
            ctx.check(ok, R, f"{cls}:{ptr}:range", f"Signal(range({D}))", f"{cls}: {ptr} must be Signal(range({D}))", f"{FIFO}:{fn.lineno}")
        # modulus of the pointer increment == pointer range == storage depth
        for ptr in ("produce", "consume"):
            for a in [a for a in _main(em.assigns) if a.target_text == ptr and a.domain == "sync"]:
                rhs_ = a.rhs
                if isinstance(rhs_, ast.Name) and isinstance(em.aliases.get(rhs_.id), ast.AST):
                    rhs_ = em.aliases[rhs_.id]          # the increment hoisted into a local
                m = pmatch(f"_incr({ptr}, _V_M)", rhs_)
                ok = m is not None and _same(em, m["_V_M"], D)
                ctx.check(ok, R, f"{cls}:{ptr}:modulus", f"wraps at {D}", f"{cls}: {ptr} must advance with _incr({ptr}, {D}); found "
                          f"{unparse(a.rhs)}", f"{FIFO}:{a.lineno}")
        st = [s for s in em.submodules if s.name == "storage"]
        ok = len(st) == 1
        if ok:
            kw = {k.arg: _res(em, k.value) for k in st[0].call.keywords}
            ok = kw.get("depth") == _res(em, D) and kw.get("shape") == "self.width"
        ctx.check(ok, R, f"{cls}:storage", f"Memory(shape=self.width, depth={D})", f"{cls}: storage must have depth {D} and row "
                  f"shape self.width", f"{FIFO}:{fn.lineno}")
        if cls == "SyncFIFOBuffered":
            ok = unparse(em.aliases.get("inner_depth", ast.Constant(None))) == "self.depth - 1"
            ctx.check(ok, R, f"{cls}:inner_depth", "inner_depth = depth - 1 (one entry lives in the output register)",
                      "inner_depth must be self.depth - 1", f"{FIFO}:{fn.lineno}")
            c = em.signals.get("inner_level")
            ok = c is not None and _sig_range(c) is not None and _same(em, _sig_range(c), "inner_depth + 1")
            ctx.check(ok, R, f"{cls}:inner_level:range", "Signal(range(inner_depth + 1))", "inner_level must be "
                      "Signal(range(inner_depth + 1))", f"{FIFO}:{fn.lineno}")
    # _incr helper
    from ..engine import refsem
    f, paths = refsem.method_paths(model, f"{FIFO}::_incr", inline=False)
    refsem.compare(ctx, R, "_incr", f"{FIFO}:{f.lineno}", "_incr", paths, [REF_INCR],
                   fact="wraps at modulo-1 (or naturally for powers of two)", why="_incr must wrap to 0 after modulo - 1.")


def r12c(model, ctx):
    R = "R-12c"
    for cls, lvl, rd in (("SyncFIFO", "self.level", "do_read"), ("SyncFIFOBuffered", "inner_level", "do_inner_read")):
        fn, em = _model(model, cls)
        main = _main(em.assigns)
        prod = [a for a in main if a.target_text == "produce" and a.domain == "sync"]
        cons = [a for a in main if a.target_text == "consume" and a.domain == "sync"]
        need(len(prod) == 1 and len(cons) == 1 and len(prod[0].guards) == 1 and len(cons[0].guards) == 1,
             f"{cls}: pointer updates are not single-guarded")
        A = dump(em.expand(prod[0].guards[0][0]))      # accepted write
        B = dump(em.expand(cons[0].guards[0][0]))      # accepted read
        inc = [a for a in main if a.target_text == lvl and a.domain == "sync" and pmatch(f"{lvl} + 1", a.rhs) is not None]
        dec = [a for a in main if a.target_text == lvl and a.domain == "sync" and pmatch(f"{lvl} - 1", a.rhs) is not None]
        ok = len(inc) == 1 and len(dec) == 1
        ctx.check(ok, R, f"{cls}:{lvl}:updates", "one +1 and one -1 update", f"{cls}: {lvl} must have exactly one +1 and one -1 update",
                  f"{FIFO}:{fn.lineno}")
        if not ok:
            continue
        for a, first, second, what in ((inc[0], A, B, "+1"), (dec[0], B, A, "-1")):
            g = a.guards
            okg = len(g) == 1 and g[0][1] is True
            if okg:
                ge = em.expand(g[0][0])
                okg = isinstance(ge, ast.BinOp) and isinstance(ge.op, ast.BitAnd) and dump(ge.left) == first and \
                    isinstance(ge.right, ast.UnaryOp) and isinstance(ge.right.op, ast.Invert) and dump(ge.right.operand) == second
            ctx.check(okg, R, f"{cls}:{lvl}:{what}", f"under ({'write' if what == '+1' else 'read'} accepted) & ~(other side accepted)",
                      f"{cls}: {lvl} {what} must happen exactly under (accepted {'write' if what == '+1' else 'read'}) & "
                      f"~(accepted {'read' if what == '+1' else 'write'}), built from the same terms that advance the pointers; "
                      f"found guard `{unparse(g[0][0]) if g else '-'}` (a refused strobe must not count)", f"{FIFO}:{a.lineno}")
    # buffered: level = inner_level + r_rdy ; r_rdy set under do_inner_read, cleared under r_en otherwise
    fn, em = _model(model, "SyncFIFOBuffered")
    main = _main(em.assigns)
    lv = [a for a in main if a.target_text == "self.level" and a.domain == "comb"]
    ok = len(lv) == 1 and unparse(lv[0].rhs) == "inner_level + self.r_rdy"
    ctx.check(ok, R, "SyncFIFOBuffered:level", "level = inner_level + r_rdy", "level must count the output register: inner_level + "
              "self.r_rdy", f"{FIFO}:{fn.lineno}")
    rr = [a for a in main if a.target_text == "self.r_rdy" and a.domain == "sync"]
    ok = len(rr) == 2
    if ok:
        s1 = [a for a in rr if unparse(a.rhs) == "1"]
        s0 = [a for a in rr if unparse(a.rhs) == "0"]
        ok = len(s1) == 1 and len(s0) == 1 and unparse(s1[0].guards[0][0]) == "do_inner_read" and \
            [(unparse(c), p) for c, p in s0[0].guards] == [("do_inner_read", False), ("self.r_en", True)]
    ctx.check(ok, R, "SyncFIFOBuffered:r_rdy", "set when an inner read is accepted, else cleared when read",
              "r_rdy must be set under do_inner_read and, otherwise, cleared under r_en", f"{FIFO}:{fn.lineno}")


def r12d(model, ctx):
    R = "R-12d"
    fn, em = _model(model, "SyncFIFO")
    main = _main(em.assigns)
    def one(t, d="comb"):
        h = [a for a in main if a.target_text == t and a.domain == d]
        need(len(h) == 1, f"SyncFIFO: {d} assignment to {t} not unique")
        return h[0]
    exp = {"self.w_rdy": "self.level != self.depth", "self.r_rdy": "self.level != 0", "self.w_level": "self.level",
           "self.r_level": "self.level", "w_port.addr": "produce", "w_port.data": "self.w_data", "r_port.addr": "consume",
           "self.r_data": "r_port.data"}
    for t, rhs in exp.items():
        a = one(t)
        ctx.check(unparse(a.rhs) == rhs and not a.guards, R, f"SyncFIFO:{t}", rhs, f"SyncFIFO: {t} must be `{rhs}` unconditionally; "
                  f"found `{unparse(a.rhs)}`", f"{FIFO}:{a.lineno}")
    fn, em = _model(model, "SyncFIFOBuffered")
    main = _main(em.assigns)
    exp = {"self.w_rdy": "inner_level != inner_depth", "inner_r_rdy": "inner_level != 0", "self.w_level": "self.level",
           "self.r_level": "self.level", "w_port.addr": "produce", "w_port.data": "self.w_data", "r_port.addr": "consume",
           "self.r_data": "r_port.data"}
    for t, rhs in exp.items():
        h = [a for a in em.assigns if a.target_text == t and a.domain == "comb" and
             not any(p and unparse(c) in ("self.depth == 0", "self.depth == 1") for c, p in a.pyconds)]
        ok = len(h) == 1 and unparse(h[0].rhs) == rhs and not h[0].guards
        ctx.check(ok, R, f"SyncFIFOBuffered:{t}", rhs, f"SyncFIFOBuffered: {t} must be `{rhs}` unconditionally; found "
                  f"{[unparse(x.rhs) for x in h]}", f"{FIFO}:{fn.lineno}")
    # depth 0: neither ready
    for cls in ("SyncFIFO", "SyncFIFOBuffered"):
        fn, em = _model(model, cls)
        z = [a for a in em.assigns if any(p and unparse(c) == "self.depth == 0" for c, p in a.pyconds)]
        ok = {(a.target_text, unparse(a.rhs)) for a in z} == {("self.w_rdy", "0"), ("self.r_rdy", "0")}
        ctx.check(ok, R, f"{cls}:depth0", "w_rdy = r_rdy = 0", f"{cls}: a depth-0 queue must tie w_rdy and r_rdy to 0", f"{FIFO}:{fn.lineno}")
        # read ports: SyncFIFO reads combinationally, buffered synchronously
        rp = em.aliases.get("r_port")
        want = "comb" if cls == "SyncFIFO" else "sync"
        ok = rp is not None and f"domain='{want}'" in _res(em, rp)
        ctx.check(ok, R, f"{cls}:read-port-domain", want, f"{cls}: the storage read port must be in the {want} domain", f"{FIFO}:{fn.lineno}")
    # depth 1 buffered
    fn, em = _model(model, "SyncFIFOBuffered")
    one_ = [a for a in em.assigns if any(p and unparse(c) == "self.depth == 1" for c, p in a.pyconds)]
    got = {(a.domain, a.target_text, unparse(a.rhs), tuple(unparse(c) for c, _ in a.guards)) for a in one_}
    want = {("comb", "self.w_rdy", "self.level == 0", ()), ("comb", "self.r_rdy", "self.level == 1", ()),
            ("sync", "self.r_data", "self.w_data", ("do_write",)), ("sync", "self.level", "1", ("do_write",)),
            ("sync", "self.level", "0", ("do_read",))}
    ctx.check(got == want, R, "SyncFIFOBuffered:depth1", "single register: w_rdy=level==0, r_rdy=level==1",
              f"SyncFIFOBuffered depth-1 special case deviates: {sorted(got ^ want)}", f"{FIFO}:{fn.lineno}")


def r12e(model, ctx):
    """the queue's storage accepts every shape and depth, including the width-0 shape and depth 0: Memory's constructor
    decides whether an argument was given by `is None`, never by its truth value (0, unsigned(0) and [] are legal values)"""
    R = "R-12e"
    MEMLIB = "amaranth/lib/memory.py"
    f = model.func(f"{MEMLIB}::Memory.__init__")
    n = 0
    for node in ast.walk(f):
        if not isinstance(node, (ast.If, ast.IfExp, ast.While, ast.Assert)):
            continue
        t = node.test
        names = {x.id for x in ast.walk(t) if isinstance(x, ast.Name)} & {"shape", "depth", "init", "data"}
        if not names:
            continue
        n += 1
        atoms = t.values if isinstance(t, ast.BoolOp) else [t]
        for a in atoms:
            if not ({x.id for x in ast.walk(a) if isinstance(x, ast.Name)} & {"shape", "depth", "init", "data"}):
                continue
            presence = isinstance(a, ast.Compare) and len(a.ops) == 1 and isinstance(a.ops[0], (ast.Is, ast.IsNot)) and \
                isinstance(a.comparators[0], ast.Constant) and a.comparators[0].value is None and isinstance(a.left, ast.Name)
            isinst = (isinstance(a, ast.Call) and dotted(a.func) == "isinstance") or \
                (isinstance(a, ast.UnaryOp) and isinstance(a.op, ast.Not) and isinstance(a.operand, ast.Call) and dotted(a.operand.func) == "isinstance")
            truth = isinstance(a, ast.Name) or (isinstance(a, ast.UnaryOp) and isinstance(a.op, ast.Not) and isinstance(a.operand, ast.Name)) or \
                (isinstance(a, ast.Compare) and len(a.ops) == 1 and isinstance(a.comparators[0], ast.Constant) and
                 a.comparators[0].value in (0, False) and not isinstance(a.ops[0], (ast.Is, ast.IsNot)))
            need(presence or isinst or truth, f"Memory.__init__: unrecognised argument test `{unparse(a)}`")
            ctx.check(not truth, R, f"Memory.__init__:{unparse(a)}", "arguments are tested for presence with `is None`",
                      f"Memory.__init__ tests `{unparse(a)}` by truth value: shape 0 (a zero-width queue), depth 0 and an empty init "
                      f"are legal and must not be taken for a missing argument", f"{MEMLIB}:{node.lineno}")
    need(n >= 6, "Memory.__init__: the argument presence tests were not found")


RULES = [("R-12e", r12e), ("R-12a", r12a), ("R-12b", r12b), ("R-12c", r12c), ("R-12d", r12d)]
