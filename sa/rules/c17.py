"""C17 — clock-domain-crossing primitives (structural necessary conditions on the elaborate() bodies)."""
import ast
from ..engine.core import AnalysisError, need
from ..engine.astutil import unparse, dotted, pmatch, const_int, dump
from ..engine.hdlmodel import ElabModel

CDC = "amaranth/lib/cdc.py"
IR = "amaranth/hdl/_ir.py"

EXPLANATION = (
    "Static (ast-only) decision of structural necessary conditions of C17 on lib/cdc.py (E7 Module-DSL analyser): "
    "domain placement and chain structure — FFSynchronizer builds exactly `stages` registers (comprehension over "
    "range(self._stages)), chained input -> stage0 -> ... -> last via zip((i, *flops), flops), all in the output "
    "domain, output = last stage combinationally, each stage initialised with the given init and reset_less flag; "
    "AsyncFFSynchronizer uses a private async_reset domain whose clock is the output domain's clock and whose reset "
    "is the input (inverted for 'neg'), a chain of `stages` registers initialised to 1 shifting in 0, output = last "
    "stage, and requires a positive-edge output domain; ResetSynchronizer wraps it onto ResetSignal(domain); "
    "PulseSynchronizer toggles in the input domain, synchronises the toggle into the output domain with the given "
    "stage count and edge-detects there; stage counts are validated (>= 2). NOT decided: latency and pulse "
    "conservation over clock interleavings."
)
ASSUMPTIONS = ["CPython ast parses /repo's source as the interpreter would"]
MIN_INSTANCES = {"R-17a": 8, "R-17b": 8, "R-17c": 5}


def _flops(em):
    v = em.aliases.get("flops")
    need(isinstance(v, ast.ListComp) and len(v.generators) == 1, "flops is not a single list comprehension")
    return v


def r17a(model, ctx):
    R = "R-17a"
    fn = model.func_expanded(f"{CDC}::FFSynchronizer.elaborate", depth=3)
    em = ElabModel(fn)
    fl = _flops(em)
    ok = unparse(fl.generators[0].iter) == "range(self._stages)" and not fl.generators[0].ifs
    ctx.check(ok, R, "FFSynchronizer:stage-count", "one register per element of range(self._stages)",
              f"FFSynchronizer must build exactly `stages` registers (range(self._stages)); found {unparse(fl.generators[0].iter)}",
              f"{CDC}:{fl.lineno}")
    kw = {k.arg: unparse(k.value) for k in fl.elt.keywords} if isinstance(fl.elt, ast.Call) else {}
    ok = isinstance(fl.elt, ast.Call) and dotted(fl.elt.func) == "Signal" and unparse(fl.elt.args[0]) == "self.i.shape()" and \
        kw.get("init") == "self._init" and kw.get("reset_less") == "self._reset_less"
    ctx.check(ok, R, "FFSynchronizer:stage-signal", "Signal(i.shape(), init=init, reset_less=reset_less)",
              f"each stage must have the input's shape, the given init and reset_less flag; found {unparse(fl.elt)}", f"{CDC}:{fl.lineno}")
    loops = [s for s in fn.body if isinstance(s, ast.For)]
    ok = len(loops) == 1 and unparse(loops[0].iter) == "zip((self.i, *flops), flops)" and unparse(loops[0].target) in ("(i, o)", "i, o")
    ctx.check(ok, R, "FFSynchronizer:chain", "zip((i, *flops), flops): stage k samples stage k-1, stage 0 samples the input",
              f"the register chain must be zip((self.i, *flops), flops); found {unparse(loops[0].iter) if loops else '-'}", f"{CDC}:{fn.lineno}")
    ch = [a for a in em.assigns if a.target_text == "o"]
    ok = len(ch) == 1 and ch[0].domain == "self._o_domain" and unparse(ch[0].rhs) == "i" and not ch[0].guards
    ctx.check(ok, R, "FFSynchronizer:chain-domain", "every stage is clocked by the output domain",
              f"every stage must be registered in m.d[self._o_domain] as o.eq(i); found {ch}", f"{CDC}:{fn.lineno}")
    out = [a for a in em.assigns if a.target_text == "self.o"]
    ok = len(out) == 1 and out[0].domain == "comb" and unparse(out[0].rhs) == "flops[-1]"
    ctx.check(ok, R, "FFSynchronizer:output", "o = last stage (combinational)",
              f"the output must be the last stage, combinationally; found {out}", f"{CDC}:{fn.lineno}")
    ok = len(em.assigns) == 2
    ctx.check(ok, R, "FFSynchronizer:no-other-logic", "no other assignments", f"FFSynchronizer has unexpected assignments: {em.assigns}",
              f"{CDC}:{fn.lineno}")
    fi = model.func(f"{CDC}::FFSynchronizer.__init__")
    t = unparse(fi)
    ok = "_check_stages(stages)" in t and "self._stages = stages" in t and "self._o_domain = o_domain" in t and \
        "if init is None:\n        init = 0" in t and "self._init = init" in t and "self._reset_less = reset_less" in t
    ctx.check(ok, R, "FFSynchronizer.__init__", "parameters stored unchanged; stages validated", "FFSynchronizer.__init__ must "
              "validate stages and store o_domain, stages, init (default 0), reset_less unchanged", f"{CDC}:{fi.lineno}")
    fc = model.func(f"{CDC}::_check_stages")
    t = unparse(fc)
    ok = "not isinstance(stages, int) or stages < 1" in t and "if stages < 2" in t and t.count("raise") == 2
    ctx.check(ok, R, "_check_stages", "stages must be an int >= 2", "_check_stages must reject non-integers and stages < 2", f"{CDC}:{fc.lineno}")


def r17b(model, ctx):
    R = "R-17b"
    fn = model.func_expanded(f"{CDC}::AsyncFFSynchronizer.elaborate", depth=3)
    em = ElabModel(fn)
    t = unparse(fn)
    ok = "m.domains += ClockDomain('async_ff', async_reset=True)" in t
    ctx.check(ok, R, "AsyncFFSynchronizer:domain", "private domain async_ff with async_reset=True",
              "AsyncFFSynchronizer must use a private ClockDomain('async_ff', async_reset=True)", f"{CDC}:{fn.lineno}")
    fl = _flops(em)
    ok = unparse(fl.generators[0].iter) == "range(self._stages)" and isinstance(fl.elt, ast.Call) and \
        {k.arg: unparse(k.value) for k in fl.elt.keywords}.get("init") == "1" and unparse(fl.elt.args[0]) == "1"
    ctx.check(ok, R, "AsyncFFSynchronizer:stages", "`stages` one-bit registers initialised to 1",
              f"the chain must consist of range(self._stages) one-bit registers with init=1 (asserted until released); found "
              f"{unparse(fl)}", f"{CDC}:{fl.lineno}")
    loops = [s for s in fn.body if isinstance(s, ast.For)]
    ok = len(loops) == 1 and unparse(loops[0].iter) == "zip((0, *flops), flops)"
    ctx.check(ok, R, "AsyncFFSynchronizer:chain", "zip((0, *flops), flops): zeros are shifted in",
              f"the chain must shift in constant 0: zip((0, *flops), flops); found {unparse(loops[0].iter) if loops else '-'}", f"{CDC}:{fn.lineno}")
    ch = [a for a in em.assigns if a.target_text == "o"]
    ok = len(ch) == 1 and ch[0].domain == "async_ff" and unparse(ch[0].rhs) == "i"
    ctx.check(ok, R, "AsyncFFSynchronizer:chain-domain", "stages clocked in async_ff", f"stages must be registered in m.d.async_ff; found {ch}",
              f"{CDC}:{fn.lineno}")
    rs = [a for a in em.assigns if a.target_text == "ResetSignal('async_ff')"]
    got = {(unparse(a.rhs), tuple((unparse(c), p) for c, p in a.pyconds if "self._edge" in unparse(c))) for a in rs}
    want = {("self.i", (("self._edge == 'pos'", True),)), ("~self.i", (("self._edge == 'pos'", False),))}
    ctx.check(got == want and all(a.domain == "comb" for a in rs), R, "AsyncFFSynchronizer:reset",
              "private reset = i ('pos') / ~i ('neg'), combinationally",
              f"the private domain's reset must be self.i for async_edge='pos' and ~self.i for 'neg'; found {sorted(got)}", f"{CDC}:{fn.lineno}")
    ck = [a for a in em.assigns if a.target_text == "ClockSignal('async_ff')"]
    ok = len(ck) == 1 and ck[0].domain == "comb" and unparse(ck[0].rhs) == "ClockSignal(self._o_domain)"
    ctx.check(ok, R, "AsyncFFSynchronizer:clock", "private clock = output domain's clock",
              f"the private domain's clock must be ClockSignal(self._o_domain); found {ck}", f"{CDC}:{fn.lineno}")
    out = [a for a in em.assigns if a.target_text == "self.o"]
    ok = len(out) == 1 and out[0].domain == "comb" and unparse(out[0].rhs) == "flops[-1]"
    ctx.check(ok, R, "AsyncFFSynchronizer:output", "o = last stage", f"the output must be the last stage; found {out}", f"{CDC}:{fn.lineno}")
    ok = any(s.name is None and unparse(s.call) == "RequirePosedge(self._o_domain)" for s in em.submodules)
    ctx.check(ok, R, "AsyncFFSynchronizer:RequirePosedge", "requires a positive-edge output domain",
              "AsyncFFSynchronizer must add RequirePosedge(self._o_domain) (its private domain is positive-edge)", f"{CDC}:{fn.lineno}")
    fi = model.func(f"{CDC}::AsyncFFSynchronizer.__init__")
    t = unparse(fi)
    ok = "_check_stages(stages)" in t and "if len(i) != 1" in t and "if len(o) != 1" in t and "async_edge not in ('pos', 'neg')" in t and \
        "self._edge = async_edge" in t and "self._stages = stages" in t and "self._o_domain = o_domain" in t
    ctx.check(ok, R, "AsyncFFSynchronizer.__init__", "1-bit i/o, edge in {pos,neg}, stages validated, parameters stored",
              "AsyncFFSynchronizer.__init__ must validate widths, edge and stages and store them unchanged", f"{CDC}:{fi.lineno}")
    fr = model.func_expanded(f"{CDC}::ResetSynchronizer.elaborate", depth=3)
    ok = any(pmatch("AsyncFFSynchronizer(self.arst, ResetSignal(self._domain), o_domain=self._domain, stages=self._stages, "
                    "max_input_delay=self._max_input_delay)", n) is not None for n in ast.walk(fr))
    ctx.check(ok, R, "ResetSynchronizer.elaborate", "AsyncFFSynchronizer(arst -> ResetSignal(domain)) in that domain",
              "ResetSynchronizer must drive ResetSignal(domain) from arst through an AsyncFFSynchronizer in the same domain "
              "with the given stage count", f"{CDC}:{fr.lineno}")
    # the simulator/netlist honour RequirePosedge
    fq = model.func(f"{IR}::Design._check_domain_requires")
    t = unparse(fq)
    ok = "isinstance(fragment, RequirePosedge)" in t and "clk_edge != 'pos'" in t and "raise DomainRequirementFailed" in t
    ctx.check(ok, R, "Design._check_domain_requires", "negative-edge domains are refused for RequirePosedge",
              "RequirePosedge must be enforced (DomainRequirementFailed for clk_edge != 'pos')", f"{IR}:{fq.lineno}")


def r17c(model, ctx):
    R = "R-17c"
    fn = model.func_expanded(f"{CDC}::PulseSynchronizer.elaborate", depth=3)
    em = ElabModel(fn)
    a = [x for x in em.assigns if x.target_text == "i_toggle"]
    ok = len(a) == 1 and a[0].domain == "self._i_domain" and unparse(a[0].rhs) == "i_toggle ^ self.i"
    ctx.check(ok, R, "PulseSynchronizer:i_toggle", "toggles on each input pulse, in the input domain",
              f"i_toggle must be registered in the input domain as i_toggle ^ self.i; found {a}", f"{CDC}:{fn.lineno}")
    a = [x for x in em.assigns if x.target_text == "r_toggle"]
    ok = len(a) == 1 and a[0].domain == "self._o_domain" and unparse(a[0].rhs) == "o_toggle"
    ctx.check(ok, R, "PulseSynchronizer:r_toggle", "previous synchronised toggle, in the output domain",
              f"r_toggle must register o_toggle in the output domain; found {a}", f"{CDC}:{fn.lineno}")
    a = [x for x in em.assigns if x.target_text == "self.o"]
    ok = len(a) == 1 and a[0].domain == "comb" and unparse(a[0].rhs) in ("o_toggle ^ r_toggle", "r_toggle ^ o_toggle")
    ctx.check(ok, R, "PulseSynchronizer:o", "edge detect: o_toggle ^ r_toggle", f"o must be o_toggle ^ r_toggle; found {a}", f"{CDC}:{fn.lineno}")
    s = [x for x in em.submodules if x.name == "ff_sync"]
    ok = len(s) == 1 and unparse(s[0].call) == "FFSynchronizer(i_toggle, o_toggle, o_domain=self._o_domain, stages=self._stages)"
    ctx.check(ok, R, "PulseSynchronizer:ff_sync", "toggle resynchronised into the output domain with `stages` stages",
              f"the toggle must cross through FFSynchronizer(i_toggle, o_toggle, o_domain=self._o_domain, stages=self._stages); found "
              f"{unparse(s[0].call) if s else '-'}", f"{CDC}:{fn.lineno}")
    ok = len(em.assigns) == 3
    ctx.check(ok, R, "PulseSynchronizer:no-other-logic", "no other assignments", f"unexpected assignments: {em.assigns}", f"{CDC}:{fn.lineno}")
    fi = model.func(f"{CDC}::PulseSynchronizer.__init__")
    t = unparse(fi)
    ok = "_check_stages(stages)" in t and "self._i_domain = i_domain" in t and "self._o_domain = o_domain" in t and "self._stages = stages" in t
    ctx.check(ok, R, "PulseSynchronizer.__init__", "domains and stages stored unchanged", "PulseSynchronizer.__init__ must store its "
              "domains and stage count unchanged", f"{CDC}:{fi.lineno}")


RULES = [("R-17a", r17a), ("R-17b", r17b), ("R-17c", r17c)]
