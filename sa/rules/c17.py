"""C17 — clock-domain-crossing primitives (structural necessary conditions on the elaborate() bodies)."""
import ast
from ..engine.core import AnalysisError, need
from ..engine.astutil import unparse, dotted, pmatch, const_int, dump
from ..engine.hdlmodel import ElabModel

CDC = "amaranth/lib/cdc.py"
IR = "amaranth/hdl/_ir.py"

EXPLANATION = (
    "Static (ast-only) decision of structural necessary conditions of C17 on lib/cdc.py (E7 Module-DSL analyser): "
    "domain placement and chain structure — FFSynchronizer builds exactly `stages` registers (comprehension over "
    "range(self._stages)), chained input -> stage0 -> ... -> last via zip((i, *flops), flops), all in the output "
    "domain, output = last stage combinationally, each stage initialised with the given init and reset_less flag; "
    "AsyncFFSynchronizer uses a private async_reset domain whose clock is the output domain's clock and whose reset "
    "is the input (inverted for 'neg'), a chain of `stages` registers initialised to 1 shifting in 0, output = last "
    "stage, and requires a positive-edge output domain; ResetSynchronizer wraps it onto ResetSignal(domain); "
    "PulseSynchronizer toggles in the input domain, synchronises the toggle into the output domain with the given "
    "stage count and edge-detects there; stage counts are validated (>= 2). NOT decided: latency and pulse "
    "conservation over clock interleavings."
)
ASSUMPTIONS = ["CPython ast parses /repo's source as the interpreter would"]
MIN_INSTANCES = {"R-17a": 8, "R-17b": 8, "R-17c": 5}


class Chain:
    """a register chain in an elaborate() body, whichever way it is written"""
    def __init__(self):
        self.count = None      # text of the iterable that fixes the number of stages, e.g. range(self._stages)
        self.ctor = None       # the Signal(...) call creating one stage
        self.src = None        # text of what the first stage samples
        self.domain = None     # text of the domain the stages are registered in
        self.out = None        # text of the output driver expression, resolved to "LAST" when it is the last stage
        self.idiom = None
        self.link = "prev"     # what stage k (k >= 1) samples: "prev" for stage k-1, else the text of the expression
        self.lineno = 0


def _dom_of(aug):
    """m.d[D] += ... / m.d.D += ...  -> text of D (quoted name for the attribute form)"""
    t = aug.target
    if isinstance(t, ast.Subscript) and unparse(t.value).endswith(".d"):
        return unparse(t.slice)
    if isinstance(t, ast.Attribute) and unparse(t.value).endswith(".d"):
        return repr(t.attr)
    return None


def find_chain(fn, out_target="self.o"):
    """recognise (a) flops = [Signal(..) for _ in ITER]; for i, o in zip((SRC, *flops), flops): m.d[D] += o.eq(i)
    and (b) prev = SRC; for X in flops | for _ in ITER: X = Signal(..) ; m.d[D] += X.eq(prev); prev = X
    (after helper expansion); the output is flops[-1] or the final `prev`"""
    from ..engine.inline import propagate_locals
    ch = Chain()
    body = fn.body
    binds = {}
    for st in ast.walk(fn):
        if isinstance(st, ast.Assign) and len(st.targets) == 1 and isinstance(st.targets[0], ast.Name):
            binds.setdefault(st.targets[0].id, []).append(st.value)
    lists = {k: v[0] for k, v in binds.items() if len(v) == 1 and isinstance(v[0], ast.ListComp) and len(v[0].generators) == 1
             and isinstance(v[0].elt, ast.Call) and (dotted(v[0].elt.func) or "").split(".")[0] == "Signal"}

    def resolve_list(name):
        seen = 0
        while name not in lists and name in binds and len(binds[name]) == 1 and isinstance(binds[name][0], ast.Name) and seen < 5:
            name = binds[name][0].id
            seen += 1
        return name if name in lists else None
    last_names = set()
    for lp in ast.walk(fn):
        if not isinstance(lp, ast.For):
            continue
        # (a) zip idiom
        m = pmatch("zip((_V_SRC, *_V_F), _V_G)", lp.iter)
        if m is not None and isinstance(m["_V_F"], ast.Name) and unparse(m["_V_F"]) == unparse(m["_V_G"]) and \
                isinstance(lp.target, ast.Tuple) and len(lp.target.elts) == 2 and len(lp.body) == 1 and isinstance(lp.body[0], ast.AugAssign):
            ln = resolve_list(m["_V_F"].id)
            i_, o_ = unparse(lp.target.elts[0]), unparse(lp.target.elts[1])
            if ln is not None and pmatch(f"{o_}.eq({i_})", lp.body[0].value) is not None:
                ch.idiom, ch.count, ch.ctor = "zip", unparse(lists[ln].generators[0].iter), lists[ln].elt
                ch.src, ch.domain, ch.lineno = unparse(m["_V_SRC"]), _dom_of(lp.body[0]), lp.lineno
                last_names = {f"{m['_V_F'].id}[-1]", f"{ln}[-1]"}
                break
        # (b) running-previous idiom
        augs = [b for b in lp.body if isinstance(b, ast.AugAssign)]
        if len(augs) == 1:
            mm = pmatch("_V_X.eq(_V_P)", augs[0].value)
            if mm is not None and isinstance(mm["_V_P"], ast.Name) and isinstance(mm["_V_X"], ast.Name):
                prev, x = mm["_V_P"].id, mm["_V_X"].id
                idx = lp.body.index(augs[0])
                upd = [b for b in lp.body[idx + 1:] if isinstance(b, ast.Assign) and unparse(b.targets[0]) == prev and unparse(b.value) == x]
                if not upd:
                    continue
                ctor, count = None, None
                if isinstance(lp.target, ast.Name) and lp.target.id == x and isinstance(lp.iter, ast.Name):
                    ln = resolve_list(lp.iter.id)
                    if ln is not None:
                        ctor, count = lists[ln].elt, unparse(lists[ln].generators[0].iter)
                        last_names |= {f"{lp.iter.id}[-1]", f"{ln}[-1]"}
                else:
                    mk = [b for b in lp.body[:idx] if isinstance(b, ast.Assign) and unparse(b.targets[0]) == x and
                          isinstance(b.value, ast.Call) and (dotted(b.value.func) or "").split(".")[0] == "Signal"]
                    if len(mk) == 1:
                        ctor, count = mk[0].value, unparse(lp.iter)
                if ctor is None:
                    continue
                # the initial value of `prev` before the loop
                init = [v for v in binds.get(prev, []) if unparse(v) != x]
                if len(init) != 1:
                    continue
                ch.idiom, ch.count, ch.ctor, ch.src, ch.domain, ch.lineno = "prev", count, ctor, unparse(init[0]), _dom_of(augs[0]), lp.lineno
                last_names |= {prev}
                break
    if ch.idiom is None:
        # (c) indexed idiom: m.d[D] += F[0].eq(SRC); for K in range(1, N): m.d[D] += F[K].eq(F[K - 1])
        for lp in ast.walk(fn):
            if not (isinstance(lp, ast.For) and isinstance(lp.target, ast.Name) and len(lp.body) == 1 and isinstance(lp.body[0], ast.AugAssign)):
                continue
            k = lp.target.id
            mm = pmatch(f"_V_F[{k}].eq(_V_E)", lp.body[0].value)
            mr = pmatch("range(1, _V_N)", lp.iter)
            if mm is None or mr is None or not isinstance(mm["_V_F"], ast.Name):
                continue
            ln = resolve_list(mm["_V_F"].id)
            if ln is None:
                continue
            fname = mm["_V_F"].id
            firsts = [(st, pmatch(f"{fname}[0].eq(_V_S)", st.value)) for st in ast.walk(fn) if isinstance(st, ast.AugAssign)]
            firsts = [(st, m) for st, m in firsts if m is not None]
            cnt = lists[ln].generators[0].iter
            mc = pmatch("range(_V_N)", cnt)
            n_ok = mc is not None and unparse(mr["_V_N"]) in (unparse(mc["_V_N"]), f"len({fname})", f"len({ln})")
            if len(firsts) != 1 or not n_ok or _dom_of(firsts[0][0]) != _dom_of(lp.body[0]):
                continue
            ch.idiom, ch.count, ch.ctor = "indexed", unparse(cnt), lists[ln].elt
            ch.src, ch.domain, ch.lineno = unparse(firsts[0][1]["_V_S"]), _dom_of(lp.body[0]), lp.lineno
            e = unparse(mm["_V_E"])
            ch.link = "prev" if e in (f"{fname}[{k} - 1]", f"{fname}[-1 + {k}]") else e
            last_names = {f"{fname}[-1]", f"{ln}[-1]"}
            break
    if ch.idiom is None:
        return None
    # the output driver
    for st in ast.walk(fn):
        for c in ast.walk(st) if isinstance(st, (ast.AugAssign,)) else ():
            m = pmatch(f"{out_target}.eq(_V_E)", c)
            if m is not None:
                e = unparse(m["_V_E"])
                seen = 0
                while e not in last_names and e in binds and len(binds[e]) == 1 and seen < 5:
                    e = unparse(binds[e][0])
                    seen += 1
                ch.out = ("LAST" if e in last_names else e, _dom_of(st))
    return ch


def _stored(model, ref, exclude=()):
    """for every path of a constructor that does not raise: {attribute: canonical text of the stored value}, plus the
    calls made; module-level helpers are expanded except `exclude`"""
    from ..engine import refsem
    rel, qual = ref.split("::")
    table = refsem.inline_table(model, rel, qual.rsplit(".", 1)[0], exclude=tuple(exclude) + (qual.rsplit(".", 1)[-1],))
    fn, paths = refsem.method_paths(model, ref, inline=table)
    out = []
    for p in paths:
        if p.how == "raise":
            continue
        st, calls = {}, []
        for e in p.effects:
            if isinstance(e, ast.Assign):
                for t in e.targets:
                    if isinstance(t, ast.Attribute) and unparse(t.value) == "self":
                        st[t.attr] = unparse(e.value)
            elif isinstance(e, ast.Call):
                calls.append(unparse(e))
            elif isinstance(e, (ast.For, ast.While)):
                calls.append("LOOP:" + unparse(e))
        out.append((p, st, calls))
    return fn, out


def _width_one_checked(fn, names):
    """`if len(X) != 1: raise ValueError` for every X in names — written out, or as a loop over a tuple naming them"""
    t = unparse(fn)
    if all(f"if len({n}) != 1:" in t for n in names):
        return True
    for lp in ast.walk(fn):
        if isinstance(lp, ast.For) and isinstance(lp.iter, (ast.Tuple, ast.List)):
            elems = {x.id for e in lp.iter.elts for x in ast.walk(e) if isinstance(x, ast.Name)}
            tvars = {x.id for x in ast.walk(lp.target) if isinstance(x, ast.Name)}
            for st in lp.body:
                if isinstance(st, ast.If) and any(isinstance(r, ast.Raise) and "ValueError" in unparse(r) for r in st.body):
                    m = pmatch("len(_V_X) != 1", st.test)
                    if m is not None and unparse(m["_V_X"]) in tvars and set(names) <= elems:
                        return True
    return False


def _flops(em):
    v = em.aliases.get("flops")
    need(isinstance(v, ast.ListComp) and len(v.generators) == 1, "flops is not a single list comprehension")
    return v


def r17a(model, ctx):
    R = "R-17a"
    fn = model.func_expanded(f"{CDC}::FFSynchronizer.elaborate", depth=3)
    em = ElabModel(fn)
    fv = model.func_view(f"{CDC}::FFSynchronizer.elaborate", depth=3)
    ch = find_chain(fv)
    need(ch is not None, "FFSynchronizer.elaborate: register chain not recognised (neither the zip((i, *flops), flops) nor the "
                         "running-previous idiom)")
    ok = ch.count == "range(self._stages)"
    ctx.check(ok, R, "FFSynchronizer:stage-count", "one register per element of range(self._stages)",
              f"FFSynchronizer must build exactly `stages` registers (range(self._stages)); found {ch.count}",
              f"{CDC}:{ch.lineno}")
    kw = {k.arg: unparse(k.value) for k in ch.ctor.keywords}
    ok = dotted(ch.ctor.func) == "Signal" and ch.ctor.args and unparse(ch.ctor.args[0]) == "self.i.shape()" and \
        kw.get("init") == "self._init" and kw.get("reset_less") == "self._reset_less"
    ctx.check(ok, R, "FFSynchronizer:stage-signal", "Signal(i.shape(), init=init, reset_less=reset_less)",
              f"each stage must have the input's shape, the given init and reset_less flag; found {unparse(ch.ctor)}", f"{CDC}:{ch.lineno}")
    ctx.check(ch.src == "self.i" and ch.link == "prev", R, "FFSynchronizer:chain", "stage k samples stage k-1, stage 0 samples the input",
              f"the register chain must start from self.i and feed each stage from the previous one; the first stage samples {ch.src}, "
              f"stage k samples {'stage k-1' if ch.link == 'prev' else ch.link}",
              f"{CDC}:{fn.lineno}")
    ctx.check(ch.domain == "self._o_domain", R, "FFSynchronizer:chain-domain", "every stage is clocked by the output domain",
              f"every stage must be registered in m.d[self._o_domain]; found {ch.domain}", f"{CDC}:{fn.lineno}")
    ctx.check(ch.out == ("LAST", "'comb'"), R, "FFSynchronizer:output", "o = last stage (combinational)",
              f"the output must be the last stage, combinationally; found {ch.out}", f"{CDC}:{fn.lineno}")
    # no other logic: every m.d assignment of the body is a chain stage or the output driver
    augs = [x for x in ast.walk(fv) if isinstance(x, ast.AugAssign) and _dom_of(x) is not None]
    ok = len(augs) == 2
    ctx.check(ok, R, "FFSynchronizer:no-other-logic", "no other assignments",
              f"FFSynchronizer has unexpected assignments: {[unparse(x) for x in augs]}", f"{CDC}:{fn.lineno}")
    fi, stored = _stored(model, f"{CDC}::FFSynchronizer.__init__", exclude=("_check_stages", "_check_max_input_delay"))
    need(stored, "FFSynchronizer.__init__: no completing path")
    ok = True
    for p, st, calls in stored:
        ok = ok and "_check_stages(stages)" in calls and st.get("_stages") == "stages" and st.get("_o_domain") == "o_domain" and \
            st.get("_reset_less") == "reset_less"
        # init: the given init, else the (deprecated) reset, else 0
        none_init = any(unparse(c) == "init is None" and pol for c, pol in p.conds) or \
            any(unparse(c) == "init is not None" and not pol for c, pol in p.conds)
        has_reset = any(unparse(c) == "reset is not None" and pol for c, pol in p.conds) or \
            any(unparse(c) == "reset is None" and not pol for c, pol in p.conds)
        want = "reset" if has_reset else ("0" if none_init else "init")
        ok = ok and st.get("_init") == want
    ctx.check(ok, R, "FFSynchronizer.__init__", "parameters stored unchanged; stages validated", "FFSynchronizer.__init__ must "
              "validate stages and store o_domain, stages, init (default 0), reset_less unchanged", f"{CDC}:{fi.lineno}")
    fc = model.func(f"{CDC}::_check_stages")
    ok = _stages_predicate(fc)
    ctx.check(ok, R, "_check_stages", "stages must be an int >= 2", "_check_stages must reject non-integers and stages < 2", f"{CDC}:{fc.lineno}")


def _stages_predicate(fc):
    """_check_stages raises exactly when `stages` is not an int or is < 2: the function's paths are evaluated over the finite
    abstraction (ints 0..3, non-ints 0.5..3.5) — every condition has to be built from isinstance(stages, int) and comparisons of
    `stages` with integer literals, anything else is not decided here."""
    from ..engine.symx import run_paths
    arg = fc.args.args[0].arg
    paths = run_paths(fc.body)
    need(paths, "_check_stages has no paths")

    def ev(e, isint, v):
        if isinstance(e, ast.BoolOp):
            vals = [ev(x, isint, v) for x in e.values]
            return all(vals) if isinstance(e.op, ast.And) else any(vals)
        if isinstance(e, ast.UnaryOp) and isinstance(e.op, ast.Not):
            return not ev(e.operand, isint, v)
        if isinstance(e, ast.Call) and unparse(e) == f"isinstance({arg}, int)":
            return isint
        if isinstance(e, ast.Compare):
            terms = [e.left, *e.comparators]
            xs = []
            for t in terms:
                if isinstance(t, ast.Name) and t.id == arg:
                    xs.append(v)
                else:
                    c = const_int(t)
                    need(c is not None, f"_check_stages condition `{unparse(e)}` not recognised")
                    xs.append(c)
            import operator as _o
            ops = {ast.Lt: _o.lt, ast.LtE: _o.le, ast.Gt: _o.gt, ast.GtE: _o.ge, ast.Eq: _o.eq, ast.NotEq: _o.ne}
            out = True
            for a, op, b in zip(xs, e.ops, xs[1:]):
                need(type(op) in ops, f"_check_stages condition `{unparse(e)}` not recognised")
                out = out and ops[type(op)](a, b)
            return out
        if isinstance(e, ast.Constant) and isinstance(e.value, bool):
            return e.value
        need(False, f"_check_stages condition `{unparse(e)}` not recognised")

    # non-integers are represented by floats between the integers: a comparison does not reject them by itself (a value
    # that cannot be compared at all raises TypeError there, which is a rejection)
    for isint in (True, False):
        for v in ((0, 1, 2, 3) if isint else (0.5, 1.5, 2.5, 3.5)):
            taken = None
            for p in paths:
                if all(_short(ev, c, isint, v) == pol for c, pol in p.conds):
                    taken = p
                    break
            need(taken is not None, "_check_stages: no path for some input")
            raises = taken.how == "raise"
            if raises != ((not isint) or v < 2):
                return False
    return True


def _short(ev, c, isint, v):
    """conditions are evaluated with Python's short-circuit order, so `not isinstance(..) or stages < 1` never compares a
    non-integer"""
    if isinstance(c, ast.BoolOp):
        for x in c.values:
            r = _short(ev, x, isint, v)
            if isinstance(c.op, ast.And) and not r:
                return False
            if isinstance(c.op, ast.Or) and r:
                return True
        return isinstance(c.op, ast.And)
    if isinstance(c, ast.UnaryOp) and isinstance(c.op, ast.Not):
        return not _short(ev, c.operand, isint, v)
    return ev(c, isint, v)


def r17b(model, ctx):
    R = "R-17b"
    fn = model.func_expanded(f"{CDC}::AsyncFFSynchronizer.elaborate", depth=3)
    em = ElabModel(fn)
    t = unparse(fn)
    # the private domain, however it is added (m.domains += ..., m.domains.async_ff = ...) and whatever else it is given (local=True)
    doms = [c for c in ast.walk(fn) if isinstance(c, ast.Call) and dotted(c.func) == "ClockDomain" and
            ((c.args and isinstance(c.args[0], ast.Constant) and c.args[0].value == "async_ff") or
             any(k.arg == "name" and isinstance(k.value, ast.Constant) and k.value.value == "async_ff" for k in c.keywords))]
    ok = len(doms) == 1 and any(k.arg == "async_reset" and isinstance(k.value, ast.Constant) and k.value.value is True
                                for k in doms[0].keywords) and \
        not any(k.arg in ("clk_edge", "reset_less") for k in doms[0].keywords) and "m.domains" in t
    ctx.check(ok, R, "AsyncFFSynchronizer:domain", "private domain async_ff with async_reset=True",
              "AsyncFFSynchronizer must use a private ClockDomain('async_ff', async_reset=True)", f"{CDC}:{fn.lineno}")
    fv = model.func_view(f"{CDC}::AsyncFFSynchronizer.elaborate", depth=3)
    ch = find_chain(fv)
    need(ch is not None, "AsyncFFSynchronizer.elaborate: register chain not recognised")
    ok = ch.count == "range(self._stages)" and {k.arg: unparse(k.value) for k in ch.ctor.keywords}.get("init") == "1" and \
        ch.ctor.args and unparse(ch.ctor.args[0]) == "1"
    ctx.check(ok, R, "AsyncFFSynchronizer:stages", "`stages` one-bit registers initialised to 1",
              f"the chain must consist of range(self._stages) one-bit registers with init=1 (asserted until released); found "
              f"{unparse(ch.ctor)} over {ch.count}", f"{CDC}:{ch.lineno}")
    ctx.check(ch.src == "0" and ch.link == "prev", R, "AsyncFFSynchronizer:chain", "zeros are shifted in, stage k samples stage k-1",
              f"the chain must shift constant 0 through every stage in turn; the first stage samples {ch.src}, stage k samples "
              f"{'stage k-1' if ch.link == 'prev' else ch.link} (stages fed in parallel release together: a metastable first stage "
              f"reaches the output after one flop)", f"{CDC}:{fn.lineno}")
    ctx.check(ch.domain == "'async_ff'", R, "AsyncFFSynchronizer:chain-domain", "stages clocked in async_ff",
              f"stages must be registered in m.d.async_ff; found {ch.domain}", f"{CDC}:{fn.lineno}")
    rs = [a for a in em.assigns if a.target_text == "ResetSignal('async_ff')"]
    got = set()
    for a in rs:
        conds = tuple((unparse(c), p) for c, p in a.pyconds if "self._edge" in unparse(c))
        rhs = a.rhs
        if isinstance(rhs, ast.Name) and isinstance(em.aliases.get(rhs.id), ast.AST):
            rhs = em.aliases[rhs.id]
        if isinstance(rhs, ast.IfExp) and "self._edge" in unparse(rhs.test):
            got.add((unparse(rhs.body), conds + ((unparse(rhs.test), True),)))
            got.add((unparse(rhs.orelse), conds + ((unparse(rhs.test), False),)))
        else:
            got.add((unparse(rhs), conds))

    def norm(item):
        rhs, conds = item
        out = []
        for c, p in conds:
            if c == "self._edge == 'neg'":
                c, p = "self._edge == 'pos'", not p
            if c == "self._edge != 'pos'":
                c, p = "self._edge == 'pos'", not p
            out.append((c, p))
        return (rhs, tuple(out))
    got = {norm(x) for x in got}
    want = {("self.i", (("self._edge == 'pos'", True),)), ("~self.i", (("self._edge == 'pos'", False),))}
    ctx.check(got == want and all(a.domain == "comb" for a in rs), R, "AsyncFFSynchronizer:reset",
              "private reset = i ('pos') / ~i ('neg'), combinationally",
              f"the private domain's reset must be self.i for async_edge='pos' and ~self.i for 'neg'; found {sorted(got)}", f"{CDC}:{fn.lineno}")
    ck = [a for a in em.assigns if a.target_text == "ClockSignal('async_ff')"]
    ok = len(ck) == 1 and ck[0].domain == "comb" and unparse(ck[0].rhs) == "ClockSignal(self._o_domain)"
    ctx.check(ok, R, "AsyncFFSynchronizer:clock", "private clock = output domain's clock",
              f"the private domain's clock must be ClockSignal(self._o_domain); found {ck}", f"{CDC}:{fn.lineno}")
    ctx.check(ch.out == ("LAST", "'comb'"), R, "AsyncFFSynchronizer:output", "o = last stage",
              f"the output must be the last stage; found {ch.out}", f"{CDC}:{fn.lineno}")
    ok = any(s.name is None and unparse(s.call) == "RequirePosedge(self._o_domain)" for s in em.submodules)
    ctx.check(ok, R, "AsyncFFSynchronizer:RequirePosedge", "requires a positive-edge output domain",
              "AsyncFFSynchronizer must add RequirePosedge(self._o_domain) (its private domain is positive-edge)", f"{CDC}:{fn.lineno}")
    fi, stored = _stored(model, f"{CDC}::AsyncFFSynchronizer.__init__", exclude=("_check_stages", "_check_max_input_delay"))
    need(stored, "AsyncFFSynchronizer.__init__: no completing path")
    t = unparse(fi)
    ok = _width_one_checked(fi, ("i", "o")) and ("async_edge not in ('pos', 'neg')" in t or "async_edge not in ['pos', 'neg']" in t)
    for p, st, calls in stored:
        ok = ok and "_check_stages(stages)" in calls and st.get("_edge") == "async_edge" and st.get("_stages") == "stages" and \
            st.get("_o_domain") == "o_domain"
    ctx.check(ok, R, "AsyncFFSynchronizer.__init__", "1-bit i/o, edge in {pos,neg}, stages validated, parameters stored",
              "AsyncFFSynchronizer.__init__ must validate widths, edge and stages and store them unchanged", f"{CDC}:{fi.lineno}")
    fr = model.func_expanded(f"{CDC}::ResetSynchronizer.elaborate", depth=3)
    ok = any(pmatch("AsyncFFSynchronizer(self.arst, ResetSignal(self._domain), o_domain=self._domain, stages=self._stages, "
                    "max_input_delay=self._max_input_delay)", n) is not None for n in ast.walk(fr))
    ctx.check(ok, R, "ResetSynchronizer.elaborate", "AsyncFFSynchronizer(arst -> ResetSignal(domain)) in that domain",
              "ResetSynchronizer must drive ResetSignal(domain) from arst through an AsyncFFSynchronizer in the same domain "
              "with the given stage count", f"{CDC}:{fr.lineno}")
    # the simulator/netlist honour RequirePosedge
    fq = model.func(f"{IR}::Design._check_domain_requires")
    t = unparse(fq)
    ok = "isinstance(fragment, RequirePosedge)" in t and "clk_edge != 'pos'" in t and "raise DomainRequirementFailed" in t
    ctx.check(ok, R, "Design._check_domain_requires", "negative-edge domains are refused for RequirePosedge",
              "RequirePosedge must be enforced (DomainRequirementFailed for clk_edge != 'pos')", f"{IR}:{fq.lineno}")


def r17c(model, ctx):
    R = "R-17c"
    fn = model.func_expanded(f"{CDC}::PulseSynchronizer.elaborate", depth=3)
    em = ElabModel(fn)
    a = [x for x in em.assigns if x.target_text == "i_toggle"]
    ok = len(a) == 1 and a[0].domain == "self._i_domain" and unparse(a[0].rhs) == "i_toggle ^ self.i"
    ctx.check(ok, R, "PulseSynchronizer:i_toggle", "toggles on each input pulse, in the input domain",
              f"i_toggle must be registered in the input domain as i_toggle ^ self.i; found {a}", f"{CDC}:{fn.lineno}")
    a = [x for x in em.assigns if x.target_text == "r_toggle"]
    ok = len(a) == 1 and a[0].domain == "self._o_domain" and unparse(a[0].rhs) == "o_toggle"
    ctx.check(ok, R, "PulseSynchronizer:r_toggle", "previous synchronised toggle, in the output domain",
              f"r_toggle must register o_toggle in the output domain; found {a}", f"{CDC}:{fn.lineno}")
    a = [x for x in em.assigns if x.target_text == "self.o"]
    ok = len(a) == 1 and a[0].domain == "comb" and unparse(a[0].rhs) in ("o_toggle ^ r_toggle", "r_toggle ^ o_toggle")
    ctx.check(ok, R, "PulseSynchronizer:o", "edge detect: o_toggle ^ r_toggle", f"o must be o_toggle ^ r_toggle; found {a}", f"{CDC}:{fn.lineno}")
    s = [x for x in em.submodules if x.name == "ff_sync"]
    ok = len(s) == 1 and unparse(em.expand(s[0].call)) == "FFSynchronizer(i_toggle, o_toggle, o_domain=self._o_domain, stages=self._stages)"
    ctx.check(ok, R, "PulseSynchronizer:ff_sync", "toggle resynchronised into the output domain with `stages` stages",
              f"the toggle must cross through FFSynchronizer(i_toggle, o_toggle, o_domain=self._o_domain, stages=self._stages); found "
              f"{unparse(s[0].call) if s else '-'}", f"{CDC}:{fn.lineno}")
    ok = len(em.assigns) == 3
    ctx.check(ok, R, "PulseSynchronizer:no-other-logic", "no other assignments", f"unexpected assignments: {em.assigns}", f"{CDC}:{fn.lineno}")
    fi, stored = _stored(model, f"{CDC}::PulseSynchronizer.__init__", exclude=("_check_stages",))
    need(stored, "PulseSynchronizer.__init__: no completing path")
    ok = True
    for p, st, calls in stored:
        ok = ok and "_check_stages(stages)" in calls and st.get("_i_domain") == "i_domain" and st.get("_o_domain") == "o_domain" and \
            st.get("_stages") == "stages"
    ctx.check(ok, R, "PulseSynchronizer.__init__", "domains and stages stored unchanged", "PulseSynchronizer.__init__ must store its "
              "domains and stage count unchanged", f"{CDC}:{fi.lineno}")


RULES = [("R-17a", r17a), ("R-17b", r17b), ("R-17c", r17c)]
