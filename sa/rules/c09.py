"""C09 — elaboration and simulation are reproducible (structural necessary conditions)."""
import ast
from ..engine.core import AnalysisError, need
from ..engine.symx import run_paths
from ..engine.astutil import (const_str, const_int, dotted, unparse, pmatch, walk_no_nested, dump, names_in, last_name)
from ..engine.settypes import SetInfo
from ..engine.cfg import CFG
from .interp import IR, NIR, RTLIL, PYRTL, XFRM

PYSIM = "amaranth/sim/pysim.py"
ASYNC = "amaranth/sim/_async.py"
CLOCK = "amaranth/sim/_pyclock.py"
CORE = "amaranth/sim/core.py"
RUN = "amaranth/build/run.py"
PLAT = "amaranth/build/plat.py"

EXPLANATION = (
    "Static (ast-only) decision of structural necessary conditions of C09: (a) determinism lint — every "
    "order-observing use (for / comprehension / list() / join / pop / unpack) of a hash-ordered (set-typed) expression "
    "in amaranth/ is either wrapped in sorted() or is one of the enumerated sites whose order cannot reach an output "
    "(int-only elements, keyed stores consumed through sorted(), commutative bodies); no other source of "
    "run-to-run variation (time, random, uuid, id(), hash(), os.urandom, getpid) is called on the elaboration, "
    "back-end or build-plan paths; (b) reset completeness — for every class with a reset() on the simulation path, "
    "each attribute mutated while running is re-initialised by reset() (or explicitly exempted with a reason), and "
    "container resets reach the elements; (c) build plan: digest and archive iterate sorted(self.files), archive "
    "members are written through ZipInfo (fixed timestamp), extract writes exactly self.files. NOT decided: byte "
    "identity itself."
)
ASSUMPTIONS = ["CPython ast parses /repo's source as the interpreter would",
               "set-typedness is inferred locally (constructors, attributes initialised as sets, set-returning methods); "
               "dicts, SignalSet and SignalDict are insertion/identity ordered and not flagged",
               "the table of allowed unordered-iteration sites in sa/rules/c09.py (one reason each)"]
MIN_INSTANCES = {"R-09a": 8, "R-09b": 18, "R-09c": 5, "R-09d": 1}

# (qualified function, iterated expression) -> why the iteration order cannot reach an output
ALLOWED = {
    ("_compute_net_flows", "cell.output_nets(cell_idx)"): "elements are Net (int): iteration order does not depend on the hash seed",
    ("_compute_net_flows", "cell.input_nets()"): "elements are Net (int)",
    ("_compute_ionet_dirs", "cell.io_nets()"): "stores keyed by the net; every consumer iterates sorted(module.ionet_dir)",
    ("Netlist.check_comb_cycles", "cell.output_nets(cell_idx)"): "elements are Net (int); only raises or passes",
    ("Netlist.check_comb_cycles.traverse", "cell.output_nets(net.cell)"): "elements are Net (int)",
    ("_FragmentCompiler.__call__", "domains"): "one independent process per domain; only slot numbering varies, which no output shows",
    ("_PyTimeline.advance", "nearest_wakers"): "wakers with one deadline; each only sets flags (C08 R-08c)",
    ("_PyEngineState.commit", "self.pending"): "each state commits itself (C08 R-08c)",
    ("PySimEngine.step_design", "self._active_triggers"): "each trigger touches its own process (C08 R-08c)",
    ("PySimEngine.step_design", "self._processes"): "two-phase discipline (C08 R-08a/c)",
    ("PySimEngine.step_design", "changed"): "VCD updates at one timestamp, keyed by signal",
    ("PySimEngine.reset", "self._processes"): "per-process reset",
    ("__dir__", "{*globals(), *__all__}"): "presentation only (vendor.__dir__)",
}
EXTRA_SET_ATTRS = {"_processes"}   # assigned from _FragmentCompiler.__call__, which returns a set

NONDET_CALLS = {"time.time", "time.time_ns", "time.monotonic", "time.perf_counter", "datetime.now", "datetime.datetime.now",
                "datetime.utcnow", "random.random", "random.randint", "random.choice", "random.randbytes", "random.shuffle",
                "uuid.uuid4", "uuid.uuid1", "os.urandom", "os.getpid", "id", "hash", "secrets.token_hex"}
# call sites of such functions that are allowed, with the reason
NONDET_ALLOWED = {
    ("amaranth/hdl/_ir.py", "NetlistEmitter.emit_rhs", "id"): "cache key only (object identity of the AST node); never emitted",
    ("amaranth/build/run.py", "BuildPlan.execute_local_docker", "random.randbytes"): "container name of a local docker run, not part of the plan",
}


def r09a(model, ctx):
    R = "R-09a"
    thorough = ctx.tier == "thorough"
    files = [f for f in model.all_files()]
    si = SetInfo(model, files)
    si.set_attrs |= EXTRA_SET_ATTRS
    seen = set()
    n_sites = 0
    for rel in files:
        for q, kind, expr, node in si.uses(rel):
            n_sites += 1
            key = (q, expr)
            cons = f"{q}:{kind}:{expr}"
            if key in ALLOWED:
                seen.add(key)
                ctx.ok(R, cons, ALLOWED[key], f"{rel}:{node.lineno}")
            else:
                ctx.viol(R, cons,
                         f"{kind} over the hash-ordered expression `{expr}` in {q}: its iteration order depends on the "
                         f"hash seed / object addresses, and this site is not one of the enumerated order-insensitive "
                         f"ones — wrap it in sorted(), or use an insertion-ordered container", f"{rel}:{node.lineno}")
    need(n_sites >= 8, f"only {n_sites} unordered-iteration sites recognised (set inference broken?)")
    # containers that must stay ordered (their iteration order reaches the output)
    ORDERED = [
        (IR, "Fragment.__init__", "self.statements", ("{}",)),
        (IR, "Fragment.__init__", "self.domains", ("OrderedDict()",)),
        (IR, "Fragment.__init__", "self.subfragments", ("[]",)),
        (IR, "DesignFragmentInfo.__init__", "self.used_signals", ("_ast.SignalDict()",)),
        (IR, "DesignFragmentInfo.__init__", "self.used_io_ports", ("{}",)),
        (IR, "DesignFragmentInfo.__init__", "self.signal_names", ("_ast.SignalDict()",)),
        (IR, "NetlistEmitter.__init__", "self.drivers", ("_ast.SignalDict()",)),
        (NIR, "Netlist.__init__", "self.cells", None),
        (NIR, "Netlist.__init__", "self.signals", ("SignalDict()",)),
        (NIR, "Module.__init__", "self.ports", ("{}",)),
        (NIR, "Module.__init__", "self.io_ports", ("{}",)),
        (NIR, "Module.__init__", "self.cells", ("[]",)),
        (NIR, "Module.__init__", "self.submodules", ("[]",)),
        (RTLIL, "Module.__init__", "self.contents", ("{}",)),
        (RTLIL, "Module.__init__", "self.connections", ("[]",)),
        (RUN, "BuildPlan.__init__", "self.files", ("OrderedDict()",)),
    ]
    for rel, q, attr, allowed in ORDERED:
        f = model.func(f"{rel}::{q}")
        vals = []
        for s in ast.walk(f):
            if isinstance(s, (ast.Assign, ast.AnnAssign)):
                tg = s.targets if isinstance(s, ast.Assign) else [s.target]
                if any(unparse(t) == attr for t in tg) and s.value is not None:
                    vals.append(s.value)
        need(len(vals) == 1, f"{rel}::{q}: initialisation of {attr} not found")
        bad = si.is_set(vals[0])
        ctx.check(not bad, R, f"{q}:{attr}", f"ordered container ({unparse(vals[0])})",
                  f"{attr} is initialised as a hash-ordered set ({unparse(vals[0])}) but its iteration order reaches the "
                  f"output (names, port order, cell order)", f"{rel}:{f.lineno}")
    # port / net orders that must be sorted
    f = model.func(f"{IR}::_compute_ports")
    ok = any(isinstance(s, ast.For) and isinstance(s.iter, ast.Call) and dotted(s.iter.func) == "sorted" and
             "module.net_flow" in unparse(s.iter) for s in ast.walk(f))
    ctx.check(ok, R, "_compute_ports:sorted(net_flow)", "ports are formed from nets in sorted order",
              "ports must be formed by iterating sorted(module.net_flow)", f"{IR}:{f.lineno}")
    f = model.func(f"{IR}::_compute_io_ports")
    ok = any(isinstance(s, ast.For) and isinstance(s.iter, ast.Call) and dotted(s.iter.func) == "sorted" and
             "module.ionet_dir" in unparse(s.iter) for s in ast.walk(f))
    ctx.check(ok, R, "_compute_io_ports:sorted(ionet_dir)", "io ports are formed from nets in sorted order",
              "io ports must be formed by iterating sorted(module.ionet_dir)", f"{IR}:{f.lineno}")
    # other sources of run-to-run variation on the elaboration / backend / build paths
    scope = [f_ for f_ in files if f_.startswith(("amaranth/hdl/", "amaranth/back/", "amaranth/build/", "amaranth/lib/",
                                                   "amaranth/vendor/")) or f_ in ("amaranth/_utils.py", "amaranth/utils.py")]
    for rel in scope:
        m = model.mod(rel)
        imported = {a.asname or a.name for n in ast.walk(m.tree) if isinstance(n, ast.Import) for a in n.names}
        for n in ast.walk(m.tree):
            if isinstance(n, ast.Call):
                cn = dotted(n.func)
                if cn in NONDET_CALLS and (cn in ("id", "hash") or cn.split(".")[0] in imported):
                    q = m.qualname_of(n)
                    if cn == "hash" and q.endswith("__hash__"):
                        continue
                    key = (rel, q, cn)
                    ok = key in NONDET_ALLOWED
                    ctx.check(ok, R, f"nondeterministic-call:{q}:{cn}", NONDET_ALLOWED.get(key, ""),
                              f"{q} calls {cn}() on an output-affecting path: its value differs between runs",
                              f"{rel}:{n.lineno}")
    # SignalKey orders by DUID (creation order), not by id()
    f = model.func("amaranth/hdl/_ast.py::SignalKey.__init__")
    t = unparse(f)
    ok = "signal.duid" in t and "id(" not in t.replace("duid(", "")
    ctx.check(ok, R, "SignalKey.__init__", "signals are keyed by DUID (creation order)",
              "SignalKey must order signals by their DUID, never by id()", f"amaranth/hdl/_ast.py:{f.lineno}")


# ---------------------------------------------------------------------------------------------- R-09b

MUTATORS = {"add", "append", "clear", "pop", "update", "remove", "discard", "extend", "insert", "setdefault", "popitem"}

RESET_CLASSES = [
    (PYSIM, "PySimEngine"), (PYSIM, "_PyEngineState"), (PYSIM, "_PySignalState"), (PYSIM, "_PyMemoryState"),
    (PYSIM, "_PyTimeline"), (CLOCK, "PyClockProcess"), (PYRTL, "PyRTLProcess"), (ASYNC, "AsyncProcess"),
]
# attribute -> reason it need not be re-initialised by reset()
EXEMPT = {
    ("PySimEngine", "_delta_cycles"): "only offsets VCD delta timestamps",
    ("PySimEngine", "_active_triggers"): "stale entries only re-mark already runnable processes; cleared every step",
    ("PySimEngine", "_processes"): "configuration: only grown before running",
    ("PySimEngine", "_testbenches"): "configuration: only grown before running",
    ("PySimEngine", "_vcd_writers"): "configuration: managed by the write_vcd context manager",
    ("_PyEngineState", "slots"): "allocation table: elements are reset individually",
    ("_PyEngineState", "signals"): "allocation table (signal -> slot)",
    ("_PyEngineState", "memories"): "allocation table (memory -> slot)",
    ("_PySignalState", "wakers"): "configuration wakers always return True; stale trigger wakers mark themselves broken and drop out",
    ("_PyMemoryState", "wakers"): "as for signals",
    ("_PySignalState", "is_comb"): "configuration: set once by the fragment compiler",
    ("PyRTLProcess", "run"): "configuration: compiled code",
    ("_PySignalState", "pending"): "alias of _PyEngineState.pending, which _PyEngineState.reset() clears",
    ("_PyMemoryState", "pending"): "alias of _PyEngineState.pending, which _PyEngineState.reset() clears",
}


def _class_attr_facts(model, rel, cname):
    c = model.cls(f"{rel}::{cname}")
    ms = model.class_methods(c)
    init_assign = {}
    init_calls_reset = False
    if "__init__" in ms:
        for s in ast.walk(ms["__init__"]):
            if isinstance(s, ast.Assign):
                for t in s.targets:
                    for x in ([t] if not isinstance(t, ast.Tuple) else t.elts):
                        if isinstance(x, ast.Attribute) and unparse(x.value) == "self":
                            init_assign[x.attr] = s.value
            if isinstance(s, ast.Call) and unparse(s.func) == "self.reset":
                init_calls_reset = True
    mutated = {}
    for name, fn in ms.items():
        if name in ("__init__", "reset"):
            continue
        for n in ast.walk(fn):
            tg = []
            if isinstance(n, ast.Assign):
                tg = n.targets
            elif isinstance(n, ast.AugAssign):
                tg = [n.target]
            elif isinstance(n, ast.Delete):
                tg = n.targets
            for t in tg:
                for x in ([t] if not isinstance(t, ast.Tuple) else t.elts):
                    base = x
                    while isinstance(base, ast.Subscript):
                        base = base.value
                    if isinstance(base, ast.Attribute) and unparse(base.value) == "self":
                        mutated.setdefault(base.attr, []).append((name, n.lineno))
            if isinstance(n, ast.Call) and isinstance(n.func, ast.Attribute) and n.func.attr in MUTATORS:
                b = n.func.value
                if isinstance(b, ast.Attribute) and unparse(b.value) == "self":
                    mutated.setdefault(b.attr, []).append((name, n.lineno))
    reset_assign = {}
    reset_calls = set()
    if "reset" in ms:
        for s in ast.walk(ms["reset"]):
            if isinstance(s, ast.Assign):
                for t in s.targets:
                    if isinstance(t, ast.Attribute) and unparse(t.value) == "self":
                        reset_assign[t.attr] = s.value
            if isinstance(s, ast.Call) and isinstance(s.func, ast.Attribute):
                b = s.func.value
                if isinstance(b, ast.Attribute) and unparse(b.value) == "self" and s.func.attr in ("clear", "reset"):
                    reset_calls.add(b.attr)
    return c, ms, init_assign, init_calls_reset, mutated, reset_assign, reset_calls


def r09b(model, ctx):
    R = "R-09b"
    for rel, cname in RESET_CLASSES:
        c, ms, init_assign, init_calls_reset, mutated, reset_assign, reset_calls = _class_attr_facts(model, rel, cname)
        need("reset" in ms, f"{cname} has no reset()")
        for attr, sites in sorted(mutated.items()):
            cons = f"{cname}.{attr}"
            where = f"{rel}:{sites[0][1]}"
            if (cname, attr) in EXEMPT:
                ctx.ok(R, cons + ":exempt", EXEMPT[(cname, attr)], where)
                continue
            ok = attr in reset_assign or attr in reset_calls
            if ok and attr in reset_assign and attr in init_assign and not init_calls_reset:
                ok = dump(reset_assign[attr]) == dump(init_assign[attr])
            ctx.check(ok, R, cons, f"re-initialised by reset() ({unparse(reset_assign[attr]) if attr in reset_assign else 'cleared'})",
                      f"{cname}.{attr} is mutated while running (in {sorted({s for s, _ in sites})}) but reset() does not "
                      f"re-initialise it{' to its initial value' if attr in reset_assign else ''}: a second run after "
                      f"Simulator.reset() starts from stale state", where)
    # reset() re-initialises unconditionally: every path through it stores the same set of attributes (an early return for
    # some kind of object leaves that object's state from the previous run)
    for rel, cname in RESET_CLASSES:
        fr_ = model.func(f"{rel}::{cname}.reset")
        ps = [p for p in run_paths(fr_.body) if p.how != "raise"]
        need(ps, f"{cname}.reset: no completing path")
        sets_ = []
        for p in ps:
            st = set()
            for e in p.effects:
                if isinstance(e, ast.Assign):
                    st |= {unparse(t) for t in e.targets if unparse(t).startswith("self.")}
                elif isinstance(e, ast.Call):
                    st.add(unparse(e.func) + "()")
            sets_.append(st)
        union = set().union(*sets_)
        short = [sorted(union - st) for st in sets_ if union - st]
        ctx.check(not short, R, f"{cname}.reset:all-paths", f"every path re-initialises {sorted(union)}",
                  f"{cname}.reset() has a path that does not re-initialise {short[0] if short else ''}: the state of the previous "
                  f"run survives Simulator.reset() for the objects taking that path", f"{rel}:{fr_.lineno}")
    # container resets reach the elements
    f = model.func(f"{PYSIM}::PySimEngine.reset")
    t = unparse(f)
    for what, frag in [("engine state", "self._state.reset()"), ("processes", "for process in self._processes:\n        process.reset()"),
                       ("testbenches", "for testbench in self._testbenches:\n        testbench.reset()")]:
        ctx.check(frag in t, R, f"PySimEngine.reset:{what}", "reset", f"PySimEngine.reset() no longer resets the {what}",
                  f"{PYSIM}:{f.lineno}")
    f = model.func(f"{PYSIM}::_PyEngineState.reset")
    t = unparse(f)
    for what, frag in [("timeline", "self.timeline.reset()"), ("slots", "for state in self.slots:\n        state.reset()"),
                       ("pending set", "self.pending.clear()")]:
        ctx.check(frag in t, R, f"_PyEngineState.reset:{what}", "reset", f"_PyEngineState.reset() no longer resets the {what}",
                  f"{PYSIM}:{f.lineno}")
    f = model.func(f"{PYSIM}::_PySignalState.reset")
    ok = any(unparse(s) == "self.curr = self.next = self.signal.init" for s in f.body)
    if not ok:
        from ..engine.symx import run_paths as _rp
        ps = [p_ for p_ in _rp(list(f.body)) if p_.how != "raise"]
        ok = bool(ps)
        for p_ in ps:
            st = {unparse(t): unparse(e.value) for e in p_.effects if isinstance(e, ast.Assign) for t in e.targets}
            ok = ok and st.get("self.curr") == "self.signal.init" and st.get("self.next") == "self.signal.init"
    ctx.check(ok, R, "_PySignalState.reset", "curr = next = signal.init", "a signal slot must be reset to signal.init (both "
              "curr and next)", f"{PYSIM}:{f.lineno}")
    f = model.func(f"{PYSIM}::_PyMemoryState.reset")
    ok = "self.data = list(self.memory._init._raw)" in unparse(f) and "self.write_queue = {}" in unparse(f)
    ctx.check(ok, R, "_PyMemoryState.reset", "data = initial rows; write queue emptied", "a memory must be reset to its initial "
              "rows and its write queue emptied", f"{PYSIM}:{f.lineno}")
    f = model.func(f"{ASYNC}::AsyncProcess.reset")
    t = unparse(f)
    ok = "self.coroutine = self.constructor(self.context)" in t and "self.runnable = True" in t and "self.waits_on = None" in t \
        and "self.first_await = True" in t and "self.critical = not self.background" in t
    ctx.check(ok, R, "AsyncProcess.reset", "new coroutine, runnable, no pending trigger, criticality restored",
              "an async process/testbench must be re-created from its constructor and made runnable on reset", f"{ASYNC}:{f.lineno}")
    f = model.func(f"{CORE}::Simulator.reset")
    t = unparse(f)
    ok = "self._engine.reset()" in t and "self._running = False" in t
    ctx.check(ok, R, "Simulator.reset", "engine reset, running flag cleared", "Simulator.reset() must reset the engine",
              f"{CORE}:{f.lineno}")


def _aliases_attrs(v):
    """does the expression `v` evaluate (possibly) to the very dict object held in some `<obj>.attrs`?"""
    if isinstance(v, ast.Attribute) and v.attr in ("attrs", "_attrs", "attributes"):
        return isinstance(v.value, (ast.Name, ast.Attribute, ast.Subscript))
    if isinstance(v, ast.BoolOp):
        return any(_aliases_attrs(x) for x in v.values)
    if isinstance(v, ast.IfExp):
        return _aliases_attrs(v.body) or _aliases_attrs(v.orelse)
    if isinstance(v, ast.Call) and isinstance(v.func, ast.Attribute) and v.func.attr in ("setdefault", "get") and len(v.args) == 2:
        return _aliases_attrs(v.args[1])
    return False


def r09d(model, ctx):
    """converting a design must not modify it: the attribute dictionaries of design objects (`signal.attrs`, ...) are
    read, never written, by the netlist builder and the back end — a local that may alias such a dictionary (directly,
    or as the default of setdefault()/get(), or through `or`) must not be updated in place.  Otherwise converting the
    same design object twice gives different output."""
    R = "R-09d"
    n_sites = 0
    for rel in (RTLIL, IR, XFRM):
        m = model.mod(rel)
        for fn in ast.walk(m.tree):
            if not isinstance(fn, (ast.FunctionDef, ast.AsyncFunctionDef)):
                continue
            alias = {}
            for st in ast.walk(fn):
                if isinstance(st, ast.Assign) and len(st.targets) == 1 and isinstance(st.targets[0], ast.Name):
                    n_sites += 1
                    if _aliases_attrs(st.value):
                        alias[st.targets[0].id] = st
            # direct in-place writes to <obj>.attrs of something that is not `self`
            for x in ast.walk(fn):
                tgt = None
                if isinstance(x, ast.Call) and isinstance(x.func, ast.Attribute) and x.func.attr in ("update", "setdefault", "pop", "clear", "popitem"):
                    tgt = x.func.value
                elif isinstance(x, (ast.Assign, ast.AugAssign)):
                    ts = x.targets if isinstance(x, ast.Assign) else [x.target]
                    for t in ts:
                        if isinstance(t, ast.Subscript):
                            tgt = t.value
                elif isinstance(x, ast.Delete):
                    for t in x.targets:
                        if isinstance(t, ast.Subscript):
                            tgt = t.value
                if tgt is None:
                    continue
                bad = None
                if isinstance(tgt, ast.Name) and tgt.id in alias:
                    bad = f"`{tgt.id}` (bound by `{unparse(alias[tgt.id])}`) may be the design object's own attribute dictionary"
                elif isinstance(tgt, ast.Attribute) and tgt.attr in ("attrs", "_attrs") and not (isinstance(tgt.value, ast.Name) and tgt.value.id == "self"):
                    bad = f"`{unparse(tgt)}` is the design object's own attribute dictionary"
                if bad is not None:
                    ctx.viol(R, f"{m.qualname_of(fn)}:{unparse(tgt)}", f"{rel}: {m.qualname_of(fn)} modifies a dictionary in place and {bad}: "
                             f"conversion would change the design, so converting the same object twice gives different output", f"{rel}:{x.lineno}")
    need(n_sites >= 200, f"only {n_sites} local bindings inspected in the netlist builder / back end")
    ctx.ok(R, "no-attrs-aliasing", f"{n_sites} local bindings inspected: none that may alias <obj>.attrs is updated in place", f"{RTLIL}:0")


def r09c(model, ctx):
    R = "R-09c"
    def sorted_loops(f):
        """loops of `f` that walk the planned files in sorted order: directly (`for filename in sorted(self.files)`), or
        through a generator method of BuildPlan whose only loop does and which yields (filename, self.files[filename]);
        returns [(loop, {local name: what it denotes})]"""
        out = []
        for lp in ast.walk(f):
            if not isinstance(lp, ast.For):
                continue
            if unparse(lp.iter) == "sorted(self.files)" and isinstance(lp.target, ast.Name):
                out.append((lp, {lp.target.id: "filename"}))
                continue
            # the items in the order of their (unique) keys: sorted(self.files.items()) with or without a key function that
            # selects the name
            it = unparse(lp.iter)
            if isinstance(lp.target, ast.Tuple) and len(lp.target.elts) == 2 and all(isinstance(e_, ast.Name) for e_ in lp.target.elts) and \
                    (it == "sorted(self.files.items())" or
                     (it.startswith("sorted(self.files.items(), key=") and isinstance(lp.iter.keywords[0].value, ast.Lambda) and
                      len(lp.iter.keywords[0].value.args.args) == 1 and
                      unparse(lp.iter.keywords[0].value.body) == f"{lp.iter.keywords[0].value.args.args[0].arg}[0]") or
                     it in ("sorted(self.files.items(), key=operator.itemgetter(0))", "sorted(self.files.items(), key=itemgetter(0))")):
                out.append((lp, {lp.target.elts[0].id: "filename", lp.target.elts[1].id: "self.files[filename]"}))
                continue
            if isinstance(lp.iter, ast.Call) and isinstance(lp.iter.func, ast.Attribute) and unparse(lp.iter.func.value) == "self" \
                    and not lp.iter.args:
                g = model.func(f"{RUN}::BuildPlan.{lp.iter.func.attr}", optional=True)
                if g is None:
                    continue
                gl = [x for x in ast.walk(g) if isinstance(x, ast.For)]
                ys = [x for x in ast.walk(g) if isinstance(x, ast.Yield)]
                if len(gl) == 1 and len(ys) == 1 and unparse(gl[0].iter) == "sorted(self.files)" and isinstance(gl[0].target, ast.Name):
                    v = gl[0].target.id
                    y = ys[0].value
                    if isinstance(y, ast.Tuple) and len(y.elts) == 2 and unparse(y.elts[0]) == v and \
                            unparse(y.elts[1]) == f"self.files[{v}]" and isinstance(lp.target, ast.Tuple) and len(lp.target.elts) == 2:
                        out.append((lp, {unparse(lp.target.elts[0]): "filename", unparse(lp.target.elts[1]): "self.files[filename]"}))
        return out

    f = model.func(f"{RUN}::BuildPlan.digest")
    ok = len(sorted_loops(f)) == 1 and "hasher.update(self.script.encode('utf-8'))" in unparse(f)
    ctx.check(ok, R, "BuildPlan.digest", "hashes sorted(self.files) names+contents and the script name",
              "digest() must hash file names and contents in sorted order, plus the script name", f"{RUN}:{f.lineno}")
    f = model.func(f"{RUN}::BuildPlan.archive")
    sl = sorted_loops(f)
    ok = len(sl) == 1
    ws = [n for n in ast.walk(f) if isinstance(n, ast.Call) and unparse(n.func) == "archive.writestr"]
    okz = False
    if ok and len(ws) == 1 and isinstance(ws[0].args[0], ast.Call) and unparse(ws[0].args[0].func) == "zipfile.ZipInfo" and \
            len(ws[0].args[0].args) == 1 and not ws[0].args[0].keywords:
        names = sl[0][1]
        fn_arg = unparse(ws[0].args[0].args[0])
        content = unparse(ws[0].args[1])
        fname_var = [k for k, v in names.items() if v == "filename"][0]
        okz = names.get(fn_arg) == "filename" and (names.get(content) == "self.files[filename]" or content == f"self.files[{fname_var}]") \
            and any(ws[0] is x for x in ast.walk(sl[0][0]))
    ctx.check(ok and okz, R, "BuildPlan.archive", "members in sorted order, written through ZipInfo(filename) (fixed 1980 timestamp)",
              "archive() must write members in sorted order through zipfile.ZipInfo(filename) — a bare file name (or a "
              "date_time argument) stamps the current time into the archive", f"{RUN}:{f.lineno}")
    f = model.func(f"{RUN}::BuildPlan.extract")
    loops = [s for s in ast.walk(f) if isinstance(s, ast.For)]
    ok = len(loops) == 1 and unparse(loops[0].iter) == "self.files.items()" and \
        any(isinstance(n, ast.Call) and unparse(n.func) == "f.write" and unparse(n.args[0]) == "content" for n in ast.walk(loops[0])) and \
        not any(isinstance(n, (ast.Continue, ast.Break)) for n in ast.walk(loops[0]))
    ctx.check(ok, R, "BuildPlan.extract", "writes every planned file with its content", "extract() must write exactly the files of "
              "the plan (every item of self.files, no filtering)", f"{RUN}:{f.lineno}")
    f = model.func(f"{RUN}::BuildPlan.add_file")
    ok = "filename not in self.files" in unparse(f) and "self.files[filename] = content" in unparse(f)
    ctx.check(ok, R, "BuildPlan.add_file", "a file name is planned once", "add_file must refuse duplicates and record the content",
              f"{RUN}:{f.lineno}")
    for q in ("BuildPlan.digest", "BuildPlan.archive", "BuildPlan.extract"):
        fn = model.func(f"{RUN}::{q}")
        bad = [dotted(n.func) for n in ast.walk(fn) if isinstance(n, ast.Call) and dotted(n.func) in NONDET_CALLS]
        ctx.check(not bad, R, f"{q}:no-clock/random", "no clock or random source", f"{q} calls {bad}", f"{RUN}:{fn.lineno}")


RULES = [("R-09a", r09a), ("R-09b", r09b), ("R-09c", r09c), ("R-09d", r09d)]
