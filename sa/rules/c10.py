"""C10 — shape casting and constant normalisation (the structural clauses only)."""
import ast
from ..engine.core import AnalysisError, need
from ..engine.astutil import unparse, dotted, pmatch, const_int, dump, dispatch_leaves, select_leaf, find_matches
from ..engine.symx import run_paths
from ..engine.cfg import CFG, EXIT
from . import c01
from .interp import AST_PY, handled

MEM = "amaranth/hdl/_mem.py"

EXPLANATION = (
    "Static (ast-only) decision of the structural clauses of C10: (a) single normaliser — Signal._init is assigned "
    "only from _get_init_value(...), MemoryData.Init rows are stored only in the single-index branch of __setitem__ "
    "from _get_init_value(value, shape, 'memory') (the slice branch only delegates), every non-raising exit of "
    "_get_init_value returns a value wrapped through Const in the target shape, and the range check tests the "
    "*given* (un-wrapped) integer and dominates the return; (b) Const.cast folds concatenations with the concat "
    "accumulator discipline, masking each part to its own width, and slices by shifting by start and re-wrapping to "
    "stop-start bits; (c) endpoint symmetry of Shape.cast(range): signedness and width are computed from *both* ends "
    "with one signedness flag, the empty range and {0} give width 0; the enum unification has the three mixed-sign "
    "cases of Shape._unify; (d) the two's-complement wrap idiom of Const.__init__ tests bit width-1 and folds with "
    "the same width. NOT decided: the arithmetic of bits_for / ceil_log2 / minimal widths (a theorem about all "
    "integers; no sound static argument in reach — DESIGN.md section 6)."
)
ASSUMPTIONS = ["CPython ast parses /repo's source as the interpreter would"]
MIN_INSTANCES = {"R-10e": 3, "R-10a": 8, "R-10b": 3, "R-10c": 5, "R-10d": 3}


def r10a(model, ctx):
    R = "R-10a"
    mod = model.mod(AST_PY)
    sig = model.cls(f"{AST_PY}::Signal")
    writes = []
    for n in ast.walk(sig):
        if isinstance(n, (ast.Assign, ast.AugAssign, ast.AnnAssign)):
            tg = n.targets if isinstance(n, ast.Assign) else [n.target]
            for t in tg:
                if isinstance(t, ast.Attribute) and t.attr == "_init":
                    writes.append(n)
    need(writes, "Signal: no assignment to _init found")
    for w in writes:
        v = w.value
        ok = isinstance(v, ast.Call) and dotted(v.func) == "_get_init_value" and unparse(v.args[0]) == "init" and \
            unparse(v.args[1]) == "unsigned(1) if orig_shape is None else orig_shape"
        ctx.check(ok, R, f"Signal:{mod.qualname_of(w)}:_init", "_init = _get_init_value(init, <declared shape>)",
                  f"Signal._init must be assigned only from _get_init_value(init, <the declared shape-like object>); found "
                  f"`{unparse(v)}` (the value would not be wrapped to the shape / checked against a range)", f"{AST_PY}:{w.lineno}")
    # no other module pokes _init of a signal
    for rel in model.all_files():
        if rel == AST_PY:
            continue
        m = model.mod(rel)
        for n in ast.walk(m.tree):
            if isinstance(n, ast.Assign):
                for t in n.targets:
                    if isinstance(t, ast.Attribute) and t.attr == "_init" and "Init(" not in unparse(n.value) and \
                            not unparse(n.value).startswith("MemoryData.Init") and unparse(t.value) != "self":
                        ctx.viol(R, f"{rel}:{m.qualname_of(n)}:_init", f"{rel} assigns `{unparse(t)}` directly, bypassing "
                                 f"_get_init_value", f"{rel}:{n.lineno}")
    # Signal.like and friends pass init through the constructor
    # path summaries of _get_init_value with module-level helpers expanded; conditions are over the parameters
    # (orig_init / orig_shape are aliases of `init` / `shape` taken before they are re-bound)
    from ..engine import refsem
    f, paths = refsem.method_paths(model, f"{AST_PY}::_get_init_value", max_paths=4000)
    rets = [p for p in paths if p.how == "return"]
    need(len(rets) >= 2, f"_get_init_value: expected at least 2 returning paths, found {len(rets)}")
    kinds = {}
    for p in rets:
        v = p.ret
        okc = v is not None and pmatch("Const(_V_X.value, Shape.cast(shape)).value", v) is not None
        oks = False
        if not okc and v is not None and isinstance(v, ast.Attribute) and v.attr == "value":
            # shape-castable path: the constant's shape was compared with the target shape on this path (mismatch raises)
            tgt = unparse(v.value)
            oks = any((not pol) and unparse(t) in (f"{tgt}.shape() != Shape.cast(Shape.cast(shape))", f"{tgt}.shape() != Shape.cast(shape)")
                      for t, pol in p.conds) or \
                any(pol and unparse(t) in (f"{tgt}.shape() == Shape.cast(Shape.cast(shape))", f"{tgt}.shape() == Shape.cast(shape)")
                    for t, pol in p.conds)
        if not (okc or oks):
            # recognised-and-wrong is a value handed back with no wrapping at all; any other expression (a wrapping spelt
            # with other arithmetic, a new helper) is a shape this rule does not decide
            bare = v is None or isinstance(v, (ast.Name, ast.Constant)) or (isinstance(v, ast.Attribute) and v.attr == "value")
            need(bare, f"_get_init_value: unrecognised result expression `{unparse(v)[:120]}`")
        kinds.setdefault("const" if okc else "castable", []).append((okc or oks, p))
    for kind, items in sorted(kinds.items()):
        bad = [p for ok_, p in items if not ok_]
        ctx.check(not bad, R, f"_get_init_value:return@{kind}",
                  "returns Const(value, shape).value / a shape-checked constant's value",
                  f"_get_init_value returns `{unparse(bad[0].ret) if bad else ''}`: every exit must return the value wrapped through "
                  f"Const in the target shape (or the value of a constant whose shape was compared with the target)",
                  f"{AST_PY}:{bad[0].lineno if bad else f.lineno}")
    # the range check: no returning path of the plain-shape branch is consistent with "shape is a range, an initial value
    # was given, and it is not an element of the range" — and that situation raises SyntaxError
    bad_facts = {"isinstance(shape, range)": True, "init is None": False, "init in shape": False, "isinstance(shape, ShapeCastable)": False}
    leaks = [p for ok_, p in kinds.get("const", []) if refsem.feasible_under(p, bad_facts)]
    raises = [p for p in paths if p.how == "raise" and p.ret is not None and "SyntaxError" in unparse(p.ret) and
              refsem.feasible_under(p, bad_facts)]
    ok = not leaks and bool(raises)
    ctx.check(ok, R, "_get_init_value:range-check", "`orig_init not in orig_shape` on the un-wrapped value, raising SyntaxError, before the wrap",
              "a range-shaped target must reject (SyntaxError) an initial value that is not an element of the range, testing the "
              "integer as given (`orig_init`), not the value after wrapping to the shape's width", f"{AST_PY}:{f.lineno}")
    # memory rows
    fs = model.func(f"{MEM}::MemoryData.Init.__setitem__")
    ifs = [s for s in fs.body if isinstance(s, ast.If) and unparse(s.test) == "isinstance(index, slice)"]
    need(len(ifs) == 1, "MemoryData.Init.__setitem__: slice/index split not found")
    sl, ix = ifs[0].body, ifs[0].orelse
    if not ix and sl and isinstance(sl[-1], ast.Return):
        # guard-clause form: the slice branch returns, the single-row path follows the `if`
        ix = fs.body[fs.body.index(ifs[0]) + 1:]
        sl = sl[:-1]
    def stores(stmts):
        out = []
        for s in stmts:
            for n in ast.walk(s):
                if isinstance(n, ast.Assign):
                    for t in n.targets:
                        if isinstance(t, ast.Subscript) and unparse(t.value) in ("self._elems", "self._raw"):
                            out.append(n)
        return out
    ok = not stores(sl) and any(unparse(n) == "self[actual_index] = actual_value" for s in sl for n in ast.walk(s) if isinstance(n, ast.Assign))
    ctx.check(ok, R, "MemoryData.Init.__setitem__:slice", "slice assignment delegates element-wise to the index branch",
              "slice assignment must store nothing itself and delegate every element to `self[i] = v` (so that each row goes "
              "through _get_init_value); a direct `self._elems[index] = value` stores unwrapped user values (and, for plain "
              "shapes, into the aliased _raw list the simulator and netlist read)", f"{MEM}:{fs.lineno}")
    paths = run_paths(ix)
    okp = bool(paths)
    for p in paths:
        raw = p.env.get("raw")
        okp = okp and raw is not None and unparse(raw) == "_get_init_value(value, self._shape, 'memory')"
        st = {unparse(e.targets[0]): unparse(e.value) for e in p.effects if isinstance(e, ast.Assign)}
        castable = any(pol and "ShapeCastable" in unparse(t) for t, pol in p.conds)
        R_ = "_get_init_value(value, self._shape, 'memory')"
        if castable:
            okp = okp and st.get("self._raw[index]") == R_ and st.get("self._elems[index]") == "value"
        else:
            okp = okp and st.get("self._elems[index]") == R_ and "self._raw[index]" not in st
    ctx.check(okp, R, "MemoryData.Init.__setitem__:index", "row = _get_init_value(value, shape, 'memory') stored in _raw (and _elems for plain shapes)",
              "a memory row must be stored as _get_init_value(value, self._shape, 'memory'): into _raw for shape-castable rows "
              "(keeping the user's object in _elems), into _elems (aliased to _raw) for plain shapes", f"{MEM}:{fs.lineno}")
    fi = model.func(f"{MEM}::MemoryData.Init.__init__")
    t = unparse(fi)
    ok = "self._raw = self._elems" in t and "self[index] = item" in t and "self._raw = [Const.cast(Const(None, shape)).value] * depth" in t
    ctx.check(ok, R, "MemoryData.Init.__init__", "rows enter through self[index] = item; defaults are the shape's default constant",
              "initial rows must be stored through __setitem__ and defaults must be the shape's default constant", f"{MEM}:{fi.lineno}")
    # who else writes _elems / _raw
    c = model.cls(f"{MEM}::MemoryData")
    for n in ast.walk(c):
        if isinstance(n, ast.Assign):
            for tt in n.targets:
                if isinstance(tt, ast.Subscript) and unparse(tt.value) in ("self._elems", "self._raw"):
                    q = model.mod(MEM).qualname_of(n)
                    ctx.check(q == "MemoryData.Init.__setitem__", R, f"{q}:row-store", "only __setitem__ stores rows",
                              f"{q} stores a memory row directly", f"{MEM}:{n.lineno}")


def _const_unsigned_hook(e, canon):
    """Const(X, unsigned(N)).value is X reduced modulo 2**N, i.e. X & mask(N)"""
    if isinstance(e, ast.Attribute) and e.attr == "value" and isinstance(e.value, ast.Call) and dotted(e.value.func) == "Const" and \
            len(e.value.args) == 2 and isinstance(e.value.args[1], ast.Call) and dotted(e.value.args[1].func) == "unsigned" and \
            len(e.value.args[1].args) == 1:
        x, n = e.value.args[0], e.value.args[1].args[0]
        return canon.bits(ast.BinOp(left=x, op=ast.BitAnd(), right=ast.BinOp(
            left=ast.BinOp(left=ast.Constant(value=1), op=ast.LShift(), right=n), op=ast.Sub(), right=ast.Constant(value=1))))
    return None


def r10b(model, ctx):
    R = "R-10b"
    f = model.func(f"{AST_PY}::Const.cast")
    lvs = dispatch_leaves(f.body)
    lf = select_leaf(lvs, {"class": "Concat"})
    need(handled(lf), "Const.cast: no Concat branch")
    loops = [s for s in lf.body if isinstance(s, ast.For)]
    ok = len(loops) == 1 and unparse(loops[0].iter) == "obj.parts"
    if ok:
        paths = run_paths(loops[0].body)
        ok = len(paths) == 1
        if ok:
            from ..engine.bitalg import Canon
            env = paths[0].env
            cn = Canon(atom_hook=_const_unsigned_hook)
            ok = "value" in env and "width" in env and \
                cn(env["value"]) == cn(ast.parse("value | (Const.cast(part).value & ((1 << len(Const.cast(part))) - 1)) << width", mode="eval").body) and \
                cn(env["width"]) == cn(ast.parse("width + len(Const.cast(part))", mode="eval").body)
            if not ok and "value" in env:
                # a helper this rule does not know computes the part's bit pattern: not decided here
                foreign = sorted({dotted(c.func) or unparse(c.func) for c in ast.walk(env["value"]) if isinstance(c, ast.Call)} -
                                 {"Const.cast", "Const", "unsigned", "len", "int"})
                need(not foreign, f"Const.cast (Concat): the part value is computed through {foreign}, which this rule does not model")
    ret = [s for s in ast.walk(ast.Module(body=lf.body, type_ignores=[])) if isinstance(s, ast.Return)]
    ok = ok and len(ret) == 1 and unparse(ret[0].value) == "Const(value, width)"
    ctx.check(ok, R, "Const.cast:Concat", "value |= unsigned(part) << width; width += len(part); Const(value, width)",
              "constant-casting a concatenation must or-in each part reinterpreted as unsigned(len(part)) at the running width "
              "and return Const(value, total width)", f"{AST_PY}:{lf.lineno}")
    c01.check_accumulator(ctx, R, "Const.cast", AST_PY, f, {"width"})
    lf = select_leaf(lvs, {"class": "Slice"})
    need(handled(lf), "Const.cast: no Slice branch")
    paths = [p for p in run_paths(lf.body) if p.how == "return"]
    ok = len(paths) == 1 and unparse(paths[0].ret) == "Const(Const.cast(obj.value).value >> obj.start, unsigned(obj.stop - obj.start))"
    ctx.check(ok, R, "Const.cast:Slice", "Const(value >> start, unsigned(stop - start))",
              f"constant-casting a slice must shift by start and re-wrap to stop - start bits; found "
              f"{unparse(paths[0].ret) if paths else '-'}", f"{AST_PY}:{lf.lineno}")
    lf = select_leaf(lvs, {"class": "Const"})
    ok = handled(lf) and any(isinstance(s, ast.Return) and unparse(s.value) == "obj" for s in lf.body)
    ctx.check(ok, R, "Const.cast:Const", "a constant casts to itself", "Const.cast(Const) must return it unchanged", f"{AST_PY}:{f.lineno}")


def r10c(model, ctx):
    R = "R-10c"
    f = model.func(f"{AST_PY}::Shape.cast")
    rng = [s for s in ast.walk(f) if isinstance(s, ast.If) and unparse(s.test) == "isinstance(obj, range)"]
    need(len(rng) == 1, "Shape.cast: range branch not found")
    paths = [p for p in run_paths(rng[0].body) if p.how == "return"]
    need(len(paths) == 3, f"Shape.cast(range): expected 3 return paths, found {len(paths)}")
    empty = [p for p in paths if any(pol and unparse(t) == "len(obj) == 0" for t, pol in p.conds)]
    ok = len(empty) == 1 and unparse(empty[0].ret) == "Shape(0)"
    ctx.check(ok, R, "Shape.cast:range:empty", "empty range -> Shape(0)", "an empty range must cast to unsigned(0)", f"{AST_PY}:{rng[0].lineno}")
    rest = [p for p in paths if p not in empty]
    SIGN = "obj[0] < 0 or obj[-1] < 0"
    for p in rest:
        zero = any(pol and unparse(t) == "obj[0] == obj[-1] == 0" for t, pol in p.conds)
        m = pmatch("Shape(_V_W, _V_S)", p.ret)
        ok = m is not None and unparse(m["_V_S"]) == SIGN
        if ok:
            w = unparse(m["_V_W"])
            if zero:
                ok = w == "0"
            else:
                ok = w == f"max(bits_for(obj[0], {SIGN}), bits_for(obj[-1], {SIGN}))"
        ctx.check(ok, R, f"Shape.cast:range:{'zero' if zero else 'general'}",
                  "signed iff either end is negative; width = max over both ends with that signedness" if not zero else "{0} -> width 0",
                  f"Shape.cast(range) must derive the signedness from *both* ends (`obj[0] < 0 or obj[-1] < 0`: a descending range "
                  f"ends on its smallest element) and the width as max(bits_for(first, signed), bits_for(last, signed)), with "
                  f"width 0 when the only element is 0; found {unparse(p.ret)}", f"{AST_PY}:{rng[0].lineno}")
    from . import c01
    fe = model.func(f"{AST_PY}::Shape._cast_plain_enum")
    # the shape of a plain enumeration is the unification of its members' shapes (starting from unsigned(0)); decided by
    # partial evaluation over member lists of every signedness pattern, whatever the accumulation is written like
    c01.check_unify(model, ctx, R, "Shape._cast_plain_enum", qual="Shape._cast_plain_enum", wrap=lambda sh: {"value": sh},
                    hooks={"Const.cast": lambda args: args[0]})
    from . import c01
    c01.check_unify(model, ctx, R, "Shape._unify")


REF_CONST_WRAP = """
if shape.signed and value >> (shape.width - 1) & 1:
    value |= -(1 << shape.width)
else:
    value &= (1 << shape.width) - 1
"""
REF_CONST_WRAP_2 = """
if shape.signed and value & (1 << (shape.width - 1)):
    value |= -(1 << shape.width)
else:
    value &= (1 << shape.width) - 1
"""


def r10d(model, ctx):
    R = "R-10d"
    f = model.func(f"{AST_PY}::Const.__init__")
    from ..engine import refsem
    ifs = [s for s in f.body if isinstance(s, ast.If) and any(isinstance(n, ast.Attribute) and n.attr == "signed" for n in ast.walk(s.test))
           and any(isinstance(x, (ast.Assign, ast.AugAssign)) and "value" in unparse(x.targets[0] if isinstance(x, ast.Assign) else x.target)
                   for x in ast.walk(s))]
    need(len(ifs) == 1, "Const.__init__: the wrapping statement (an `if` on shape.signed that rewrites `value`) was not found")
    refsem.compare_block(ctx, R, "Const.__init__:wrap", f"{AST_PY}:{ifs[0].lineno}", "Const.__init__ (value wrapping)", [ifs[0]],
                         [REF_CONST_WRAP, REF_CONST_WRAP_2], track=("value",),
                         fact="bit width-1 set (signed): value |= -1 << width; else value &= mask(width)",
                         why="Const must wrap its value to the unique representative modulo 2**width: sign bit (width-1) set and "
                             "signed -> all bits above are set, otherwise they are cleared (one width throughout).")
    t = unparse(f)
    ok = "shape = Shape(bits_for(value), signed=value < 0)" in t and "shape = Shape(shape, signed=value < 0)" in t
    ctx.check(ok, R, "Const.__init__:default-shape", "minimal shape of the value; int shape keeps the sign of the value",
              "Const without a shape must take Shape(bits_for(value), signed=value < 0); an int shape is Shape(n, signed=value < 0)",
              f"{AST_PY}:{f.lineno}")
    ok = "self._shape = shape" in t and "self._value = value" in t
    ctx.check(ok, R, "Const.__init__:store", "stores the wrapped value", "Const must store the wrapped value", f"{AST_PY}:{f.lineno}")
    fm = model.func(f"{AST_PY}::_ConstMeta.__call__")
    t = unparse(fm)
    ok = "value = shape.const(value)" in t and "cast_value.shape() != cast_shape" in t and "raise ValueError" in t
    ctx.check(ok, R, "_ConstMeta.__call__", "shape-castable constants are checked against the shape they cast to",
              "Const(value, shape-castable) must check that shape.const() returned a constant of the shape it casts to", f"{AST_PY}:{fm.lineno}")


def r10e(model, ctx):
    """the bit-count helpers are exact for every integer: integer arithmetic only (no float functions, true division, float
    literals), which a 53-bit mantissa cannot give for wide values"""
    R = "R-10e"
    UT = "amaranth/utils.py"
    for name in ("ceil_log2", "exact_log2", "bits_for"):
        f = model.func(f"{UT}::{name}")
        bad = []
        for n in ast.walk(f):
            if isinstance(n, ast.Attribute) and isinstance(n.value, ast.Name) and n.value.id in ("math", "cmath", "numpy", "np"):
                bad.append(unparse(n))
            if isinstance(n, ast.BinOp) and isinstance(n.op, ast.Div):
                bad.append(unparse(n))
            if isinstance(n, ast.Constant) and isinstance(n.value, float):
                bad.append(repr(n.value))
            if isinstance(n, ast.Call) and dotted(n.func) in ("float", "log2", "log", "ceil", "floor", "sqrt", "round"):
                bad.append(unparse(n))
        ctx.check(not bad, R, f"utils.{name}:integer-only", "integer operations only",
                  f"utils.{name} uses floating-point arithmetic ({bad[:3]}): the result is wrong for arguments beyond 2**52, which "
                  f"silently narrows Shape.cast(range(..)) and Const(value) for wide values", f"{UT}:{f.lineno}")


RULES = [("R-10e", r10e), ("R-10a", r10a), ("R-10b", r10b), ("R-10c", r10c), ("R-10d", r10d)]
