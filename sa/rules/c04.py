"""C04 — emitted RTLIL equivalent to the simulated design (structural necessary conditions)."""
import ast
from ..engine.core import AnalysisError, need
from ..engine.astutil import (template_of, dispatch_leaves, select_leaf, const_str, const_int, dotted, unparse, pmatch, str_elts,
                              walk_no_nested, find_matches, dump, last_name, is_rejection)
from ..engine.symx import run_paths, subst
from . import interp, c02
from .interp import IR, NIR, RTLIL, PYRTL, env_for, handled

EXPLANATION = (
    "Static (ast-only) decision of structural necessary conditions of C04: (a) every netlist operator string the "
    "netlist builder can emit (finite-set string abstract interpretation of emit_rhs/emit_stmt) is known to "
    "_nir.Operator.width, to the comb-edge relation and to the RTLIL operator tables, with matching arity, and "
    "emit_rhs passes operands in (first, second) order; (b) the RTLIL operator tables equal a frozen reference of "
    "cell types/signedness, $mux port roles match `m` (arg0 ? arg1 : arg2), division/modulo are zero-guarded on the "
    "divisor; (c) on every path of ModuleEmitter.emit_operator an operand shortened with signedness S is emitted "
    "with A_SIGNED/B_SIGNED == S; (d) clock-edge polarity maps, $adff selection, write-enable replication and "
    "transparency masks; (e) netlist cell bookkeeping: attributes wrapped as nets in __init__ == input_nets == "
    "resolve_nets, and every cell class has a branch in emit_cell_wires and emit_cells; (f) Part lowering passes the "
    "operand's own signedness; plus the netlist-side assignment rules shared with C02 (R-02b/c/d/e for _ir.py). "
    "NOT decided: net-flow/port inference and end-to-end equivalence."
)
ASSUMPTIONS = [
    "CPython ast parses /repo's source as the interpreter would",
    "the frozen reference of Yosys RTLIL cell semantics in sa/rules/c04.py (REF_UNARY/REF_BINARY; $mux: Y = S ? B : A)",
]
MIN_INSTANCES = {"R-04h": 3, "R-04g": 2, "R-04a": 60, "R-04b": 25, "R-04c": 10, "R-04d": 8, "R-04e": 40, "R-04f": 2}

# reference: netlist operator -> (cell type, required A_SIGNED, required B_SIGNED); None = free (overwritten by the
# common `signed` choice, or irrelevant because all widths are equal)
REF_UNARY = {"-": "$neg", "~": "$not", "b": "$reduce_bool", "r|": "$reduce_or", "r&": "$reduce_and", "r^": "$reduce_xor"}
REF_BINARY = {
    "+": ("$add", None, None), "-": ("$sub", None, None), "*": ("$mul", None, None),
    "u//": ("$divfloor", False, False), "s//": ("$divfloor", True, True),      # floor division, operands in own sign
    "u%": ("$modfloor", False, False), "s%": ("$modfloor", True, True),        # floor modulo
    "<<": ("$shl", None, False),                                                # shift amount is unsigned
    "u>>": ("$shr", False, False), "s>>": ("$sshr", True, False),              # arithmetic shift only for signed
    "&": ("$and", None, None), "|": ("$or", None, None), "^": ("$xor", None, None),
    "==": ("$eq", None, None), "!=": ("$ne", None, None),
    "u<": ("$lt", False, False), "u>": ("$gt", False, False), "u<=": ("$le", False, False), "u>=": ("$ge", False, False),
    "s<": ("$lt", True, True), "s>": ("$gt", True, True), "s<=": ("$le", True, True), "s>=": ("$ge", True, True),
}


# ----------------------------------------------------------------------------------------------- R-04a

def _strset(e, env, leaf_ops):
    """finite set of strings an expression can evaluate to, or None"""
    s = const_str(e)
    if s is not None:
        return {s}
    if isinstance(e, ast.Attribute) and e.attr == "operator":
        return set(leaf_ops) if leaf_ops else None
    if isinstance(e, ast.Name) and e.id in env:
        return _strset(env[e.id], env, leaf_ops)
    if isinstance(e, ast.IfExp):
        a, b = _strset(e.body, env, leaf_ops), _strset(e.orelse, env, leaf_ops)
        return None if a is None or b is None else a | b
    if isinstance(e, ast.BinOp) and isinstance(e.op, ast.Add):
        a, b = _strset(e.left, env, leaf_ops), _strset(e.right, env, leaf_ops)
        return None if a is None or b is None else {x + y for x in a for y in b}
    return None


def nir_operator_universe(model):
    """{(opstring, n_inputs): [site]} for every emit_operator call in _ir.py.  The `value.operator` context of a call
    is the intersection of the operator guards of the enclosing ifs (walked as a tree, so statements shared by
    several operators keep the whole set)."""
    from ..engine.astutil import parse_guard
    uni = {}

    def scan_expr(meth, node, ops, env):
        for n in ast.walk(node):
            if isinstance(n, ast.Call) and unparse(n.func) == "self.emit_operator" and len(n.args) >= 3:
                ss = _strset(n.args[1], env, ops)
                if ss is None:
                    raise AnalysisError(f"{IR}:{n.lineno}: cannot bound the operator string {unparse(n.args[1])}")
                for o in ss:
                    uni.setdefault((o, len(n.args) - 2), []).append((meth, n.lineno, [unparse(a) for a in n.args[2:]]))

    def walk(meth, stmts, ops, env):
        env = dict(env)
        for s in stmts:
            if isinstance(s, ast.If):
                atoms = parse_guard(s.test)
                inner = ops
                if atoms is not None:
                    for a in atoms:
                        if a[0] == "op":
                            inner = set(a[2]) if inner is None else (inner & set(a[2]))
                else:
                    scan_expr(meth, s.test, ops, env)
                walk(meth, s.body, inner, env)
                walk(meth, s.orelse, ops, env)
                continue
            if isinstance(s, ast.Assign) and len(s.targets) == 1 and isinstance(s.targets[0], ast.Name):
                env[s.targets[0].id] = s.value
            if isinstance(s, (ast.For, ast.While, ast.With, ast.Try)):
                for f in ("body", "orelse", "finalbody"):
                    b = getattr(s, f, None)
                    if b:
                        walk(meth, b, ops, env)
                for h in getattr(s, "handlers", []):
                    walk(meth, h.body, ops, env)
                for f in ("iter", "test"):
                    e = getattr(s, f, None)
                    if e is not None:
                        scan_expr(meth, e, ops, env)
                continue
            if isinstance(s, (ast.FunctionDef, ast.ClassDef)):
                continue
            scan_expr(meth, s, ops, env)

    for meth in ("emit_rhs", "emit_stmt", "emit_drivers", "emit_assign", "emit_signal_fields", "emit_iobuffer",
                 "emit_write_port", "emit_read_port", "emit_instance"):
        fn = model.func(f"{IR}::NetlistEmitter.{meth}")
        walk(meth, fn.body, None, {})
    return uni


def r04a(model, ctx):
    R = "R-04a"
    uni = nir_operator_universe(model)
    need(len(uni) >= 25, f"netlist operator universe shrank to {len(uni)}")
    # _nir.Operator.width
    fw = model.func(f"{NIR}::Operator.width")
    wl = dispatch_leaves(fw.body)
    # comb_edges_to / comb_edges_is_per_bit
    fe = model.func(f"{NIR}::Operator.comb_edges_to")
    el = dispatch_leaves(fe.body)
    # RTLIL tables
    un, bn = _rtlil_tables(model)
    for (op, n), sites in sorted(uni.items()):
        where = f"{IR}:{sites[0][1]}"
        lf = select_leaf(wl, {"op": op})
        ctx.check(handled(lf), R, f"_nir.Operator.width:{op}", f"width defined (line {lf.lineno if lf else '?'})",
                  f"netlist operator {op!r} (emitted at {where}) is unknown to _nir.Operator.width", where)
        lf = select_leaf(el, {"op": op, "arity": n}, unknown_as=False)
        ok = lf is not None and not is_rejection(lf.body[:1])
        ctx.check(ok, R, f"_nir.Operator.comb_edges_to:{op}/{n}", "combinational edges defined",
                  f"netlist operator {op!r}/{n} has no comb-edge rule", where)
        if n == 1:
            ok = op in un
        elif n == 2:
            ok = op in bn
        else:
            ok = op == "m" and n == 3
        ctx.check(ok, R, f"rtlil.emit_operator:{op}/{n}", "present in the RTLIL operator table of its arity",
                  f"netlist operator {op!r} with {n} input(s) is missing from the RTLIL "
                  f"{'UNARY' if n == 1 else 'BINARY'}_OPERATORS table (KeyError at conversion)", where)
    # operand order at the emit_rhs call sites: (operand_a, operand_b) / (test, a, b) for 'm'
    for (op, n), sites in sorted(uni.items()):
        for meth, line, args in sites:
            if meth != "emit_rhs":
                continue
            if n == 2:
                ok = args == ["operand_a", "operand_b"]
            elif n == 1:
                ok = args in (["operand_a"], ["test"])
            else:
                ok = args == ["test", "operand_a", "operand_b"]
            ctx.check(ok, R, f"emit_rhs:{op}/{n}:operand-order", f"inputs {args}",
                      f"emit_rhs emits {op!r} with inputs {args}; expected the operands in source order", f"{IR}:{line}")
    # in emit_rhs, operand_a/operand_b come from operands[0]/[1]
    fr = model.func(f"{IR}::NetlistEmitter.emit_rhs")
    src = {}
    for n in ast.walk(fr):
        if isinstance(n, ast.Assign) and isinstance(n.targets[0], ast.Tuple) and isinstance(n.value, ast.Call) \
                and unparse(n.value.func) == "self.emit_rhs" and len(n.value.args) == 2:
            m = pmatch("value.operands[_V_N]", n.value.args[1])
            if m is not None:
                src.setdefault(unparse(n.targets[0].elts[0]), set()).add(const_int(m["_V_N"]))
    ok = src.get("operand_a") == {0} and src.get("operand_b") == {1}
    ctx.check(ok, R, "emit_rhs:operand-binding", "operand_a <- operands[0], operand_b <- operands[1]",
              f"operand_a/operand_b must be bound to operands[0]/operands[1]; found {src}", f"{IR}:{fr.lineno}")
    # Mux lowering: 'm' inputs (test, val-if-nonzero, val-if-zero)
    hits = [n for n in ast.walk(fr) if isinstance(n, ast.Assign) and isinstance(n.value, ast.Call)
            and unparse(n.value.func) == "self.emit_rhs" and "value.cases[" in unparse(n.value)]
    binding = {unparse(h.targets[0].elts[0]): unparse(h.value.args[1]) for h in hits if isinstance(h.targets[0], ast.Tuple)}
    ok = binding.get("operand_a") == "value.cases[1][1]" and binding.get("operand_b") == "value.cases[0][1]"
    ctx.check(ok, R, "emit_rhs:SwitchValue-as-mux", "m(test, default-case value, zero-case value)",
              f"two-case SwitchValue lowering must emit m(test, <value of default case>, <value of the all-zero case>); "
              f"found {binding}", f"{IR}:{fr.lineno}")


def _rtlil_tables(model):
    fn = model.func(f"{RTLIL}::ModuleEmitter.emit_operator")
    un = bn = None
    for s in fn.body:
        if isinstance(s, ast.Assign) and isinstance(s.targets[0], ast.Name) and isinstance(s.value, ast.Dict):
            d = {}
            for k, v in zip(s.value.keys, s.value.values):
                d[const_str(k)] = v
            if s.targets[0].id == "UNARY_OPERATORS":
                un = d
            if s.targets[0].id == "BINARY_OPERATORS":
                bn = d
    need(un is not None and bn is not None, "rtlil.emit_operator: UNARY_OPERATORS/BINARY_OPERATORS dict literals not found")
    return un, bn


# ----------------------------------------------------------------------------------------------- R-04b

def _cells_in(fn):
    """builder.cell(type, ports={...}, parameters={...}) records"""
    out = []
    for n in ast.walk(fn):
        if isinstance(n, ast.Call) and unparse(n.func) == "self.builder.cell" and n.args:
            rec = {"node": n, "type": n.args[0], "ports": None, "params": None, "name": n.args[1] if len(n.args) > 1 else None}
            for kw in n.keywords:
                if kw.arg == "ports":
                    rec["ports"] = kw.value
                elif kw.arg == "parameters":
                    rec["params"] = kw.value
                elif kw.arg == "name":
                    rec["name"] = kw.value
            out.append(rec)
    return out


def _dict(node):
    if isinstance(node, ast.Dict):
        return {const_str(k): v for k, v in zip(node.keys, node.values)}
    return None


def r04b(model, ctx):
    R = "R-04b"
    un, bn = _rtlil_tables(model)
    fn = model.func(f"{RTLIL}::ModuleEmitter.emit_operator")
    for op, ref in sorted(REF_UNARY.items()):
        got = const_str(un.get(op)) if op in un else None
        ctx.check(got == ref, R, f"UNARY_OPERATORS:{op}", f"{op} -> {ref}",
                  f"unary {op!r} must lower to {ref}, table says {got}", f"{RTLIL}:{fn.lineno}")
    for op, (cell, sa, sb) in sorted(REF_BINARY.items()):
        v = bn.get(op)
        ok = isinstance(v, ast.Tuple) and len(v.elts) == 3 and const_str(v.elts[0]) == cell
        got = unparse(v) if v is not None else None
        if ok and sa is not None:
            ok = isinstance(v.elts[1], ast.Constant) and v.elts[1].value is sa
        if ok and sb is not None:
            ok = isinstance(v.elts[2], ast.Constant) and v.elts[2].value is sb
        ctx.check(ok, R, f"BINARY_OPERATORS:{op}", f"{op} -> {got}",
                  f"binary {op!r} must lower to ({cell}, A_SIGNED={sa if sa is not None else 'any'}, "
                  f"B_SIGNED={sb if sb is not None else 'any'}); table says {got}", f"{RTLIL}:{fn.lineno}")
    extra = sorted(set(bn) - set(REF_BINARY)) + sorted(set(un) - set(REF_UNARY))
    ctx.check(not extra, R, "operator-tables:no-unknown-rows", "no rows beyond the reference",
              f"operator table rows without a reference semantics: {extra}", f"{RTLIL}:{fn.lineno}")
    # $mux for 'm': Y = S ? B : A  with (condition, if_true, if_false) = cell.inputs
    cells = _cells_in(fn)
    mux_m = [c for c in cells if const_str(c["type"]) == "$mux" and "condition" in unparse(c["ports"])]
    need(len(mux_m) == 1, "rtlil.emit_operator: the `m` $mux cell not found")
    unp = [s for s in ast.walk(fn) if isinstance(s, ast.Assign) and unparse(s.value) == "cell.inputs"
           and isinstance(s.targets[0], ast.Tuple) and len(s.targets[0].elts) == 3]
    need(len(unp) == 1, "rtlil.emit_operator: `condition, if_true, if_false = cell.inputs` not found")
    n_cond, n_true, n_false = [e.id for e in unp[0].targets[0].elts]
    p = _dict(mux_m[0]["ports"])
    ok = unparse(p["S"]) == f"self.sigspec({n_cond})" and unparse(p["A"]) == f"self.sigspec({n_false})" and \
        unparse(p["B"]) == f"self.sigspec({n_true})"
    ctx.check(ok, R, "$mux:m", "S=inputs[0], B=inputs[1] (taken when S), A=inputs[2]",
              f"`m` is arg0 ? arg1 : arg2 and $mux is Y = S ? B : A: need S=inputs[0], B=inputs[1], A=inputs[2]; found "
              f"S={unparse(p['S'])} A={unparse(p['A'])} B={unparse(p['B'])}", f"{RTLIL}:{mux_m[0]['node'].lineno}")
    # division/modulo zero guard
    div_if = [s for s in ast.walk(fn) if isinstance(s, ast.If) and isinstance(s.test, ast.Compare)
              and set(str_elts(s.test.comparators[0]) or []) == {"u//", "s//", "u%", "s%"}]
    need(len(div_if) == 1, "rtlil.emit_operator: division/modulo branch not found")
    dcells = _cells_in(ast.Module(body=div_if[0].body, type_ignores=[]))
    kinds = [const_str(c["type"]) or unparse(c["type"]) for c in dcells]
    ok = kinds == ["cell_type", "$reduce_bool", "$mux"]
    if ok:
        rb, mx, dv = _dict(dcells[1]["ports"]), _dict(dcells[2]["ports"]), _dict(dcells[0]["ports"])
        ok = unparse(rb["A"]) == "self.sigspec(operand_b)" and unparse(rb["Y"]) == "nonzero.name" and \
            unparse(mx["S"]) == "nonzero.name" and unparse(mx["A"]) == "self.sigspec(_nir.Value.zeros(cell.width))" and \
            unparse(mx["B"]) == "result.name" and unparse(dv["Y"]) == "result.name" and \
            unparse(mx["Y"]) == "self.cell_wires[cell_idx].name" and \
            unparse(dv["A"]) == "self.sigspec(operand_a)" and unparse(dv["B"]) == "self.sigspec(operand_b)"
    ctx.check(ok, R, "division:zero-guard", "$reduce_bool(divisor) selects quotient (B) else zeros (A)",
              f"division/modulo must be followed by $reduce_bool of the *divisor* and a $mux selecting zeros when the "
              f"divisor is zero; cells found: {kinds}", f"{RTLIL}:{div_if[0].lineno}")
    # general binary cell: A=operand_a, B=operand_b
    gen = [c for c in cells if unparse(c["type"]) == "cell_type" and c not in dcells and "operand_a" in unparse(c["ports"])]
    ok = len(gen) == 1 and unparse(_dict(gen[0]["ports"])["A"]) == "self.sigspec(operand_a)" and \
        unparse(_dict(gen[0]["ports"])["B"]) == "self.sigspec(operand_b)"
    ctx.check(ok, R, "binary-cell:port-order", "A=first input, B=second input",
              "binary operator cells must connect A to the first and B to the second input", f"{RTLIL}:{fn.lineno}")
    unp2 = [s for s in ast.walk(fn) if isinstance(s, ast.Assign) and unparse(s.value) == "cell.inputs"
            and isinstance(s.targets[0], ast.Tuple) and len(s.targets[0].elts) == 2]
    ok = len(unp2) == 1 and [e.id for e in unp2[0].targets[0].elts] == ["operand_a", "operand_b"]
    ctx.check(ok, R, "binary-cell:operand-binding", "operand_a, operand_b = cell.inputs",
              "operand_a/operand_b must be bound to cell.inputs in order", f"{RTLIL}:{fn.lineno}")
    # netlist-side match cell: first-match semantics is in the Match doc; emit_assignment_list iterates in order
    fa = model.func(f"{RTLIL}::ModuleEmitter.emit_assignment_list")
    loops = [n for n in ast.walk(fa) if isinstance(n, ast.For) and unparse(n.iter) == "enumerate(match_cell.patterns)"]
    ok = len(loops) == 1
    if ok:
        b = loops[0].body
        ifs = [s for s in b if isinstance(s, ast.If)]
        ok = len(ifs) == 1 and pmatch('pattern_list == ("-" * len(match_cell.value),)', ifs[0].test) is not None and \
            "switch.default()" in unparse(ifs[0].body[0]) and "switch.case(pattern_list)" in unparse(ifs[0].orelse[0]) and \
            any(unparse(s) == "subcond = _nir.Net.from_cell(match_cell_idx, bit)" for s in b)
    ctx.check(ok, R, "emit_assignment_list:case-order", "cases in pattern order; default only for the all-dashes pattern",
              "RTLIL switch cases must be emitted in Match pattern order, `default` only for the all-don't-care "
              "pattern, each paired with output bit `bit` of the match cell", f"{RTLIL}:{fa.lineno}")
    # process: default assignment first
    paths = [s for s in fa.body if isinstance(s, ast.Expr)]
    txt = [unparse(s) for s in fa.body]
    i_def = next((i for i, t in enumerate(txt) if t.startswith("proc.assign(self.sigspec(lhs), self.sigspec(cell.default))")), None)
    i_emit = next((i for i, t in enumerate(txt) if t.startswith("emit_assignments(proc")), None)
    ctx.check(i_def is not None and i_emit is not None and i_def < i_emit, R, "emit_assignment_list:default-first",
              "the default value is assigned before the conditional assignments",
              "the process must assign cell.default to the whole output before emitting the conditional assignments",
              f"{RTLIL}:{fa.lineno}")


# ----------------------------------------------------------------------------------------------- R-04c

def _truth(expr, conds):
    """evaluate a boolean expression on a path: constant, or found among path conditions"""
    if isinstance(expr, ast.Constant) and isinstance(expr.value, bool):
        return expr.value
    d = dump(expr)
    for t, pol in conds:
        if dump(t) == d:
            return pol
    return None


def r04c(model, ctx):
    R = "R-04c"
    fn = model.func(f"{RTLIL}::ModuleEmitter.emit_operator")
    branches = {}
    for s in ast.walk(fn):
        if isinstance(s, ast.If):
            m = pmatch("len(cell.inputs) == _V_N", s.test)
            if m is not None and const_int(m["_V_N"]) is not None:
                branches[const_int(m["_V_N"])] = s
    checked = 0
    un, bn = _rtlil_tables(model)

    def decider(op):
        def decide(test):
            """constant-fold tests on cell.operator for one concrete operator"""
            if isinstance(test, ast.Compare) and len(test.ops) == 1:
                l, o, r = test.left, test.ops[0], test.comparators[0]
                lv = None
                if unparse(l) == "cell.operator":
                    lv = op
                elif unparse(l) == "cell.operator[0]":
                    lv = op[0]
                if lv is None:
                    return None
                if isinstance(o, ast.Eq) and const_str(r) is not None:
                    return lv == const_str(r)
                if isinstance(o, ast.NotEq) and const_str(r) is not None:
                    return lv != const_str(r)
                if isinstance(o, ast.In):
                    if const_str(r) is not None:
                        return lv in const_str(r)
                    if str_elts(r) is not None:
                        return lv in str_elts(r)
            return None
        return decide

    for arity, table in ((1, un), (2, bn)):
        need(arity in branches, f"emit_operator: no branch for {arity} input(s)")
        lf = branches[arity]
        for op in sorted(table):
            paths = run_paths(lf.body, max_paths=4096, decide=decider(op))
            need(0 < len(paths) < 4000, f"emit_operator: path enumeration failed for {op!r}")
            npairs = 0
            bad = {}
            ncells = 0
            for p in paths:
                cells = [n for e in p.effects for n in ast.walk(e)
                         if isinstance(n, ast.Call) and unparse(n.func) == "self.builder.cell"]
                ncells += len(cells)
                for c in cells:
                    ports = params = None
                    for kw in c.keywords:
                        if kw.arg == "ports":
                            ports = _dict(kw.value)
                        if kw.arg == "parameters":
                            params = _dict(kw.value)
                    if not ports or not params:
                        continue
                    # reductions never extend their operand, so their A_SIGNED is irrelevant (exempt: $reduce_bool)
                    reduction = c.args and const_str(c.args[0]) in ("$reduce_bool",)
                    for port, flag in (("A", "A_SIGNED"), ("B", "B_SIGNED")):
                        if port not in ports or flag not in params:
                            continue
                        m = pmatch("self.sigspec(_V_X)", ports[port])
                        if m is None:
                            continue
                        x = m["_V_X"]
                        wname = "A_WIDTH" if port == "A" else "B_WIDTH"
                        if wname in params and unparse(params[wname]) != f"len({unparse(x)})":
                            bad[(port, "width-param", unparse(params[wname]), f"len({unparse(x)})")] = 1
                        sm = pmatch("self.shorten_operand(_V_V, signed=_V_S)", x)
                        if sm is None or reduction:
                            continue
                        npairs += 1
                        s_used = _truth(sm["_V_S"], p.conds)
                        s_flag = _truth(params[flag], p.conds)
                        same_expr = dump(sm["_V_S"]) == dump(params[flag])
                        if not same_expr and (s_used is None or s_flag is None or s_used != s_flag):
                            bad[(port, "signedness", unparse(sm["_V_S"]), unparse(params[flag]))] = 1
            need(ncells >= 1, f"emit_operator: no cell emitted for {op!r}")
            for k in bad:
                if k[1] == "signedness":
                    ctx.viol(R, f"emit_operator:{op}:{k[0]}",
                             f"for netlist operator {op!r} the operand on port {k[0]} is shortened with signed={k[2]} "
                             f"but emitted with {k[0]}_SIGNED={k[3]}: the cell re-extends it with the other signedness",
                             f"{RTLIL}:{lf.lineno}")
                else:
                    ctx.viol(R, f"emit_operator:{op}:{k[0]}_WIDTH",
                             f"for netlist operator {op!r} {k[0]}_WIDTH is {k[2]} but the connected operand is {k[3]} wide",
                             f"{RTLIL}:{lf.lineno}")
            if not bad:
                ctx.ok(R, f"emit_operator:{op}", f"{len(paths)} path(s), {npairs} shortened operand emission(s): shortening "
                                                 f"signedness == emitted flag; width params == operand widths",
                       f"{RTLIL}:{lf.lineno}")
            checked += npairs
    need(checked >= 10, f"emit_operator: only {checked} shortened operand emissions recognised")
    # a_signed = b_signed = signed for the sign-agnostic operators
    hits = [s for s in ast.walk(fn) if isinstance(s, ast.Assign) and len(s.targets) == 2 and
            {unparse(t) for t in s.targets} == {"a_signed", "b_signed"} and unparse(s.value) == "signed"]
    ctx.check(len(hits) == 1, R, "emit_operator:common-signedness", "a_signed = b_signed = signed",
              "for + - * == != both operands must be emitted with the one signedness that was chosen for shortening",
              f"{RTLIL}:{fn.lineno}")
    # shorten_operand itself: signed drops repeated MSBs (keeps >= 1 bit); unsigned drops const-0 MSBs
    fs = model.func(f"{RTLIL}::ModuleEmitter.shorten_operand")
    ifs = [s for s in fs.body if isinstance(s, ast.If) and unparse(s.test) == "signed"]
    ok = len(ifs) == 1
    if ok:
        def loop_test(block):
            """the conjuncts of the (single) while loop of a branch, locals bound before it substituted, emptiness tests of the
            list normalised to `len(value) > 0`"""
            loops = [x for x in block if isinstance(x, ast.While)]
            if len(loops) != 1:
                return None
            env = {x.targets[0].id: unparse(x.value) for x in block[:block.index(loops[0])]
                   if isinstance(x, ast.Assign) and len(x.targets) == 1 and isinstance(x.targets[0], ast.Name)}
            t = loops[0].test
            parts = t.values if isinstance(t, ast.BoolOp) and isinstance(t.op, ast.And) else [t]
            out = set()
            for q in parts:
                q = copy.deepcopy(q)
                for n in ast.walk(q):
                    if isinstance(n, ast.Compare):
                        n.comparators = [ast.parse(env[c.id], mode="eval").body if isinstance(c, ast.Name) and c.id in env else c
                                         for c in n.comparators]
                tx = unparse(q)
                tx = {"value": "len(value) > 0", "len(value) >= 1": "len(value) > 0", "len(value) != 0": "len(value) > 0",
                      "len(value) >= 2": "len(value) > 1"}.get(tx, tx)
                out.add(tx)
            return out
        import copy
        ok = loop_test(ifs[0].body) == {"len(value) > 1", "value[-1] == value[-2]"} and \
            loop_test(ifs[0].orelse) == {"len(value) > 0", "value[-1] == _nir.Net.from_const(0)"}
    ctx.check(ok, R, "shorten_operand", "signed: drop MSB while equal to the next bit; unsigned: drop constant-0 MSBs",
              "shorten_operand must only drop bits that the matching extension restores", f"{RTLIL}:{fs.lineno}")


# ----------------------------------------------------------------------------------------------- R-04d

def r04d(model, ctx):
    R = "R-04d"
    # polarity dict literals
    for meth in ("emit_flip_flop", "emit_write_port", "emit_read_port"):
        fn = model.func(f"{RTLIL}::ModuleEmitter.{meth}")
        hits = []
        for n in ast.walk(fn):
            if isinstance(n, ast.Subscript) and isinstance(n.value, ast.Dict) and unparse(n.slice) == "cell.clk_edge":
                d = {const_str(k): getattr(v, "value", None) for k, v in zip(n.value.keys, n.value.values)}
                hits.append(d)
        ok = bool(hits) and all(d == {"pos": True, "neg": False} for d in hits)
        ctx.check(ok, R, f"{meth}:CLK_POLARITY", "'pos' -> True, 'neg' -> False",
                  f"CLK_POLARITY must be True for 'pos' and False for 'neg'; found {hits}", f"{RTLIL}:{fn.lineno}")
    fp = model.func(f"{RTLIL}::ModuleEmitter.emit_print")
    ok = any(isinstance(s, ast.Assign) and unparse(s.targets[0]) == "parameters['TRG_POLARITY']" and
             unparse(s.value) == "cell.clk_edge == 'pos'" for s in ast.walk(fp))
    ctx.check(ok, R, "emit_print:TRG_POLARITY", "clk_edge == 'pos'", "TRG_POLARITY must be (cell.clk_edge == 'pos')",
              f"{RTLIL}:{fp.lineno}")
    # $adff selection
    ff = model.func(f"{RTLIL}::ModuleEmitter.emit_flip_flop")
    # by path: the test on `cell.arst` against the constant 0 decides the cell type and whether the three ARST entries are stored
    from ..engine.symx import run_paths as _rp
    ok, seen = True, set()
    for p_ in _rp(ff.body):
        zero = None
        for c_, pol in p_.conds:
            tx = unparse(c_)
            if tx == "cell.arst == _nir.Net.from_const(0)":
                zero = pol
            elif tx == "cell.arst != _nir.Net.from_const(0)":
                zero = not pol
        if zero is None or p_.how == "raise":
            continue
        seen.add(zero)
        stores = {unparse(e_.targets[0]): unparse(e_.value) for e_ in p_.effects
                  if isinstance(e_, ast.Assign) and isinstance(e_.targets[0], ast.Subscript)}
        ct = p_.env.get("cell_type")
        ct = unparse(ct) if ct is not None else None
        # the stores may have been forwarded into the dictionaries handed to builder.cell(...)
        for e_ in p_.effects:
            c_ = getattr(e_, "value", e_)
            if isinstance(c_, ast.Call) and unparse(c_.func) == "self.builder.cell":
                if c_.args:
                    ct = unparse(c_.args[0])
                for k_ in c_.keywords:
                    if k_.arg in ("ports", "parameters") and isinstance(k_.value, ast.Dict):
                        for dk, dv in zip(k_.value.keys, k_.value.values):
                            if dk is not None:
                                stores[f"{k_.arg}[{unparse(dk)}]"] = unparse(dv)
        arst = {k: v for k, v in stores.items() if "ARST" in k}
        if zero:
            ok = ok and ct == "'$dff'" and not arst
        else:
            ok = ok and ct == "'$adff'" and arst == {"ports['ARST']": "self.sigspec(cell.arst)", "parameters['ARST_POLARITY']": "True",
                                                     "parameters['ARST_VALUE']": "_ast.Const(cell.init, len(cell.data))"}
    need(seen == {True, False}, "emit_flip_flop: the test of cell.arst against the constant 0 was not found")
    ctx.check(ok, R, "emit_flip_flop:$dff/$adff", "$adff iff arst is not constant 0; ARST_VALUE = init; active high",
              "a flip-flop must be a $dff iff arst is constant 0, otherwise an $adff with ARST=arst, ARST_POLARITY=True "
              "and ARST_VALUE=Const(init, width)", f"{RTLIL}:{ff.lineno}")
    # _ir: FlipFlop creation
    fd = model.func_view(f"{IR}::NetlistEmitter.emit_drivers", depth=3)
    ffc = [n for n in ast.walk(fd) if isinstance(n, ast.Call) and unparse(n.func) == "_nir.FlipFlop"]
    need(len(ffc) == 1, "emit_drivers: FlipFlop construction not found")
    kw = {k.arg: unparse(k.value) for k in ffc[0].keywords}
    from ..engine.bitalg import same_value
    kwn = {k.arg: k.value for k in ffc[0].keywords}
    ok = kw.get("clk_edge") == "driver.domain.clk_edge" and kw.get("clk") == "clk" and kw.get("arst") == "arst" and \
        "init" in kwn and same_value(kwn["init"], "driver.signal.init >> chunk_start & (1 << chunk_end - chunk_start) - 1") and \
        kw.get("data") == "value"
    ctx.check(ok, R, "emit_drivers:FlipFlop", "clk/clk_edge from the driver's domain; init = chunk of signal.init",
              f"FlipFlop must take clk_edge from the domain and init=(signal.init >> chunk_start) & chunk_mask; found {kw}",
              f"{IR}:{ffc[0].lineno}")
    # init is also what the reset assignment loads
    okr = any(isinstance(n, ast.Call) and unparse(n.func) == "_nir.Assignment" and
              {k.arg: unparse(k.value) for k in n.keywords}.get("value") == "_nir.Value.from_const(driver.signal.init, len(driver.signal))"
              and {k.arg: unparse(k.value) for k in n.keywords}.get("start") == "0" for n in ast.walk(fd))
    ctx.check(okr, R, "emit_drivers:reset-value", "sync reset loads Const(signal.init)",
              "the synchronous reset assignment must load signal.init over the whole signal", f"{IR}:{fd.lineno}")
    # write-enable replication agreement (_ir vs _pyrtl)
    fwv = model.func_view(f"{IR}::NetlistEmitter.emit_write_port")
    ok = any(pmatch("_nir.Value([en[bit // port._granularity] for bit in range(len(port._data))])", n) is not None
             for n in ast.walk(fwv))
    fw = model.func_expanded(f"{IR}::NetlistEmitter.emit_write_port")
    fc = model.func_view(f"{PYRTL}::_FragmentCompiler.__call__", depth=3)
    ok2 = any(pmatch("rhs(Cat((bit.replicate(port._granularity) for bit in port._en)))", n) is not None
              for n in ast.walk(fc))
    ctx.check(ok and ok2, R, "write-enable:granularity", "en[bit // granularity] (netlist) == replicate(granularity) (sim)",
              f"write-enable expansion must agree: netlist en[bit // granularity] over len(data) bits (found={ok}) and "
              f"simulator Cat(bit.replicate(granularity) for bit in en) (found={ok2})", f"{IR}:{fw.lineno}")
    # write port fields
    wc = [n for n in ast.walk(fw) if isinstance(n, ast.Call) and unparse(n.func) == "_nir.SyncWritePort"]
    kw = {k.arg: unparse(k.value) for k in wc[0].keywords} if wc else {}
    ok = kw.get("data") == "data" and kw.get("addr") == "addr" and kw.get("en") == "en" and kw.get("clk") == "clk" and \
        kw.get("clk_edge") == "cd.clk_edge" and kw.get("memory") == "memory"
    binds = {unparse(s.targets[0].elts[0]): unparse(s.value.args[1]) for s in ast.walk(fw)
             if isinstance(s, ast.Assign) and isinstance(s.targets[0], ast.Tuple) and isinstance(s.value, ast.Call)
             and unparse(s.value.func) == "self.emit_rhs"}
    ok = ok and binds == {"data": "port._data", "addr": "port._addr", "en": "port._en"}
    ctx.check(ok, R, "emit_write_port:fields", "data/addr/en/clk bound to the port's own fields",
              f"SyncWritePort fields must come from the same-named port fields; kwargs={kw}, bindings={binds}",
              f"{IR}:{fw.lineno}")
    # transparency mask / port ids (RTLIL)
    fr = model.func_expanded(f"{RTLIL}::ModuleEmitter.emit_read_port")
    # TRANSPARENCY_MASK = OR of 1 << write_port_ids[w] over cell.transparent_for: a sum() of distinct one-hot terms, or an
    # accumulator or-ing / adding them in a loop over the same sequence
    ok = any(pmatch("sum((1 << memory_info.write_port_ids[write_port_cell_index] for write_port_cell_index in cell.transparent_for))", n) is not None
             or pmatch("sum([1 << memory_info.write_port_ids[write_port_cell_index] for write_port_cell_index in cell.transparent_for])", n) is not None
             for n in ast.walk(fr))
    if not ok:
        for lp in ast.walk(fr):
            if isinstance(lp, ast.For) and unparse(lp.iter) == "cell.transparent_for" and isinstance(lp.target, ast.Name) and len(lp.body) == 1:
                st = lp.body[0]
                v = lp.target.id
                if isinstance(st, ast.AugAssign) and isinstance(st.op, (ast.BitOr, ast.Add)) and isinstance(st.target, ast.Name) and \
                        unparse(st.value) == f"1 << memory_info.write_port_ids[{v}]":
                    acc = st.target.id
                    init0 = any(isinstance(x, ast.Assign) and unparse(x.targets[0]) == acc and const_int(x.value) == 0 for x in ast.walk(fr))
                    ok = init0 and f"'TRANSPARENCY_MASK': _ast.Const({acc}," in unparse(fr).replace('"', "'")
    ctx.check(ok, R, "emit_read_port:TRANSPARENCY_MASK", "sum(1 << write_port_ids[idx] for idx in transparent_for)",
              "TRANSPARENCY_MASK must have exactly the PORTID bits of the write ports in transparent_for",
              f"{RTLIL}:{fr.lineno}")
    fwp = model.func_expanded(f"{RTLIL}::ModuleEmitter.emit_write_port")
    ok = "'PORTID': memory_info.write_port_ids[cell_idx]" in unparse(fwp)
    fcm = model.func(f"{RTLIL}::ModuleEmitter.collect_memory_info")
    t = unparse(fcm)
    ok = ok and "memory_info.write_port_ids[cell_idx] = memory_info.num_write_ports" in t and \
        "memory_info.num_write_ports += 1" in t
    ctx.check(ok, R, "write-port-ids", "PORTID = dense index assigned in collect_memory_info",
              "PORTID must be the dense per-memory index assigned (use-then-increment) in collect_memory_info",
              f"{RTLIL}:{fwp.lineno}")
    # _ir read port: transparent_for maps through write_ports[idx]
    frp = model.func_expanded(f"{IR}::NetlistEmitter.emit_read_port")
    ok = "transparent_for=tuple((write_ports[idx] for idx in port._transparent_for))" in unparse(frp)
    ctx.check(ok, R, "emit_read_port(_ir):transparent_for", "cell indices of write_ports[idx]",
              "SyncReadPort.transparent_for must map each index through the write_ports list built in _write_ports order",
              f"{IR}:{frp.lineno}")
    fe = model.func(f"{IR}::NetlistEmitter.emit_fragment")
    t = unparse(fe)
    ok = "for port in fragment._write_ports:\n            write_ports.append(self.emit_write_port(parent_module_idx, fragment, port, memory))" in t
    ctx.check(ok, R, "emit_fragment:write_ports-order", "write_ports built in _write_ports order",
              "write_ports must be appended in fragment._write_ports order (indices in _transparent_for refer to it)",
              f"{IR}:{fe.lineno}")


# ----------------------------------------------------------------------------------------------- R-04e

def _cell_classes(model):
    mod = model.mod(NIR)
    out = []
    for c in model.classes(NIR):
        if "Cell" in model.base_names(c):
            out.append(c)
    return out


def _self_attrs(fn, pred):
    out = set()
    for n in ast.walk(fn):
        if isinstance(n, ast.Attribute) and isinstance(n.value, ast.Name) and n.value.id == "self" and pred(n):
            out.add(n.attr)
    return out


NET_WRAPPERS = ("Value", "Net.ensure")


def r04e(model, ctx):
    R = "R-04e"
    classes = _cell_classes(model)
    need(len(classes) >= 18, f"only {len(classes)} _nir.Cell subclasses found")
    names = [c.name for c in classes]
    for c in classes:
        ms = model.class_methods(c)
        init = ms.get("__init__")
        wrapped = set()
        fmt = False
        if init is not None:
            for s in ast.walk(init):
                if isinstance(s, ast.Assign) and len(s.targets) == 1 and isinstance(s.targets[0], ast.Attribute) \
                        and unparse(s.targets[0].value) == "self":
                    v = s.value
                    if isinstance(v, ast.Call) and unparse(v.func) in NET_WRAPPERS:
                        wrapped.add(s.targets[0].attr)
                    elif isinstance(v, ast.Call) and isinstance(v.func, ast.Name) and v.func.id == "tuple" and \
                            "Value(" in unparse(v):
                        wrapped.add(s.targets[0].attr)
                    elif isinstance(v, ast.DictComp) and unparse(v.value).startswith("Value("):
                        wrapped.add(s.targets[0].attr)
                    elif s.targets[0].attr == "format":
                        fmt = True
                    elif s.targets[0].attr == "assignments":
                        wrapped.add("assignments")
                if isinstance(s, ast.AnnAssign) and isinstance(s.target, ast.Attribute) and unparse(s.target.value) == "self" \
                        and s.target.attr == "assignments":
                    wrapped.add("assignments")
        if c.name == "Top":
            wrapped = {"ports_o"}
        inp = ms.get("input_nets")
        res = ms.get("resolve_nets")
        need(inp is not None and res is not None, f"_nir.{c.name}: input_nets/resolve_nets missing")
        in_attrs = _self_attrs(inp, lambda n: True) - {"dir"}
        res_attrs = {n.attr for n in ast.walk(res) if isinstance(n, ast.Attribute) and unparse(n.value) == "self"
                     and n.attr not in ("dir",)}
        if fmt:
            wrapped.add("format")
        want = set(wrapped)
        ok_in = in_attrs == want
        ok_res = res_attrs == want
        ctx.check(ok_in, R, f"_nir.{c.name}:input_nets", f"input_nets covers {sorted(want)}",
                  f"{c.name}.input_nets reads {sorted(in_attrs)} but the net-valued attributes are {sorted(want)} "
                  f"(a missing input hides uses from net-flow/port inference and cycle detection)", f"{NIR}:{inp.lineno}")
        ctx.check(ok_res, R, f"_nir.{c.name}:resolve_nets", f"resolve_nets rewrites {sorted(want)}",
                  f"{c.name}.resolve_nets rewrites {sorted(res_attrs)} but the net-valued attributes are {sorted(want)} "
                  f"(an unresolved late net reaches the backend)", f"{NIR}:{res.lineno}")
    # coverage in the RTLIL emitter
    for meth in ("emit_cell_wires", "emit_cells"):
        fn = model.func(f"{RTLIL}::ModuleEmitter.{meth}")
        loops = [s for s in fn.body if isinstance(s, ast.For)]
        need(len(loops) == 1, f"{meth}: cell loop not found")
        lvs = dispatch_leaves(loops[0].body)
        for n in names:
            lf = select_leaf(lvs, {"class": n})
            ctx.check(handled(lf), R, f"rtlil.{meth}:{n}", f"branch at line {lf.lineno if lf else '?'}",
                      f"netlist cell class {n} has no branch in ModuleEmitter.{meth}", f"{RTLIL}:{fn.lineno}")
    # emit_cell_wires widths per class (also used by R-07a)
    # the loop body is specialised per cell class (isinstance tests pinned, helper methods of ModuleEmitter expanded):
    # the width handed to the output wire is then a single expression
    from ..engine import refsem
    fn = model.func(f"{RTLIL}::ModuleEmitter.emit_cell_wires")
    loop = [s for s in fn.body if isinstance(s, ast.For)]
    need(len(loop) == 1, "emit_cell_wires: cell loop not found")
    aliases = {"cell"}
    for st in loop[0].body:
        if isinstance(st, ast.Assign) and unparse(st.targets[0]) == "cell":
            aliases.add(unparse(st.value))
    inline = refsem.inline_table(model, RTLIL, "ModuleEmitter", exclude=("emit_cell_wires",))
    WIDTHS = {"AssignmentList": "len(cell.default)", "Operator": "cell.width", "Part": "cell.width",
              "AnyValue": "cell.width", "SyncReadPort": "cell.width", "AsyncReadPort": "cell.width",
              "FlipFlop": "len(cell.data)", "Initial": "1", "IOBuffer": "len(cell.port)"}
    for n, w in WIDTHS.items():
        paths = run_paths(list(loop[0].body), inline=inline, fold=refsem.class_fold(aliases, n), depth=3)
        # the width of the wire: the bound of `range(..)` in the net list handed to emit_driven_wire on the paths that get there
        got = set()
        for p in paths:
            if p.how != "fall":
                continue
            for nm in ("nets", "wire"):
                v = p.env.get(nm)
                if v is None:
                    continue
                for c in ast.walk(v):
                    if isinstance(c, ast.Call) and dotted(c.func) == "range" and len(c.args) == 1:
                        got.add(unparse(c.args[0]))
                if got:
                    break
        for a in sorted(aliases - {"cell"}, key=len, reverse=True):
            got = {g.replace(a, "cell") for g in got}
        ctx.check(got == {w}, R, f"emit_cell_wires:width:{n}", f"output wire width {w}",
                  f"output wire of {n} must be {w} bits wide (its output_nets), found {sorted(got)}", f"{RTLIL}:{loop[0].lineno}")


# ----------------------------------------------------------------------------------------------- R-04f

def r04f(model, ctx):
    R = "R-04f"
    fn, lvs = interp.leaves(model, f"{IR}::NetlistEmitter.emit_rhs")
    lf = select_leaf(lvs, {"class": "Part"})
    need(handled(lf), "emit_rhs: no Part branch")
    paths = run_paths(lf.body)
    cell = None
    for p in paths:
        c = p.env.get("cell")
        if c is not None:
            cell = c
    ok = cell is not None
    if ok:
        kw = {k.arg: unparse(k.value) for k in cell.keywords}
        S = "self.emit_rhs(module_idx, value.value)"
        ok = kw.get("value") == f"{S}[0]" and kw.get("value_signed") == f"{S}[1]" and \
            kw.get("offset") == "self.emit_rhs(module_idx, value.offset)[0]" and kw.get("width") == "value.width" and \
            kw.get("stride") == "value.stride"
    ctx.check(ok, R, "emit_rhs:Part", "Part(value, value_signed=<its own signedness>, offset, width, stride)",
              f"Part lowering must pass the operand together with its own signedness, the offset, width and stride; "
              f"found {unparse(cell) if cell is not None else '-'}", f"{IR}:{lf.lineno}")
    fp = model.func(f"{RTLIL}::ModuleEmitter.emit_part")
    cells = _cells_in(fp)
    sh = [c for c in cells if const_str(c["type"]) == "$shift"]
    mu = [c for c in cells if const_str(c["type"]) == "$mul"]
    ok = len(sh) == 1 and len(mu) == 1
    if ok:
        p, q = _dict(sh[0]["ports"]), _dict(sh[0]["params"])
        ok = unparse(p["A"]) == "self.sigspec(cell.value)" and unparse(p["B"]) == "offset" and \
            unparse(q["A_SIGNED"]) == "cell.value_signed" and unparse(q["B_SIGNED"]) == "False"
        mp, mq = _dict(mu[0]["ports"]), _dict(mu[0]["params"])
        ok = ok and unparse(mp["A"]) == "self.sigspec(cell.offset)" and unparse(mp["B"]) == "_const(stride)" and \
            unparse(mp["Y"]) == "offset" and unparse(mq["A_SIGNED"]) == "False" and unparse(mq["B_SIGNED"]) == "False"
        # stride == 1 shortcut and stride constant
        t = unparse(fp)
        ok = ok and "if cell.stride == 1:" in t and "stride = _ast.Const(cell.stride)" in t and \
            "offset_width = len(cell.offset) + len(stride)" in t
    ctx.check(ok, R, "emit_part", "$shift(A=value, A_SIGNED=value_signed, B=offset*stride unsigned)",
              "emit_part must shift the value (A_SIGNED=value_signed) right by the unsigned offset, multiplied by the "
              "stride constant in offset_width = len(offset)+len(stride) bits unless stride == 1", f"{RTLIL}:{fp.lineno}")
    ctx.ok("R-01j", "rtlil.emit_part", "stride applied once ($mul by the stride constant unless 1)", f"{RTLIL}:{fp.lineno}")
    # _ir.emit_assign Part: start = lhs_start + idx * lhs.stride
    fa, lva = interp.leaves(model, f"{IR}::NetlistEmitter.emit_assign")
    lf = select_leaf(lva, {"class": "Part"})
    ok = any(unparse(s) == "start = lhs_start + idx * lhs.stride" for s in ast.walk(ast.Module(body=lf.body, type_ignores=[])))
    ctx.check(ok, "R-01j", "emit_assign:Part", "start = lhs_start + idx * stride",
              "Part assignment must place case idx at lhs_start + idx * lhs.stride", f"{IR}:{lf.lineno}")


def r04g(model, ctx):
    """memoisation keys cover every argument that determines the cached cell"""
    R = "R-04g"
    cls = model.cls(f"{IR}::NetlistEmitter")
    n = 0
    for name, fn in model.class_methods(cls).items():
        keys = [s_ for s_ in fn.body if isinstance(s_, ast.Assign) and unparse(s_.targets[0]) == "key" and isinstance(s_.value, ast.Tuple)]
        trys = [s_ for s_ in fn.body if isinstance(s_, ast.Try)]
        if not keys or not trys:
            continue
        t = trys[0]
        if not (t.body and isinstance(t.body[0], ast.Return) and "_cache[key]" in unparse(t.body[0])):
            continue
        n += 1
        in_key = {unparse(e) for e in keys[0].value.elts}
        params = [a.arg for a in fn.args.args + fn.args.kwonlyargs if a.arg != "self"]
        used = set()
        for h in t.handlers:
            for x in ast.walk(ast.Module(body=h.body, type_ignores=[])):
                if isinstance(x, ast.Name) and x.id in params:
                    used.add(x.id)
        missing = sorted(used - in_key)
        ctx.check(not missing, R, f"NetlistEmitter.{name}:cache-key", f"key covers {sorted(used)}",
                  f"{name} caches the cell it builds under key {sorted(in_key)} but the cell also depends on {missing}: two calls "
                  f"that differ only in {missing} (e.g. the same switch under different enclosing conditions, emitted from one "
                  f"source line in a loop) share one cell", f"{IR}:{fn.lineno}")
    need(n >= 1, "no memoised cell constructor found in NetlistEmitter")
    # emit_rhs cache: keyed by the identity of the AST node only (module-independent by design; nets cross modules as ports)
    fr = model.func(f"{IR}::NetlistEmitter.emit_rhs")
    t = unparse(fr)
    ok = "self.rhs_cache[id(value)]" in t and "self.rhs_cache[id(value)] = (result, signed, value)" in t
    ctx.check(ok, R, "NetlistEmitter.emit_rhs:cache", "keyed by id(value); the value itself is kept alive in the entry",
              "the RHS cache must be keyed by id(value) and keep `value` in the entry (so the id cannot be reused)", f"{IR}:{fr.lineno}")


def _only_ir(rule_fn, keep):
    def wrapped(model, ctx):
        n0, v0 = len(ctx.obligations), len(ctx.violations)
        rule_fn(model, ctx)
        ctx.obligations[n0:] = [o for o in ctx.obligations[n0:] if keep(o["construct"])]
        ctx.violations[v0:] = [v for v in ctx.violations[v0:] if keep(v["construct"])]
    return wrapped


_is_ir = lambda c: any(c.startswith(p) for p in ("emit_", "NetlistEmitter", "NetlistDriver", "unify_shapes"))

def r04h(model, ctx):
    """RTLIL statement order inside processes and cases: in RTLIL the assignments of a case take effect before its switches,
    so an assignment that follows a switch in program order (a later override) must be wrapped in its own `switch {} / case`.
    Every container of statements (a class of back/rtlil.py holding `self.contents` with both assign() and switch()) must
    emit them through the one routine that does this."""
    R = "R-04h"
    mod = model.mod(RTLIL)
    fh = model.func(f"{RTLIL}::_emit_process_contents")
    tx = [t for t in (template_of(c.args[0]) for c in ast.walk(fh) if isinstance(c, ast.Call) and c.args) if t is not None]
    texts = {t.text().strip() for t in tx if not t.holes}
    loops = [w for w in fh.body if isinstance(w, ast.While)]
    grp = [c for c in ast.walk(fh) if isinstance(c, ast.Call) and dotted(c.func) in ("groupby", "itertools.groupby")]
    if len(loops) == 2:
        # index scan: a leading run of assignments, then (wrapped runs of assignments | other statements)
        # ... and whether a later assignment is wrapped depends on nothing but its being an assignment
        shape = "isinstance(contents[index], Assignment)" in unparse(loops[0].test) and \
            any(isinstance(x, ast.If) and unparse(x.test) == "isinstance(contents[index], Assignment)" for x in loops[1].body) and \
            unparse(loops[1].test) == "index < len(contents)"
    elif len(grp) == 1:
        # runs by groupby(contents, key=is-assignment): a run of assignments that is not the first run is wrapped
        key = [k.value for k in grp[0].keywords if k.arg == "key"]
        shape = unparse(grp[0].args[0]) == "contents" and len(key) == 1 and isinstance(key[0], ast.Lambda) and \
            unparse(key[0].body) == f"isinstance({key[0].args.args[0].arg}, Assignment)" and \
            any(isinstance(x, ast.If) and isinstance(x.test, ast.BoolOp) and isinstance(x.test.op, ast.And) and
                any("> 0" in unparse(v) or "!= 0" in unparse(v) for v in x.test.values) for x in ast.walk(fh))
    else:
        raise AnalysisError("_emit_process_contents: neither the index scan nor the groupby idiom was recognised")
    ok = {"switch {}", "case", "end"} <= texts and shape
    ctx.check(ok, R, "_emit_process_contents", "leading assignments are emitted directly, later runs of assignments inside `switch {} / case`",
              "_emit_process_contents must emit the leading assignments as they are and wrap every later run of assignments in "
              "`switch {}` / `case` / `end`, otherwise an assignment written after a switch takes effect before it", f"{RTLIL}:{fh.lineno}")
    n = 0
    for c in model.classes(RTLIL):
        ms = model.class_methods(c)
        if not ({"assign", "switch", "emit"} <= set(ms)):
            continue
        n += 1
        calls = [x for x in ast.walk(ms["emit"]) if isinstance(x, ast.Call) and dotted(x.func) == "_emit_process_contents"]
        okc = len(calls) == 1 and calls[0].args and unparse(calls[0].args[0]) == "self.contents" and \
            not any(isinstance(x, ast.For) and "self.contents" in unparse(x.iter) for x in ast.walk(ms["emit"]))
        ctx.check(okc, R, f"rtlil.{c.name}.emit", "contents emitted through _emit_process_contents(self.contents, ..)",
                  f"rtlil.{c.name}.emit must emit its statements through _emit_process_contents (a plain loop emits an assignment that "
                  f"follows a nested switch without the `switch {{}}` wrapper, so the earlier conditional wins over the later override)",
                  f"{RTLIL}:{ms['emit'].lineno}")
    need(n >= 2, f"only {n} statement containers (classes with assign/switch/emit) found in back/rtlil.py")



def r07h_shared(model, ctx):
    """RTLIL emission details shared with C07 (R-07h): enum_value names, always-enabled I/O buffers, attributes of anonymous wires"""
    from . import c07
    c07.r07h(model, ctx)


RULES = [("R-07h", r07h_shared), ("R-04h", r04h), ("R-04g", r04g), ("R-04a", r04a), ("R-04b", r04b), ("R-04c", r04c), ("R-04d", r04d), ("R-04e", r04e), ("R-04f", r04f),
         ("R-02c", _only_ir(c02.r02c, _is_ir)), ("R-02d", _only_ir(c02.r02d, _is_ir)),
         ("R-02e", _only_ir(c02.r02e, _is_ir)), ("R-02a", _only_ir(c02.r02a, _is_ir))]
