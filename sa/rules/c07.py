"""C07 — emitted RTLIL is structurally well-formed (structural necessary conditions)."""
import ast
from ..engine.core import AnalysisError, need
from ..engine.astutil import (dispatch_leaves, select_leaf, const_str, const_int, dotted, unparse, pmatch, str_elts,
                              walk_no_nested, find_matches, dump, names_in, template_of)
from ..engine.symx import run_paths
from ..engine.norm import poly, poly_text
from ..engine.cfg import CFG
from . import interp, c04
from .interp import IR, NIR, RTLIL, handled

EXPLANATION = (
    "Static (ast-only) decision of structural necessary conditions of C07: (a) for every cell the RTLIL backend "
    "builds, each width parameter equals the width of what is connected to the corresponding port (path summaries of "
    "every ModuleEmitter.emit_* method; widths compared in polynomial normal form against a frozen RTLIL cell "
    "signature table); (b) names: every explicit name that reaches the RTLIL builder comes from the deduplicating "
    "allocator (_add_name) and port ids are reset once per module and incremented once per port wire; (c) the "
    "empty-module test guards both the module definition and the instantiating cell; (d) a submodule cell connects "
    "exactly the ports the submodule declares; (e) instance parameter/attribute fidelity (sign-aware constant width, "
    "user attributes override the automatic src); cell-kind coverage is shared with C04 (R-04e). NOT decided: "
    "single-driver-ness and wire existence for arbitrary hierarchies (depends on net-flow computation)."
)
ASSUMPTIONS = ["CPython ast parses /repo's source as the interpreter would",
               "frozen RTLIL cell signature table (port -> width parameter) in sa/rules/c07.py"]
MIN_INSTANCES = {"R-07h": 4, "R-07g": 5, "R-07f": 3, "R-07a": 30, "R-07b": 8, "R-07c": 2, "R-07d": 2, "R-07e": 3}

# cell type -> [(port, width parameter)], from the Yosys manual's cell library chapter
SIG_UNARY = [("A", "A_WIDTH"), ("Y", "Y_WIDTH")]
SIG_BINARY = [("A", "A_WIDTH"), ("B", "B_WIDTH"), ("Y", "Y_WIDTH")]
SIG = {
    "$mux": [("A", "WIDTH"), ("B", "WIDTH"), ("Y", "WIDTH")],
    "$mul": SIG_BINARY, "$shift": SIG_BINARY, "$reduce_bool": SIG_UNARY,
    "$dff": [("D", "WIDTH"), ("Q", "WIDTH")], "$adff": [("D", "WIDTH"), ("Q", "WIDTH")],
    "$tribuf": [("A", "WIDTH"), ("Y", "WIDTH")],
    "$memwr_v2": [("ADDR", "ABITS"), ("DATA", "WIDTH"), ("EN", "WIDTH")],
    "$memrd_v2": [("ADDR", "ABITS"), ("DATA", "WIDTH")],
    "$meminit_v2": [("ADDR", "ABITS"), ("EN", "WIDTH")],
    "$print": [("ARGS", "ARGS_WIDTH")], "$check": [("ARGS", "ARGS_WIDTH")],
    "$anyconst": [("Y", "WIDTH")], "$anyseq": [("Y", "WIDTH")],
    "$initstate": [],
}
ONE_BIT = {"$mux": ["S"], "$tribuf": ["EN"], "$dff": ["CLK"], "$adff": ["CLK", "ARST"], "$memwr_v2": ["CLK"],
           "$memrd_v2": ["CLK", "EN", "ARST", "SRST"], "$print": ["EN"], "$check": ["EN", "A"], "$initstate": ["Y"]}

# output wire width of `self.cell_wires[cell_idx]` per emit_* method (checked against emit_cell_wires by R-04e)
CELL_WIRE_WIDTH = {"emit_operator": "cell.width", "emit_part": "cell.width", "emit_flip_flop": "len(cell.data)",
                   "emit_read_port": "cell.width", "emit_any_value": "cell.width", "emit_io_buffer": "len(cell.port)",
                   "emit_initial": "1", "emit_assignment_list": "len(cell.default)"}
# net-typed single-bit attributes (Net.ensure in _nir): sigspec(X) of these is 1 bit wide
ONE_BIT_ATTRS = {"cell.clk", "cell.en", "cell.arst", "cell.oe", "cell.test"}


def _P(src):
    return poly(ast.parse(src, mode="eval").body)


# method -> [(width a, equal width b)]: equalities established by the netlist builder
WIDTH_EQ = {
    "emit_io_buffer": [("len(cell.o)", "len(cell.port)")],      # _ir.emit_iobuffer asserts len(port) == len(o)
    "emit_write_port": [("len(cell.en)", "len(cell.data)")],    # _ir.emit_write_port expands en over range(len(data)) (R-07e)
}


def width_of(e, meth):
    """polynomial width of a port expression, or None if unknown"""
    m = pmatch("self.sigspec(_V_X)", e)
    if m is not None:
        x = m["_V_X"]
        xs = unparse(x)
        if xs in ONE_BIT_ATTRS and not (meth == "emit_write_port" and xs == "cell.en"):
            return _P("1")
        mm = pmatch("_nir.Net.from_const(_V_C)", x)
        if mm is not None:
            return _P("1")
        mm = pmatch("_nir.Value.zeros(_V_W)", x) or pmatch("_nir.Value.ones(_V_W)", x)
        if mm is not None:
            return poly(mm["_V_W"])
        mm = pmatch("_nir.Value(_V_L)", x)
        if mm is not None:
            return poly(ast.parse(f"len({unparse(mm['_V_L'])})", mode="eval").body)
        return poly(ast.parse(f"len({xs})", mode="eval").body)
    if pmatch("self.sigspec()", e) is not None:
        return _P("0")
    m = pmatch("self.io_sigspec(_V_X)", e)
    if m is not None:
        return poly(ast.parse(f"len({unparse(m['_V_X'])})", mode="eval").body)
    m = pmatch("self.builder.wire(_V_W).name", e)
    if m is not None:
        return poly(m["_V_W"])
    if pmatch("self.cell_wires[cell_idx].name", e) is not None:
        w = CELL_WIRE_WIDTH.get(meth)
        return None if w is None else _P(w)
    m = pmatch("_const(_V_C)", e)
    if m is not None:
        return poly(ast.parse(f"len({unparse(m['_V_C'])})", mode="eval").body)
    return None


def _dict(node):
    if isinstance(node, ast.Dict):
        return {const_str(k): v for k, v in zip(node.keys, node.values) if const_str(k) is not None}
    return None


def r07a(model, ctx):
    R = "R-07a"
    cls = model.cls(f"{RTLIL}::ModuleEmitter")
    n_cells = 0
    for name, fn in model.class_methods(cls).items():
        if not name.startswith("emit_") or name in ("emit_operator",):
            continue
        paths = run_paths(fn.body, max_paths=2048)
        seen = set()
        for p in paths:
            cells = [n for e in p.effects for n in ast.walk(e)
                     if isinstance(n, ast.Call) and unparse(n.func) == "self.builder.cell"]
            for c in cells:
                ctype = const_str(c.args[0]) if c.args else None
                if ctype is None and c.args and isinstance(c.args[0], ast.JoinedStr):
                    t = template_of(c.args[0])
                    ctype = t.skeleton() if t is not None else None
                ports = params = None
                for kw in c.keywords:
                    if kw.arg == "ports":
                        ports = _dict(kw.value)
                    if kw.arg == "parameters":
                        params = _dict(kw.value)
                if ctype is None or ctype.startswith("\\"):
                    continue     # instances / submodule cells: R-07d, R-07e
                if ctype == "${0}":
                    ctype = "$anyconst"
                if ctype not in SIG:
                    raise AnalysisError(f"{RTLIL}:{fn.lineno} {name}: cell type {ctype!r} has no signature in the R-07a table")
                if ports is None:
                    raise AnalysisError(f"{RTLIL}:{fn.lineno} {name}: ports of {ctype} are not a dict literal on this path")
                params = params or {}
                for port, par in SIG[ctype]:
                    key = (ctype, port, par, unparse(ports.get(port)) if port in ports else None,
                           unparse(params.get(par)) if par in params else None)
                    if key in seen:
                        continue
                    seen.add(key)
                    cons = f"{name}:{ctype}:{port}/{par}"
                    where = f"{RTLIL}:{fn.lineno}"
                    if port not in ports or par not in params:
                        ctx.viol(R, cons, f"{ctype} built without port {port} or parameter {par}", where)
                        continue
                    w = width_of(ports[port], name)
                    if w is None:
                        raise AnalysisError(f"{where} {name}: cannot determine the width of {ctype}.{port} = {unparse(ports[port])}")
                    got = poly(params[par])
                    # width equalities guaranteed by the netlist builder (each is itself checked structurally)
                    for a_, b_ in WIDTH_EQ.get(name, []):
                        if w == _P(a_):
                            w = _P(b_)
                    if ctype == "$meminit_v2" and port == "ADDR":
                        ok = got == _P("0") and w == _P("0")
                    else:
                        ok = got == w
                    n_cells += 1
                    ctx.check(ok, R, cons, f"{par} = {unparse(params[par])} == width of {unparse(ports[port])}",
                              f"{ctype}: parameter {par} is {unparse(params[par])} but port {port} is connected to "
                              f"{unparse(ports[port])}, which is {poly_text(w)} bits wide", where)
                for port in ONE_BIT.get(ctype, []):
                    if port in ports:
                        w = width_of(ports[port], name)
                        key = (ctype, port, "1bit", unparse(ports[port]))
                        if key in seen:
                            continue
                        seen.add(key)
                        if w is None:
                            raise AnalysisError(f"{RTLIL}:{fn.lineno} {name}: cannot determine the width of {ctype}.{port}")
                        okw = w == _P("1") or (ctype in ("$print", "$check") and port == "TRG")
                        ctx.check(okw, R, f"{name}:{ctype}:{port}/1-bit", f"{unparse(ports[port])} is one bit",
                                  f"{ctype}.{port} must be a single bit, connected to {unparse(ports[port])}",
                                  f"{RTLIL}:{fn.lineno}")
    need(n_cells >= 20, f"only {n_cells} (port, width-parameter) pairs recognised")
    fb = model.func(f"{IR}::NetlistEmitter.emit_iobuffer")
    ok = any(isinstance(s_, ast.Assert) and unparse(s_.test) == "len(port) == len(o)" for s_ in ast.walk(fb))
    ctx.check(ok, R, "emit_iobuffer:len(port)==len(o)", "asserted where the IOBuffer cell is built",
              "the equality len(o) == len(port) that $tribuf's WIDTH relies on must be established where the IOBuffer "
              "cell is built", f"{IR}:{fb.lineno}")
    # emit_operator: Y and width params (A/B handled path-wise by R-04c)
    fo = model.func(f"{RTLIL}::ModuleEmitter.emit_operator")
    for n in ast.walk(fo):
        if isinstance(n, ast.Call) and unparse(n.func) == "self.builder.cell":
            ports = params = None
            for kw in n.keywords:
                if kw.arg == "ports":
                    ports = _dict(kw.value)
                if kw.arg == "parameters":
                    params = _dict(kw.value)
            ctype = const_str(n.args[0]) or "cell_type"
            for port, par in [("A", "A_WIDTH"), ("B", "B_WIDTH"), ("Y", "Y_WIDTH"), ("Y", "WIDTH"), ("A", "WIDTH"), ("B", "WIDTH")]:
                if ports and params and port in ports and par in params:
                    if par == "WIDTH" and ctype != "$mux":
                        continue
                    if par != "WIDTH" and ctype == "$mux":
                        continue
                    e = ports[port]
                    m = pmatch("_V_X.name", e)
                    if m is not None and isinstance(m["_V_X"], ast.Name):
                        # a local wire: find its creation width
                        wn = m["_V_X"].id
                        cr = [s for s in ast.walk(fo) if isinstance(s, ast.Assign) and unparse(s.targets[0]) == wn]
                        w = None
                        if len(cr) == 1:
                            mm = pmatch("self.builder.wire(_V_W)", cr[0].value)
                            w = poly(mm["_V_W"]) if mm is not None else None
                    else:
                        w = width_of(e, "emit_operator")
                    if w is None:
                        raise AnalysisError(f"{RTLIL}:{n.lineno} emit_operator: width of {port} = {unparse(e)} unknown")
                    ok = poly(params[par]) == w
                    # if_true / if_false / zeros(cell.width) have width cell.width by the netlist invariant of `m`
                    if not ok and ctype == "$mux" and unparse(e) in ("self.sigspec(if_false)", "self.sigspec(if_true)"):
                        ok = unparse(params[par]) == "cell.width"
                    ctx.check(ok, R, f"emit_operator:{ctype}@{'div' if 'result' in unparse(ports.get('Y', e)) or 'nonzero' in unparse(ports.get('Y', e)) or 'nonzero' in unparse(ports.get('S', e)) else 'main'}:{port}/{par}",
                              f"{par} = {unparse(params[par])}",
                              f"{ctype}: {par} = {unparse(params[par])} but {port} is connected to {unparse(e)}",
                              f"{RTLIL}:{n.lineno}")


def r07b(model, ctx):
    R = "R-07b"
    # --- the uniqueness gate is only an assert: names must be unique by construction
    cm = model.cls(f"{RTLIL}::Module")
    for meth in ("wire", "cell", "memory", "process"):
        # path summary with Module's own helpers expanded: on every path the key stored into self.contents is the
        # result of self._name(name)
        from ..engine import refsem
        table = refsem.inline_table(model, RTLIL, "Module", exclude=(meth, "_name"))
        f, paths = refsem.method_paths(model, f"{RTLIL}::Module.{meth}", inline=table)
        stores = []
        for p in paths:
            for e in p.effects:
                if isinstance(e, ast.Assign):
                    for t in e.targets:
                        if isinstance(t, ast.Subscript) and unparse(t.value) == "self.contents":
                            stores.append(unparse(t.slice))
        ok = bool(stores) and all(k == "self._name(name)" for k in stores)
        ctx.check(ok, R, f"rtlil.Module.{meth}", "registers through _name() before inserting into contents",
                  f"Module.{meth} must pass its name through self._name() before inserting into self.contents",
                  f"{RTLIL}:{f.lineno}")
    # --- provenance of explicit names handed to the builder
    me = model.cls(f"{RTLIL}::ModuleEmitter")
    ALLOC = {  # expression (after local resolution) -> where the allocator guarantees uniqueness
        "cell.name": "Instance/Memory names come from Design._assign_names via _add_name (fragment names)",
        "submodule.name[-1]": "submodule names come from _add_name in Design._assign_names",
        "name@signal_names": "signal names come from _add_name in Design._assign_names",
    }
    for mname, f in model.class_methods(me).items():
        for n in ast.walk(f):
            if not (isinstance(n, ast.Call) and unparse(n.func) in ("self.builder.wire", "self.builder.cell", "self.builder.memory")):
                continue
            nm = None
            for kw in n.keywords:
                if kw.arg == "name":
                    nm = kw.value
            if nm is None and unparse(n.func) == "self.builder.cell" and len(n.args) >= 2:
                nm = n.args[1]
            if nm is None:
                continue
            src = unparse(nm)
            prov = None
            if src in ("cell.name", "submodule.name[-1]"):
                prov = ALLOC[src]
            elif src == "name":
                # loop variable: which dict does it iterate?
                mod = model.mod(RTLIL)
                p = mod.parent(n)
                it = None
                while p is not None and p is not f:
                    if isinstance(p, ast.For) and "name" in names_in(p.target):
                        it = unparse(p.iter)
                        break
                    p = mod.parent(p)
                if it is not None and "self.module.signal_names.items()" in it:
                    prov = ALLOC["name@signal_names"]
                elif it is not None and ("self.module.ports.items()" in it or "self.module.io_ports.items()" in it):
                    prov = f"port-dict:{it}"
            cons = f"{mname}:name={src}"
            if prov is None:
                ctx.viol(R, cons, f"the name `{src}` handed to {unparse(n.func)} is computed outside the deduplicating "
                                  f"allocator (_add_name): a signal that already has this name in the module makes "
                                  f"conversion die in `assert name not in self.contents` (duplicate wire under -O)",
                         f"{RTLIL}:{n.lineno}")
            elif prov.startswith("port-dict:"):
                ctx.ok(R, cons, "port names: keys of module.ports / io_ports (checked at their producers)", f"{RTLIL}:{n.lineno}")
            else:
                ctx.ok(R, cons, prov, f"{RTLIL}:{n.lineno}")
    # --- producers of module.ports / io_ports keys
    for fname in ("_compute_ports", "_compute_io_ports"):
        f = model.func(f"{IR}::{fname}")
        for s in ast.walk(f):
            if isinstance(s, ast.Assign) and isinstance(s.targets[0], ast.Name) and s.targets[0].id == "name" and \
                    isinstance(s.value, ast.JoinedStr):
                t = template_of(s.value)
                ctx.viol(R, f"{fname}:name={t.skeleton()}",
                         f"port name synthesised as {t.skeleton()!r} without going through _add_name: an internal signal "
                         f"of that name in the same module collides in the RTLIL builder (AssertionError)",
                         f"{IR}:{s.lineno}")
    # names from the allocator
    fa = model.func(f"{IR}::Design._assign_names")
    t = unparse(fa)
    cnt = t.count("_add_name(frag_info.assigned_names,")
    ctx.check(cnt >= 3, R, "Design._assign_names", f"{cnt} name kinds allocated through _add_name (signals, io ports, subfragments)",
              "signal, io-port and subfragment names must all be allocated through _add_name on the fragment's "
              "assigned_names", f"{IR}:{fa.lineno}")
    fn = model.func(f"{IR}::_add_name")
    ok = "if name in assigned_names" in unparse(fn) and "assigned_names.add(name)" in unparse(fn)
    ctx.check(ok, R, "_add_name", "renames on collision and records the name", "_add_name must dedupe and record", f"{IR}:{fn.lineno}")
    # --- port ids
    fe = model.func(f"{RTLIL}::Module.emit")
    ok = isinstance(fe.body[0], ast.Assign) and unparse(fe.body[0]) == "line.port_id = 0"
    writes = []
    for rel in (RTLIL,):
        for n in ast.walk(model.mod(rel).tree):
            if isinstance(n, (ast.Assign, ast.AugAssign)):
                tg = n.targets[0] if isinstance(n, ast.Assign) else n.target
                if isinstance(tg, ast.Attribute) and tg.attr == "port_id":
                    writes.append(n)
    augs = [w for w in writes if isinstance(w, ast.AugAssign)]
    inits = [w for w in writes if isinstance(w, ast.Assign) and const_int(w.value) == 0]
    ok = ok and len(writes) - len(inits) == 1 and len(augs) == 1 and isinstance(augs[0].op, ast.Add) and const_int(augs[0].value) == 1
    if ok:
        fw = model.func(f"{RTLIL}::Wire.emit")
        # the increment directly follows the port wire line in the same branch
        ifs = [s for s in fw.body if isinstance(s, ast.If) and unparse(s.test) == "self.port_kind is None"]
        ok = len(ifs) == 1 and len(ifs[0].orelse) == 2 and ifs[0].orelse[1] is augs[0] and \
            "line.port_id" in unparse(ifs[0].orelse[0]) and not any("port_id" in unparse(s) for s in ifs[0].body)
    ctx.check(ok, R, "port_id", "reset once per module, used then incremented once per port wire",
              "port ids must be reset to 0 at the start of Module.emit and incremented by exactly 1 right after each port "
              "wire line (dense, unique)", f"{RTLIL}:{fe.lineno}")


def r07c(model, ctx):
    R = "R-07c"
    f = model.func(f"{RTLIL}::convert_fragment")
    loops = [s for s in f.body if isinstance(s, ast.For) and "enumerate(netlist.modules)" in unparse(s.iter)]
    ok = len(loops) == 1 and isinstance(loops[0].body[0], ast.If) and \
        unparse(loops[0].body[0].test) == "empty_checker.is_empty(module_idx)" and isinstance(loops[0].body[0].body[0], ast.Continue)
    ctx.check(ok, R, "convert_fragment:skip-empty-definition", "empty modules are not defined",
              "convert_fragment must skip the definition of modules the EmptyModuleChecker reports empty", f"{RTLIL}:{f.lineno}")
    from ..engine.astutil import parent_map, dominating_conditions
    from ..engine.bitalg import conjuncts
    f2 = model.func_view(f"{RTLIL}::ModuleEmitter.emit_submodules")
    pm2 = parent_map(f2)
    cells = [n for n in ast.walk(f2) if isinstance(n, ast.Expr) and isinstance(n.value, ast.Call) and
             unparse(n.value.func) == "self.builder.cell"]
    need(len(cells) >= 1, "emit_submodules: the submodule cell emission was not found")
    want = conjuncts([(ast.parse("self.empty_checker.is_empty(submodule_idx)", mode="eval").body, False)])
    ok = all(conjuncts(dominating_conditions(pm2, c, f2)) == want for c in cells)
    ctx.check(ok, R, "emit_submodules:skip-empty-cell", "cells are emitted only for non-empty submodules (same predicate)",
              "a submodule cell must be emitted exactly when the submodule's definition is (same is_empty predicate), "
              "otherwise the cell references a module that does not exist", f"{RTLIL}:{f2.lineno}")
    f3 = model.func_view(f"{RTLIL}::EmptyModuleChecker.check")
    t = unparse(f3)
    M = "self.netlist.modules[module_idx]"
    # two idioms: an accumulator and-ed with every submodule's verdict, or `not cells and all([...])`
    if "&=" in t:
        ok = f"is_empty = not {M}.cells" in t and "is_empty &= self.check(submodule)" in t and \
            f"for submodule in {M}.submodules:" in t
    elif "all(" in t:
        ok = any(pmatch(f"not {M}.cells and all([self.check(submodule) for submodule in {M}.submodules])", n) is not None or
                 pmatch(f"all([self.check(submodule) for submodule in {M}.submodules]) and (not {M}.cells)", n) is not None
                 for n in ast.walk(f3))
    else:
        raise AnalysisError("EmptyModuleChecker.check: the emptiness accumulation idiom was not recognised")
    ctx.check(ok, R, "EmptyModuleChecker.check", "empty iff no cells and all submodules empty",
              "a module is empty iff it has no cells and all of its submodules are empty", f"{RTLIL}:{f3.lineno}")


def r07d(model, ctx):
    R = "R-07d"
    from ..engine.astutil import dict_contributions
    f = model.func(f"{RTLIL}::ModuleEmitter.emit_submodules")
    contrib = dict_contributions(f, "ports")
    need(contrib, "emit_submodules: the `ports` dict of the submodule cell was not found")
    got = {(it, k, v) for it, _tgt, k, v in contrib}
    ok = got == {("submodule.ports.items()", "name", "self.sigspec(value)"), ("submodule.io_ports.items()", "name", "self.io_sigspec(value)")} \
        and all(tgt in ("(name, (value, _flow))", "name, (value, _flow)", "(name, (value, _dir))", "name, (value, _dir)") for _i, tgt, _k, _v in contrib)
    ctx.check(ok, R, "emit_submodules:ports", "one connection per declared port and io port, same value",
              "the submodule cell must connect exactly submodule.ports and submodule.io_ports (the dicts the submodule's "
              "port wires are declared from), each with the port's own value", f"{RTLIL}:{f.lineno}")
    # declaring side iterates the same dicts, with the same widths
    f1 = model.func(f"{RTLIL}::ModuleEmitter.emit_port_wires")
    f2 = model.func(f"{RTLIL}::ModuleEmitter.emit_io_port_wires")
    ok = "self.module.ports.items()" in unparse(f1) and "width=len(value)" in unparse(f1) and "port_kind=flow.value" in unparse(f1)
    ctx.check(ok, R, "emit_port_wires", "one port wire per module.ports entry, width len(value), kind = flow",
              "port wires must be declared from module.ports with width len(value) and the flow as port kind", f"{RTLIL}:{f1.lineno}")
    ok = "self.module.io_ports.items()" in unparse(f2) and "width=len(value)" in unparse(f2) and "port_kind=dir.value" in unparse(f2)
    ctx.check(ok, R, "emit_io_port_wires", "one port wire per module.io_ports entry",
              "io port wires must be declared from module.io_ports with width len(value) and the direction as port kind",
              f"{RTLIL}:{f2.lineno}")
    # emission order: port wires precede cells so that port ids are assigned in declaration order
    fe = model.func(f"{RTLIL}::ModuleEmitter.emit")
    order = [unparse(s.value.func) for s in fe.body if isinstance(s, ast.Expr) and isinstance(s.value, ast.Call)]
    want = ["self.emit_signal_wires", "self.emit_port_wires", "self.emit_io_port_wires", "self.emit_cell_wires"]
    idx = [order.index(w) if w in order else -1 for w in want]
    ok = all(i >= 0 for i in idx) and idx == sorted(idx) and order.index("self.emit_cells") > idx[-1] and \
        order.index("self.collect_init_attrs") < idx[0]
    ctx.check(ok, R, "ModuleEmitter.emit:order", "wires (signals, ports, io ports, cells) before connects and cells",
              f"ModuleEmitter.emit must declare all wires before emitting cells that reference them; order: {order}", f"{RTLIL}:{fe.lineno}")
    # instance cell: all three port kinds
    fi = model.func(f"{RTLIL}::ModuleEmitter.emit_instance")
    t = unparse(fi)
    ok = "for (name, nets) in cell.ports_i.items()" in t.replace("for name, nets in", "for (name, nets) in") and \
        "cell.ports_o" in t and "cell.ports_io.items()" in t and "parameters=cell.parameters" in t and "attrs=cell.attributes" in t \
        and "f'\\\\{cell.type}'" in t
    ctx.check(ok, R, "emit_instance", "type, name, parameters, attributes and all of ports_i/ports_o/ports_io carried over",
              "an Instance cell must be emitted with exactly its type, parameters, attributes and input/output/io ports",
              f"{RTLIL}:{fi.lineno}")


def r07e(model, ctx):
    R = "R-07e"
    f = model.func(f"{RTLIL}::_const")
    hits = [n for n in ast.walk(f) if pmatch("max(32, bits_for(value))", n) is not None]
    ok = len(hits) == 1 and any(pmatch("_const(_ast.Const(value, width))", n) is not None for n in ast.walk(f))
    ctx.check(ok, R, "_const:int-width", "wide/negative ints use max(32, bits_for(value)) (sign-aware minimal width)",
              "plain integers outside 0..2**31-2 must be emitted as Const(value, max(32, bits_for(value))): bits_for "
              "accounts for the sign bit of negative values, int.bit_length() does not", f"{RTLIL}:{f.lineno}")
    from ..engine.bitalg import canon
    fv = model.func_view(f"{RTLIL}::_const")
    want = canon("value.value & (1 << len(value)) - 1")
    hits = [n for n in ast.walk(fv) if isinstance(n, ast.BinOp) and isinstance(n.op, (ast.BitAnd, ast.Mod)) and canon(n) == want]
    ctx.check(len(hits) >= 1, R, "_const:twos-complement", "Const emitted as value & mask(len) in len digits",
              "a Const must be emitted as its two's complement pattern masked to its own width", f"{RTLIL}:{f.lineno}")
    f = model.func(f"{RTLIL}::_signed")
    lvs = dispatch_leaves(f.body)
    lf = select_leaf(lvs, {"class": "int"})
    ok = lf is not None and any(isinstance(s, ast.Return) and unparse(s.value) == "value < 0" for s in lf.body)
    lf2 = select_leaf(lvs, {"class": "Const"})
    ok = ok and lf2 is not None and any(isinstance(s, ast.Return) and unparse(s.value) == "value.shape().signed" for s in lf2.body)
    ctx.check(ok, R, "_signed", "ints signed iff negative; Const signed iff its shape is",
              "parameter signedness must be `value < 0` for ints and the shape's signedness for Const", f"{RTLIL}:{f.lineno}")
    f = model.func(f"{RTLIL}::_make_attributes")
    g = CFG(f, inline_closures=False)
    src = g.nodes(lambda s: isinstance(s, ast.Assign) and unparse(s.targets[0]) in ("res['src']", 'res["src"]'))
    upd = g.nodes_with(lambda n: isinstance(n, ast.Call) and unparse(n.func) == "res.update")
    ok = len(src) == 1 and len(upd) == 1 and upd[0] in g.after(src[0]) and src[0] not in g.after(upd[0])
    if not ok and len(upd) == 1 and not src:
        # the automatic `src` placed in the dictionary literal that `res` starts from: still before the update
        init = g.nodes(lambda s: isinstance(s, ast.Assign) and unparse(s.targets[0]) == "res" and
                       any(isinstance(d, ast.Dict) and any(isinstance(k, ast.Constant) and k.value == "src" for k in d.keys) for d in ast.walk(s.value)))
        ok = len(init) == 1 and upd[0] in g.after(init[0]) and init[0] not in g.after(upd[0])
    ctx.check(ok, R, "_make_attributes:user-attrs-win", "automatic src is set first, user attributes override it",
              "user-supplied attributes must be applied after the automatic `src`, so that an attribute literally named "
              "`src` keeps its given value", f"{RTLIL}:{f.lineno}")
    # write port enable width: one bit per data bit
    fw = model.func_view(f"{IR}::NetlistEmitter.emit_write_port")
    ok = any(pmatch("_nir.Value([en[bit // port._granularity] for bit in range(len(port._data))])", n) is not None
             for n in ast.walk(fw))
    ctx.check(ok, R, "emit_write_port:EN-width", "en expanded over range(len(port._data))",
              "the per-bit write enable must have exactly len(port._data) bits (one per data bit), also for zero-width "
              "data", f"{IR}:{fw.lineno}")


def _only(rule_fn, keep):
    def wrapped(model, ctx):
        n0, v0 = len(ctx.obligations), len(ctx.violations)
        rule_fn(model, ctx)
        ctx.obligations[n0:] = [o for o in ctx.obligations[n0:] if keep(o["construct"])]
        ctx.violations[v0:] = [v for v in ctx.violations[v0:] if keep(v["construct"])]
    return wrapped


def r07f(model, ctx):
    """sigspec / io_sigspec: a run of bits is merged into one `wire [hi:lo]` chunk only while the next net lies on the SAME
    wire at the NEXT bit; Wire.emit always declares the wire (zero-width ones too: connects and ports refer to them by name);
    the automatic direction of a top-level IOPort is the union over all of its used bits."""
    R = "R-07f"
    for meth, table in (("sigspec", "self.nets"), ("io_sigspec", "self.ionets")):
        f = model.func(f"{RTLIL}::ModuleEmitter.{meth}", optional=True)
        if f is None:
            continue
        unpack = [st for st in ast.walk(f) if isinstance(st, ast.Assign) and isinstance(st.targets[0], ast.Tuple) and len(st.targets[0].elts) == 2
                  and isinstance(st.value, ast.Subscript) and unparse(st.value.value) in ("self.nets", "self.ionets", "self.io_nets")]
        need(len(unpack) == 1, f"{meth}: the (wire, bit) look-up of the first net of a run was not found")
        wname, sname = (unparse(x) for x in unpack[0].targets[0].elts)
        tbl = unparse(unpack[0].value.value)
        loops = [w for w in ast.walk(f) if isinstance(w, ast.While) and tbl in unparse(w.test)]
        need(len(loops) == 1, f"{meth}: the run-extending loop was not found")
        w = loops[0]
        # the running bit: a local initialised from the start bit and incremented in the loop
        incs = [unparse(b.target) for b in w.body if isinstance(b, ast.AugAssign) and isinstance(b.op, ast.Add) and const_int(b.value) == 1]
        conj = w.test.values if isinstance(w.test, ast.BoolOp) and isinstance(w.test.op, ast.And) else [w.test]
        ok = False
        for c in conj:
            if isinstance(c, ast.Compare) and len(c.ops) == 1 and isinstance(c.ops[0], ast.Eq):
                l, r = c.left, c.comparators[0]
                for a, b in ((l, r), (r, l)):
                    if isinstance(a, ast.Subscript) and unparse(a.value) == tbl and isinstance(b, ast.Tuple) and len(b.elts) == 2 and \
                            unparse(b.elts[0]) == wname and unparse(b.elts[1]) in incs:
                        ok = True
                    elif isinstance(a, ast.Subscript) and unparse(a.value) == tbl and isinstance(b, ast.Tuple) and len(b.elts) == 2 and \
                            unparse(b.elts[0]) == wname:
                        # closed form of the running bit: start bit + (position counter - its initial value)
                        from ..engine.bitalg import Canon as _Canon
                        cn_ = _Canon()
                        for x_ in incs:
                            init_ = [st for st in ast.walk(f) if isinstance(st, ast.Assign) and len(st.targets) == 1 and
                                     unparse(st.targets[0]) == x_ and st.lineno < w.lineno]
                            if init_:
                                x0 = unparse(sorted(init_, key=lambda st: st.lineno)[-1].value)
                                want_ = ast.parse(f"{sname} + {x_} - ({x0})", mode="eval").body
                                if cn_.arith(b.elts[1]) == cn_.arith(want_):
                                    ok = True
        if not ok:
            # two separate comparisons of the components
            parts = {unparse(c) for c in conj}
            ok = any(f"[0] == {wname}" in x or f"[0] is {wname}" in x for x in parts) and any(
                any(f"[1] == {i}" in x for i in incs) for x in parts)
        ctx.check(ok, R, f"ModuleEmitter.{meth}:run", "a chunk grows only along one wire, bit by bit",
                  f"{meth} must extend a chunk only while the next net is (same wire, next bit): comparing the bit index alone merges "
                  f"nets of different wires into one out-of-range slice of the first wire; loop test: {unparse(w.test)}", f"{RTLIL}:{w.lineno}")
    fw = model.func(f"{RTLIL}::Wire.emit")
    ps = [p for p in run_paths(fw.body) if p.how != "raise"]
    need(ps, "Wire.emit: no completing path")
    def declares(p):
        for e in p.effects:
            for c in ast.walk(p.thaw(e)):
                if isinstance(c, ast.Call) and c.args:
                    t = template_of(c.args[0])
                    if t is not None and t.skeleton().lstrip().startswith("wire "):
                        return True
        return False
    ok = all(declares(p) for p in ps)
    ctx.check(ok, R, "Wire.emit", "every path emits the `wire` declaration", "Wire.emit must declare the wire on every path "
              "(also zero-width wires: connects, ports and cells still refer to them by name)", f"{RTLIL}:{fw.lineno}")
    fio = model.func(f"{IR}::_compute_io_ports")
    loops = [lp for lp in ast.walk(fio) if isinstance(lp, ast.For) and unparse(lp.iter) == "io_ports[port]"]
    need(len(loops) == 1, "_compute_io_ports: the loop over the bits of a top-level IOPort was not found")
    lp = loops[0]
    v = unparse(lp.target)
    ps = run_paths(lp.body, {"auto_dir": ast.Name(id="PREV", ctx=ast.Load())})
    used = [p for p in ps if any(unparse(t) == f"{v} in module.ionet_dir" and pol for t, pol in p.conds)]
    need(used, "_compute_io_ports: no path for a used bit")
    ok = True
    for p in used:
        val = unparse(p.env.get("auto_dir")) if p.env.get("auto_dir") is not None else None
        first = any(unparse(t) == "PREV is None" and pol for t, pol in p.conds) or any(unparse(t) == "PREV is not None" and not pol for t, pol in p.conds)
        later = any(unparse(t) == "PREV is None" and not pol for t, pol in p.conds) or any(unparse(t) == "PREV is not None" and pol for t, pol in p.conds)
        if first:
            ok = ok and val == f"module.ionet_dir[{v}]"
        elif later:
            ok = ok and val in (f"PREV | module.ionet_dir[{v}]", f"module.ionet_dir[{v}] | PREV")
        else:
            ok = False
    ctx.check(ok, R, "_compute_io_ports:auto-direction", "the inferred direction is the union (|) over all used bits",
              "the automatic direction of a top-level IOPort must accumulate `|=` over every used bit: taking the last bit's direction "
              "declares a port `input` that is driven inside, or `output` with undriven bits", f"{IR}:{lp.lineno}")



def r07g(model, ctx):
    """which ports a module gets and with which direction: net-flow routing (_compute_net_flows.use_net), I/O directions
    (_compute_ionet_dirs, io_nets, IODirection.__or__) compared with their reference semantics (sa/refs/c07_flows.py)"""
    from .reflib import run_ref_file
    run_ref_file(model, ctx, "R-07g", "c07_flows")



def r07h(model, ctx):
    """(1) an `enum_value_<bits>` attribute is named by the member's bit pattern in the wire's width: to_binary() refuses negative
    numbers, so the value handed to it is masked to the width (negative members of signed enumerations);
    (2) an I/O buffer is emitted as a plain connection only when its enable is the constant 1 — any other enable, the constant 0
    included, keeps the tristate buffer;
    (3) an anonymous wire created for a driven value carries the attributes collected for that value (the `init` of a
    flip-flop whose output is not a whole named signal);
    (4) the first net of a top-level I/O port (used to find the port's attributes) is read only when the port is not empty."""
    R = "R-07h"
    from ..engine.bitalg import Canon
    cn = Canon()
    n = 0
    for meth in ("emit_signal_wires", "emit_signal_fields"):
        f = model.func(f"{RTLIL}::ModuleEmitter.{meth}")
        for c in ast.walk(f):
            if isinstance(c, ast.Call) and dotted(c.func) == "to_binary" and len(c.args) == 2 and "var_val" in unparse(c.args[0]):
                n += 1
                want = cn(ast.parse(f"var_val & ((1 << ({unparse(c.args[1])})) - 1)", mode="eval").body)
                ok = cn(c.args[0]) == want
                ctx.check(ok, R, f"{meth}:enum_value", "to_binary(value masked to the width, width)",
                          f"{meth} names an enum_value attribute with `to_binary({unparse(c.args[0])}, {unparse(c.args[1])})`: a negative "
                          f"member of a signed enumeration is refused by to_binary (ValueError: rtlil.convert fails for the design); "
                          f"the value must be masked to the wire's width", f"{RTLIL}:{c.lineno}")
    need(n >= 2, "the enum_value attribute names were not found in emit_signal_wires / emit_signal_fields")
    fb = model.func(f"{RTLIL}::ModuleEmitter.emit_io_buffer")
    tests = [t for t in (x.test for x in ast.walk(fb) if isinstance(x, ast.If)) if "cell.oe" in unparse(t)]
    need(tests, "emit_io_buffer: the test on the buffer's enable was not found")
    for t in tests:
        tx = unparse(t)
        ok = "cell.oe == _nir.Net.from_const(1)" in tx or "_nir.Net.from_const(1) == cell.oe" in tx
        if not ok:
            need("is_const" in tx or "from_const" in tx, f"emit_io_buffer: unrecognised test on the enable `{tx}`")
        ctx.check(ok, R, "emit_io_buffer:always-enabled", "the buffer is replaced by a connection only for oe == constant 1",
                  f"emit_io_buffer decides with `{tx}` whether to emit a plain connection instead of the tristate buffer: only an "
                  f"enable that is the constant 1 may do that; a constant 0 must keep the pad undriven", f"{RTLIL}:{fb.lineno}")
    fw = model.func(f"{RTLIL}::ModuleEmitter.emit_driven_wire")
    wires = [c for c in ast.walk(fw) if isinstance(c, ast.Call) and unparse(c.func) == "self.builder.wire"]
    need(wires, "emit_driven_wire: no builder.wire call found")
    anon = [c for c in wires if not any(k.arg == "name" for k in c.keywords)]
    for c in anon:
        kw = {k.arg: unparse(k.value) for k in c.keywords}
        ok = kw.get("attrs") in ("self.value_attrs.get(value, {})", "self.value_attrs.get(value, {}) or {}")
        ctx.check(ok, R, "emit_driven_wire:anonymous-wire-attrs", "attrs=self.value_attrs.get(value, {})",
                  f"the anonymous wire of a driven value must carry the attributes collected for the value (found attrs="
                  f"{kw.get('attrs')}): without them a flip-flop whose output is part of a signal loses its `init`",
                  f"{RTLIL}:{c.lineno}")
    need(anon, "emit_driven_wire: the anonymous-wire path was not found")
    # (4) a zero-width I/O port has no first net: reading value[0] must be guarded by a test that the value is not empty
    fp = model.func(f"{RTLIL}::ModuleEmitter.emit_io_port_wires")
    mod = model.mod(RTLIL)
    NONEMPTY = ("len(value) > 0", "len(value) != 0", "len(value) >= 1", "len(value)", "value", "0 < len(value)")
    EMPTY = ("len(value) == 0", "not value", "not len(value)", "len(value) < 1")

    def conj(t):
        return [unparse(v) for v in t.values] if isinstance(t, ast.BoolOp) and isinstance(t.op, ast.And) else [unparse(t)]
    firsts = [x for x in ast.walk(fp) if isinstance(x, ast.Subscript) and unparse(x) == "value[0]"]
    for x in firsts:
        guarded, q, child = False, mod.parent(x), x
        while q is not None and q is not fp:
            if isinstance(q, (ast.If, ast.IfExp)):
                body = q.body if isinstance(q.body, list) else [q.body]
                orelse = q.orelse if isinstance(q.orelse, list) else [q.orelse]
                if any(child is b for b in body) and any(c in NONEMPTY for c in conj(q.test)):
                    guarded = True
                if any(child is b for b in orelse) and unparse(q.test) in EMPTY:
                    guarded = True
            if isinstance(q, ast.BoolOp) and isinstance(q.op, ast.And) and child in q.values and \
                    any(unparse(v) in NONEMPTY for v in q.values[:q.values.index(child)]):
                guarded = True
            if isinstance(q, ast.For) and child in q.body:
                for st in q.body[:q.body.index(child)]:
                    if isinstance(st, ast.If) and unparse(st.test) in EMPTY and not st.orelse and isinstance(st.body[-1], ast.Continue):
                        guarded = True
            q, child = mod.parent(q), q
        ctx.check(guarded, R, "emit_io_port_wires:zero-width", "value[0] read only when the port has bits",
                  "emit_io_port_wires reads value[0] of a top-level I/O port without testing that the port has any bit: "
                  "rtlil.convert raises IndexError for a design with a zero-width IOPort", f"{RTLIL}:{x.lineno}")


RULES = [("R-07h", r07h), ("R-07g", r07g), ("R-07f", r07f), ("R-07a", r07a), ("R-07b", r07b), ("R-07c", r07c), ("R-07d", r07d), ("R-07e", r07e),
         ("R-04c", c04.r04c), ("R-04e", _only(c04.r04e, lambda c: c.startswith("rtlil.") or c.startswith("emit_cell_wires")))]
