"""C08 — simulation results do not depend on process scheduling order (structural necessary conditions)."""
import ast
from ..engine.core import AnalysisError, need
from ..engine.astutil import (const_str, const_int, dotted, unparse, pmatch, walk_no_nested, find_matches, dump,
                              names_in, template_of)
from ..engine.cfg import CFG, ENTRY, EXIT
from ..engine.symx import run_paths
from . import c02, c03, c05
from .interp import PYRTL, PYEVAL

PYSIM = "amaranth/sim/pysim.py"
ASYNC = "amaranth/sim/_async.py"
CLOCK = "amaranth/sim/_pyclock.py"
CORE = "amaranth/sim/core.py"
TIME = "amaranth/hdl/_time.py"

EXPLANATION = (
    "Static (ast-only) decision of structural necessary conditions of C08: the two-phase effect discipline that makes "
    "the unordered process iteration commute — (a) only _PySignalState.reset/commit assign a slot's `curr`; generated "
    "process code reads `curr`/memory `read()` and writes only through `update()`/`write()`; partial writes merge "
    "into the *pending* value (shared R-02g) with a commit mask that claims sign-extension bits only when the MSB is "
    "driven (R-02f); (b) within a delta cycle triggers run before processes and commit comes last; a trigger samples "
    "its values before marking its process runnable; (c) every iteration over a set-typed collection in the engine has "
    "a body whose effects commute (enumerated table of sites); (d) testbenches are kept in a list, appended, iterated "
    "in order, and the loop re-scans whenever a testbench ran; (e) time is integer femtoseconds: Period stores "
    "round()ed integers, the clock process arms `phase` first and `period // 2` afterwards, the timeline only adds; "
    "(f) a testbench write settles before returning (shared R-05a). NOT decided: equivalence of process-replaced "
    "circuits; schedule-dependent behaviour of user processes."
)
ASSUMPTIONS = ["CPython ast parses /repo's source as the interpreter would",
               "the table of unordered-iteration sites with their commutativity argument in sa/rules/c08.py"]
MIN_INSTANCES = {"R-08i": 2, "R-08h": 30, "R-08g": 4, "R-08a": 6, "R-08b": 3, "R-08c": 5, "R-08d": 3, "R-08e": 5, "R-08f": 2}


def r08a(model, ctx):
    R = "R-08a"
    # who assigns .curr anywhere in amaranth/sim
    writers = []
    for rel in model.all_files():
        if not rel.startswith("amaranth/sim/"):
            continue
        m = model.mod(rel)
        for n in ast.walk(m.tree):
            tg = []
            if isinstance(n, ast.Assign):
                tg = n.targets
            elif isinstance(n, (ast.AugAssign, ast.AnnAssign)):
                tg = [n.target]
            for t in tg:
                for x in ast.walk(t):
                    if isinstance(x, ast.Attribute) and x.attr == "curr" and isinstance(x.ctx, ast.Store):
                        writers.append((rel, m.qualname_of(n), n.lineno))
    need(writers, "no assignment to .curr found")
    allowed = {"_PySignalState.reset", "_PySignalState.commit"}
    for rel, q, line in writers:
        ctx.check(rel == PYSIM and q in allowed, R, f"curr-writer:{q}", "commit phase / reset only",
                  f"{q} assigns a signal slot's committed value `curr`; only _PySignalState.commit (commit phase) and "
                  f"reset may, otherwise a process observes writes of processes that ran earlier in the same delta cycle",
                  f"{rel}:{line}")
    # generated code: no template assigns slots[..].curr, and `.next` is only read into the process's own next_i
    m = model.mod(PYRTL)
    for n in ast.walk(m.tree):
        if isinstance(n, ast.JoinedStr) or (isinstance(n, ast.Constant) and isinstance(n.value, str) and "slots[" in n.value):
            t = template_of(n)
            if t is None:
                continue
            sk = t.skeleton()
            if "slots[" not in sk:
                continue
            bad_write = ".curr =" in sk.replace("==", "") or ".next =" in sk.replace("==", "") or ".data[" in sk
            ok_next = ".next" not in sk or sk.startswith("next_{0} = slots[{1}].next")
            if ".next" in sk and ok_next and len(t.holes) >= 2:
                ok_next = t.holes[0].src == t.holes[1].src      # own slot only
            q = m.qualname_of(n)
            if q.endswith(".compile"):
                continue
            ctx.check(not bad_write and ok_next, R, f"template:{q}:{sk[:40]}", "reads curr / own next; writes via update()/write()",
                      f"generated code {sk!r} in {q} bypasses the two-phase discipline (it must not assign curr/next/data "
                      f"directly and may read `.next` only of its own output slot)", f"{PYRTL}:{n.lineno}")
    # RHS signal reads in 'curr' mode read slots[i].curr
    f = model.func(f"{PYRTL}::_RHSValueCompiler.on_Signal")
    t = unparse(f)
    ok = "if self.mode == 'curr':" in t and "slots[{self.state.get_signal(value)}].{self.mode}" in t
    ctx.check(ok, R, "_RHSValueCompiler.on_Signal", "inputs are read from slots[i].curr",
              "RHS signal reads of compiled processes must use the committed value (mode 'curr')", f"{PYRTL}:{f.lineno}")
    sc = model.func(f"{PYRTL}::_StatementCompiler.__init__")
    ok = 'mode="curr"' in unparse(sc).replace("'", '"')
    ctx.check(ok, R, "_StatementCompiler.__init__", "statement RHS compiled in 'curr' mode",
              "statements must read their inputs in 'curr' mode", f"{PYRTL}:{sc.lineno}")
    # memory: write() only queues; data assigned only in commit/reset
    mem = model.cls(f"{PYSIM}::_PyMemoryState")
    for name, fn in model.class_methods(mem).items():
        for n in ast.walk(fn):
            tg = n.targets if isinstance(n, ast.Assign) else [n.target] if isinstance(n, ast.AugAssign) else []
            for tt in tg:
                if "self.data" in unparse(tt) and isinstance(tt, (ast.Subscript, ast.Attribute)):
                    ctx.check(name in ("commit", "reset"), R, f"_PyMemoryState.{name}:writes-data", "commit/reset only",
                              f"_PyMemoryState.{name} assigns self.data directly; writes must be queued in write_queue and "
                              f"applied in commit()", f"{PYSIM}:{n.lineno}")
    fr = model.func(f"{PYSIM}::_PyMemoryState.read")
    ok = any(isinstance(s, ast.Return) and unparse(s.value) == "self.data[addr]" for s in ast.walk(fr))
    ctx.check(ok, R, "_PyMemoryState.read", "reads committed data", "read() must return the committed row self.data[addr]",
              f"{PYSIM}:{fr.lineno}")
    fu = model.func(f"{PYSIM}::_PySignalState.update")
    ok = "self.pending.add(self)" in unparse(fu) and not any(
        isinstance(x, ast.Attribute) and x.attr == "curr" and isinstance(x.ctx, ast.Store) for x in ast.walk(fu))
    ctx.check(ok, R, "_PySignalState.update", "queues into next and marks pending", "update() must only change `next` and mark "
              "the slot pending", f"{PYSIM}:{fu.lineno}")


def _loop_paths(model, loop):
    """path summaries of a scheduler loop body with PySimEngine helper methods expanded"""
    from ..engine import refsem
    inline = refsem.inline_table(model, PYSIM, "PySimEngine")
    return run_paths(list(loop.body), inline=inline, depth=3)


def _runs(p, var):
    """index of the effect `var.run()` on a path, or None"""
    for i, e in enumerate(p.effects):
        if isinstance(e, ast.Call) and unparse(e.func) == f"{var}.run":
            return i
    return None


def _run_once_ok(paths, var):
    """every path that calls var.run() took the `var.runnable` test positively and cleared the flag before the call"""
    n = 0
    for p in paths:
        i = _runs(p, var)
        if i is None:
            continue
        n += 1
        cleared = any(isinstance(e, ast.Assign) and unparse(e.targets[0]) == f"{var}.runnable" and
                      isinstance(e.value, ast.Constant) and e.value.value is False for e in p.effects[:i])
        guarded = any((unparse(t) == f"{var}.runnable" and pol) or (unparse(t) == f"not {var}.runnable" and not pol)
                      for t, pol in p.conds)
        if not (cleared and guarded):
            return False, n
    return n > 0, n


ASYNC = "amaranth/sim/_async.py"
TRIGGER_REFS = [
    # (function, reference, what it establishes, consequence of a deviation)
    (f"{PYSIM}::_PyTriggerState.add_changed_waker.waker", """
if self._broken:
    return False
self.activate()
return not self._oneshot
""", "a change activates the trigger; one-shot waits are dropped after firing, broken ones at once",
     "the waker of a changed() trigger must activate the trigger on every change and stay registered exactly for multi-shot waits"),
    (f"{PYSIM}::_PyTriggerState.add_edge_waker.waker", """
if self._broken:
    return False
curr_bit = (curr >> trigger.bit) & 1
next_bit = (next >> trigger.bit) & 1
if curr_bit == next_bit or next_bit != trigger.polarity:
    return True
self._triggers_hit.add(trigger)
self.activate()
return not self._oneshot
""", "fires only when the watched bit changes to the trigger's polarity; otherwise keeps waiting",
     "an edge trigger must fire exactly when bit `trigger.bit` of the signal changes and its new value equals the polarity; "
     "it must stay registered while waiting and record itself in _triggers_hit when it fires"),
    (f"{PYSIM}::_PyTriggerState.add_delay_waker.waker", """
if self._broken:
    return
self._triggers_hit.add(trigger)
self.activate()
""", "an elapsed delay is recorded as hit and activates the trigger", "a delay waker must record the trigger as hit and activate it"),
    (f"{PYSIM}::_PyTriggerState.add_delay_waker", """
def waker():
    pass
self._engine.state.set_delay_waker(trigger.interval.femtoseconds, waker)
self._delay_wakers[waker] = trigger.interval.femtoseconds
""", "the delay is armed with the trigger's own interval and remembered for re-arming",
     "a delay trigger must be armed with trigger.interval.femtoseconds and remembered with the same interval"),
    (f"{PYSIM}::_PyTriggerState.activate", """
if self._combination._process.waits_on is self:
    self._active.add(self)
else:
    self._broken = True
""", "activation while the process is not waiting on this trigger marks it broken (missed event)",
     "a trigger firing while its process is not waiting on it must be marked broken, not queued"),
    (f"{PYSIM}::_PyTriggerState.compute_result", """
result = []
for trigger in self._combination._triggers:
    if isinstance(trigger, (SampleTrigger, ChangedTrigger)):
        value = self._engine.get_value(trigger.value)
        if isinstance(trigger.shape, ShapeCastable):
            result.append(trigger.shape.from_bits(value))
        else:
            result.append(value)
    elif isinstance(trigger, (EdgeTrigger, DelayTrigger)):
        result.append(trigger in self._triggers_hit)
    else:
        assert False
self._result = tuple(result)
""", "one result per trigger in declaration order: sampled value (through the shape) or whether the edge/delay fired",
     "the awaited result must list, in the order of the combination, the current value of sampled/changed expressions and "
     "whether each edge/delay trigger was hit"),
    (f"{PYSIM}::_PyTriggerState.run", """
self.compute_result()
self._combination._process.runnable = True
self._combination._process.waits_on = None
self._triggers_hit.clear()
for waker, interval_fs in self._delay_wakers.items():
    self._engine.state.set_delay_waker(interval_fs, waker)
""", "values are sampled before the process is made runnable; hits cleared; delays re-armed",
     "running a trigger must sample the result first, then wake the process and clear the hit set (a stale hit is reported on "
     "the next wait otherwise) and re-arm its delays"),
    (f"{PYSIM}::_PyTriggerState.__await__", """
self._result = None
if self._broken:
    raise BrokenTrigger
yield self
if self._broken:
    raise BrokenTrigger
return self._result
""", "a broken trigger raises before and after the wait; otherwise the sampled result is returned",
     "awaiting must raise BrokenTrigger for a missed event and return the result sampled by run()"),
    (f"{PYSIM}::_PyTriggerState.__init__", """
self._engine = engine
self._combination = combination
self._active = pending
self._oneshot = oneshot
self._result = None
self._broken = False
self._triggers_hit = set()
self._delay_wakers = dict()
for trigger in combination._triggers:
    if isinstance(trigger, SampleTrigger):
        pass
    elif isinstance(trigger, ChangedTrigger):
        self.add_changed_waker(trigger)
    elif isinstance(trigger, EdgeTrigger):
        self.add_edge_waker(trigger)
    elif isinstance(trigger, DelayTrigger):
        self.add_delay_waker(trigger)
    else:
        assert False
""", "every trigger kind registers its own kind of waker; samples register none",
     "each trigger of a combination must register the waker of its kind (a sample causes no wake-up)"),
    (f"{PYSIM}::_PyEngineState.commit", """
converged = True
for state in self.pending:
    if changed is not None:
        if isinstance(state, _PyMemoryState):
            for addr in state.write_queue:
                changed.add(_PyMemoryChange(state, addr))
        elif isinstance(state, _PySignalState):
            changed.add(state)
        else:
            assert False
    if state.commit():
        converged = False
self.pending.clear()
return converged
""", "every pending slot is committed; not converged iff some commit changed a value; pending cleared",
     "the engine commit must commit every pending signal/memory, report convergence only when none changed, and clear the pending set"),
    (f"{PYSIM}::_PyEngineState.get_signal", """
try:
    return self.signals[signal]
except KeyError:
    index = len(self.slots)
    self.slots.append(_PySignalState(signal, self.pending))
    self.signals[signal] = index
    return index
""", "a signal gets the index of the slot appended for it", "a new signal's slot index must be the position of the slot appended for it"),
    (f"{PYSIM}::_PyEngineState.get_memory", """
try:
    return self.memories[memory]
except KeyError:
    index = len(self.slots)
    self.slots.append(_PyMemoryState(memory, self.pending))
    self.memories[memory] = index
    return index
""", "a memory gets the index of the slot appended for it", "a new memory's slot index must be the position of the slot appended for it"),
    (f"{ASYNC}::AsyncProcess.reset", """
self.runnable = True
self.critical = not self.background
self.waits_on = None
self.coroutine = self.constructor(self.context)
self.first_await = True
""", "a reset process is runnable, re-created, critical unless background", "resetting must re-create the coroutine and make it runnable"),
    (f"{ASYNC}::TickTrigger._collect_trigger", """
clk_polarity = (1 if self._domain.clk_edge == "pos" else 0)
if self._domain.async_reset and self._domain.rst is not None:
    return (TriggerCombination(self._engine, self._process)
        .edge(self._domain.clk, clk_polarity)
        .edge(self._domain.rst, 1)
        .sample(self._domain.rst)
        .sample(*self._sampled))
else:
    return (TriggerCombination(self._engine, self._process)
        .edge(self._domain.clk, clk_polarity)
        .sample(Const(0))
        .sample(Const(0) if self._domain.rst is None else self._domain.rst)
        .sample(*self._sampled))
""", "active clock edge (by clk_edge), rising asynchronous reset, reset level and the user's samples, in that order",
     "a tick must wait for the domain's active clock edge (and the rising edge of an asynchronous reset), and sample the reset "
     "and the user's expressions in the positions __await__ unpacks"),
    (f"{ASYNC}::TickTrigger.__await__", """
trigger = self._engine.add_trigger_combination(self._collect_trigger(), oneshot=True)
clk_edge, rst_edge, rst_sample, *values = yield from trigger.__await__()
return (clk_edge, bool(rst_edge or rst_sample), *values)
""", "one-shot wait returning (clk_edge, rst_active, *samples)", "a one-shot tick wait must return the clock hit, whether reset is active, and the samples"),
    (f"{ASYNC}::TickTrigger.repeat", """
count = operator.index(count)
if count <= 0:
    raise ValueError()
tick = self.__aiter__()
for _ in range(count):
    clk, rst, *values = await tick.__anext__()
    if rst:
        raise DomainReset
    assert clk
return tuple(values)
""", "waits exactly `count` ticks, raising DomainReset on reset, returns the last samples",
     "repeat(n) must await exactly n ticks of a multi-shot iterator and raise DomainReset when the domain is reset"),
    (f"{ASYNC}::EdgeTrigger.__init__", """
cast_signal = Value.cast(signal)
if isinstance(cast_signal, Signal) and len(cast_signal) == 1:
    self.signal, self.bit = cast_signal, 0
elif (isinstance(cast_signal, Slice) and len(cast_signal) == 1 and isinstance(cast_signal.value, Signal)):
    self.signal, self.bit = cast_signal.value, cast_signal.start
else:
    raise TypeError()
if polarity not in (0, 1):
    raise ValueError()
self.polarity = polarity
""", "a one-bit signal watches bit 0, a one-bit slice of a signal watches bit `start` of that signal",
     "an edge trigger on s[k] must watch bit k of s; on a one-bit signal bit 0"),
]


def r08h(model, ctx):
    """the trigger machinery through which every testbench and process observes the design (pysim._PyTriggerState, the
    engine's commit and slot allocation, TickTrigger, EdgeTrigger, AsyncProcess.reset): each function is compared with its
    reference semantics by path summary (rules/reflib.py)"""
    from .reflib import ref_rule, run_ref_file, trigger_api
    for ref, text, fact, why in TRIGGER_REFS:
        # documented identity: chained .sample() calls equal one call with the combined arguments
        ref_rule(model, ctx, "R-08h", ref, text, fact, why, rewrite=trigger_api)
    run_ref_file(model, ctx, "R-08h", "c08_sim")


def r08i(model, ctx):
    """wakers are registered once, when the design is compiled (add_signal_waker / add_memory_waker); a state object's
    reset() — run by Simulator.reset() — must keep them: the list is created in __init__ and never replaced or emptied
    afterwards, for signals and memories alike"""
    R = "R-08i"
    n = 0
    for c in model.classes(PYSIM):
        ms = model.class_methods(c)
        if "add_waker" not in ms or "reset" not in ms:
            continue
        attrs = {unparse(x.func.value) for x in ast.walk(ms["add_waker"]) if isinstance(x, ast.Call) and
                 isinstance(x.func, ast.Attribute) and x.func.attr in ("append", "add") and unparse(x.func.value).startswith("self.")}
        need(attrs, f"{c.name}.add_waker: the waker collection was not found")
        for attr in sorted(attrs):
            n += 1
            init = ms.get("__init__")
            made = init is not None and any(isinstance(s_, ast.Assign) and unparse(s_.targets[0]) == attr for s_ in ast.walk(init))
            lost = []
            for name, fn in ms.items():
                if name == "__init__":
                    continue
                for x in ast.walk(fn):
                    if isinstance(x, ast.Assign) and any(unparse(t) == attr for t in x.targets):
                        lost.append(f"{name}: {unparse(x)}")
                    if isinstance(x, ast.Call) and isinstance(x.func, ast.Attribute) and x.func.attr == "clear" and \
                            unparse(x.func.value) == attr:
                        lost.append(f"{name}: {unparse(x)}")
            ctx.check(made and not lost, R, f"{c.name}:{attr}:persistent", "created in __init__, never replaced or cleared",
                      f"{c.name}.{attr[5:]} holds the wakers registered at compile time; it must be created in __init__ and survive "
                      f"reset() (found {lost or 'no creation in __init__'}): after Simulator.reset() processes that follow this "
                      f"object (asynchronous read ports, comb logic) are never woken again", f"{PYSIM}:{ms['reset'].lineno}")
    need(n >= 2, f"only {n} waker collections found in pysim.py")


def r08g(model, ctx):
    """the wakers that compiled processes register on signals and memories are persistent: the waker list keeps exactly the
    wakers that return True, so every path of these closures must return True (a waker that falls off the end is dropped
    after its first firing and the process never runs again: a comb read port stops following the memory)"""
    R = "R-08g"
    n = 0
    for name in ("comb_waker", "edge_waker", "memory_waker"):
        f = model.func(f"{PYRTL}::{name}")
        inner = [x for x in f.body if isinstance(x, ast.FunctionDef)]
        need(len(inner) == 1, f"{name}: inner waker closure not found")
        ps = [p for p in run_paths(inner[0].body) if p.how != "raise"]
        ok = bool(ps) and all(p.how == "return" and isinstance(p.ret, ast.Constant) and p.ret.value is True for p in ps)
        n += 1
        ctx.check(ok, R, f"{name}:persistent", "every path of the waker returns True",
                  f"{name}: the registered waker must return True on every path (wakers that do not are removed after firing once)",
                  f"{PYRTL}:{inner[0].lineno}")
    # the protocol they rely on
    fr = model.func(f"{PYSIM}::_run_wakers")
    t = unparse(fr)
    ok = "wakers[:] = [waker for waker in wakers if waker(*args)]" in t or "if waker(*args)" in t
    ctx.check(ok, R, "_run_wakers", "keeps the wakers that return a true value", "_run_wakers must keep exactly the wakers that return true",
              f"{PYSIM}:{fr.lineno}")


def r08b(model, ctx):
    R = "R-08b"
    f = model.func(f"{PYSIM}::PySimEngine.step_design")
    g = CFG(f, inline_closures=False)
    loops = [nid for nid in g.nodes() if isinstance(g.stmt[nid], ast.While)]
    need(len(loops) == 1, "step_design: delta-cycle loop not found")
    w = loops[0]
    trig = [nid for nid in g.nodes() if isinstance(g.stmt[nid], ast.For) and unparse(g.stmt[nid].iter) == "self._active_triggers"]
    proc = [nid for nid in g.nodes() if isinstance(g.stmt[nid], ast.For) and unparse(g.stmt[nid].iter) == "self._processes"]
    com = g.nodes_with(lambda n: isinstance(n, ast.Call) and unparse(n.func) == "self._state.commit")
    need(len(trig) == 1 and len(proc) == 1 and len(com) >= 1, "step_design: trigger loop / process loop / commit not found")
    ok = proc[0] in g.after(trig[0], blocked={w}) and trig[0] not in g.after(proc[0], blocked={w}) and \
        all(c_ in g.after(proc[0], blocked={w}) and proc[0] not in g.after(c_, blocked={w}) for c_ in com)
    ctx.check(ok, R, "step_design:phase-order", "triggers -> processes -> commit within one delta cycle",
              "within one iteration of the delta-cycle loop the active triggers must run first, then every runnable "
              "process, and commit() last (processes must not observe same-delta writes)", f"{PYSIM}:{f.lineno}")
    ok = unparse(g.stmt[com[0]]) == "converged = self._state.commit(changed)" and unparse(g.stmt[w].test) == "not converged"
    ctx.check(ok, R, "step_design:until-converged", "loops until commit() reports convergence",
              "step_design must iterate until commit() reports that nothing changed", f"{PYSIM}:{f.lineno}")
    # process loop: runnable flag cleared before run
    pl = g.stmt[proc[0]]
    var = unparse(pl.target)
    ok, _n = _run_once_ok(_loop_paths(model, pl), var)
    ctx.check(ok, R, "step_design:run-once", "each runnable process runs once, flag cleared before run()",
              "a runnable process must have its flag cleared before run() so that a wake-up during run() is not lost",
              f"{PYSIM}:{pl.lineno}")
    # trigger: sample before marking runnable
    fr = model.func(f"{PYSIM}::_PyTriggerState.run")
    g2 = CFG(fr, inline_closures=False)
    cr = g2.nodes_with(lambda n: isinstance(n, ast.Call) and unparse(n.func) == "self.compute_result")
    rn = g2.nodes(lambda s: isinstance(s, ast.Assign) and unparse(s.targets[0]) == "self._combination._process.runnable")
    ok = len(cr) == 1 and len(rn) == 1 and g2.dominates({cr[0]}, rn[0])
    ctx.check(ok, R, "_PyTriggerState.run", "compute_result() before the process is marked runnable",
              "a trigger must sample its values (compute_result) before waking its process: values sampled by a tick are "
              "those from just before the edge", f"{PYSIM}:{fr.lineno}")
    # commit(): wakers run before curr is overwritten (they see old and new)
    fc = model.func(f"{PYSIM}::_PySignalState.commit")
    g3 = CFG(fc, inline_closures=False)
    wk = g3.nodes_with(lambda n: isinstance(n, ast.Call) and unparse(n.func) == "_run_wakers")
    cu = g3.nodes(lambda s: isinstance(s, ast.Assign) and unparse(s.targets[0]) == "self.curr")
    ok = len(wk) == 1 and len(cu) == 1 and g3.dominates({wk[0]}, cu[0]) and \
        unparse(g3.stmt[wk[0]].value) == "_run_wakers(self.wakers, self.curr, self.next)"
    ctx.check(ok, R, "_PySignalState.commit", "wakers see (curr, next) before curr is replaced",
              "commit() must run the wakers with (curr, next) before assigning curr = next", f"{PYSIM}:{fc.lineno}")


# set-typed collections iterated in the engine, with the reason the body commutes
UNORDERED_SITES = {
    ("PySimEngine.step_design", "self._active_triggers"): "each trigger samples committed values and marks only its own process runnable",
    ("PySimEngine.step_design", "self._processes"): "processes read committed state and queue writes (R-08a); flags are per process",
    ("PySimEngine.step_design", "changed"): "VCD bookkeeping only: updates keyed by signal/memory at one timestamp",
    ("PySimEngine.reset", "self._processes"): "per-process reset",
    ("PySimEngine.advance", "runnables"): "reads the critical flag only (any-of)",
    ("_PyEngineState.commit", "self.pending"): "each state commits itself; wakers only set runnable flags / activate triggers",
    ("_PyTimeline.advance", "nearest_wakers"): "delay wakers only set flags / activate triggers; all share one deadline",
    ("_FragmentCompiler.__call__", "domains"): "one independent process per domain; slot indices are not observable",
    ("_FragmentCompiler.__call__", "inputs"): "SignalSet (ordered by signal identity); registers the same waker per input",
}
SET_ATTRS = {"self._processes", "self._active_triggers", "self.pending", "nearest_wakers", "domains", "changed", "runnables"}


def r08c(model, ctx):
    R = "R-08c"
    seen = set()
    for rel in (PYSIM, PYRTL):
        m = model.mod(rel)
        for n in ast.walk(m.tree):
            if isinstance(n, ast.For) and unparse(n.iter) in SET_ATTRS | {"inputs"}:
                q = m.qualname_of(n)
                key = (q, unparse(n.iter))
                if unparse(n.iter) == "runnables":
                    pass
                if key in UNORDERED_SITES:
                    seen.add(key)
                    ctx.ok(R, f"{q}:for-in:{unparse(n.iter)}", UNORDERED_SITES[key], f"{rel}:{n.lineno}")
                else:
                    ctx.viol(R, f"{q}:for-in:{unparse(n.iter)}",
                             f"iteration over the unordered collection {unparse(n.iter)} in {q} is not in the table of "
                             f"sites whose bodies were shown to commute: its effects may depend on the hash/insertion "
                             f"order of the set", f"{rel}:{n.lineno}")
    missing = set(UNORDERED_SITES) - seen
    need(len(seen) >= 6, f"only {len(seen)} unordered-iteration sites recognised")
    # the process-loop body contains only per-process effects
    f = model.func(f"{PYSIM}::PySimEngine.step_design")
    pl = [s for s in ast.walk(f) if isinstance(s, ast.For) and unparse(s.iter) == "self._processes"][0]
    eff = set()
    var = unparse(pl.target)
    for p in _loop_paths(model, pl):
        for e in p.effects:
            if isinstance(e, ast.Assign):
                eff |= {unparse(t) for t in e.targets}
            elif isinstance(e, ast.AugAssign):
                eff.add(unparse(e.target))
            elif isinstance(e, ast.Call):
                eff.add(unparse(e.func) + "()")
            else:
                eff.add(type(e).__name__ + ":" + unparse(e)[:40])
        for k, v in p.env.items():
            if not k.startswith("__inl") and k != var:
                eff.add(k)
    eff = {x.replace(var + ".", "process.") for x in eff}
    ok = eff <= {"process.runnable", "process.run()"}
    ctx.check(ok, R, "step_design:process-loop-effects", f"effects: {sorted(eff)}",
              f"the body of the unordered process loop may only clear the process's flag and run it; found {sorted(eff)}",
              f"{PYSIM}:{pl.lineno}")
    # _processes is a set and only add()ed; _active_triggers likewise
    fi = model.func(f"{PYSIM}::PySimEngine.__init__")
    ok = "self._active_triggers = set()" in unparse(fi)
    ctx.check(ok, R, "PySimEngine.__init__:sets", "_active_triggers is a set", "engine collections changed kind", f"{PYSIM}:{fi.lineno}")


def r08d(model, ctx):
    R = "R-08d"
    fi = model.func(f"{PYSIM}::PySimEngine.__init__")
    ok = any(unparse(s) == "self._testbenches = []" for s in fi.body)
    ctx.check(ok, R, "PySimEngine.__init__:_testbenches", "a list", "_testbenches must be a list (ordered)", f"{PYSIM}:{fi.lineno}")
    m = model.mod(PYSIM)
    muts = []
    for n in ast.walk(m.tree):
        if isinstance(n, ast.Call) and isinstance(n.func, ast.Attribute) and unparse(n.func.value) == "self._testbenches":
            muts.append((n.func.attr, m.qualname_of(n), n.lineno))
    ok = bool(muts) and all(a == "append" for a, _, _ in muts)
    ctx.check(ok, R, "_testbenches:mutations", f"only append: {[(a, q) for a, q, _ in muts]}",
              f"_testbenches may only be appended to (order of addition is the run order); found {muts}", f"{PYSIM}:{muts[0][2] if muts else 0}")
    fa = model.func(f"{PYSIM}::PySimEngine.advance")
    loops = [s for s in ast.walk(fa) if isinstance(s, ast.For) and "testbench" == unparse(s.target)]
    ok = len(loops) == 1 and unparse(loops[0].iter) == "self._testbenches"
    ctx.check(ok, R, "advance:testbench-order", "iterates self._testbenches directly",
              f"testbenches must be run by iterating self._testbenches itself (not sorted/reversed/set); found "
              f"{[unparse(l.iter) for l in loops]}", f"{PYSIM}:{fa.lineno}")
    # R-08f part: rescan whenever a testbench ran
    if loops:
        from ..engine.symx import subst, fold_const
        from ..engine.astutil import parent_map
        paths = _loop_paths(model, loops[0])
        ok, n_run = _run_once_ok(paths, "testbench")
        # a flag that every running path sets to one constant ...
        flags = None
        for p in paths:
            if _runs(p, "testbench") is not None:
                consts = {k: v.value for k, v in p.env.items() if isinstance(v, ast.Constant) and isinstance(v.value, bool)
                          and not k.startswith("__inl")}
                flags = consts if flags is None else {k: v for k, v in flags.items() if consts.get(k) == v}
        need(flags is not None, "advance: no path of the testbench loop runs a testbench")
        # ... and with that value the enclosing `while` goes round again: its test is true and no `break` after the scan
        pm_ = parent_map(fa)
        w = pm_.get(loops[0])
        while w is not None and not isinstance(w, ast.While):
            w = pm_.get(w)
        need(w is not None, "advance: the testbench scan is not inside a while loop")
        rescan = False
        for name, val in flags.items():
            env1 = {name: ast.Constant(value=val)}
            t = fold_const(subst(w.test, env1))
            again = isinstance(t, ast.Constant) and bool(t.value)
            idx = [i for i, x in enumerate(w.body) if x is loops[0]]
            if not idx:
                continue
            for st in w.body[idx[0] + 1:]:
                if isinstance(st, ast.If) and any(isinstance(x, ast.Break) for x in ast.walk(st)):
                    tt = fold_const(subst(st.test, env1))
                    taken = not (isinstance(tt, ast.Constant) and not tt.value)
                    if taken and any(isinstance(x, ast.Break) for b_ in st.body for x in ast.walk(b_)):
                        again = False
                    if isinstance(tt, ast.Constant) and not tt.value and any(isinstance(x, ast.Break) for b_ in st.orelse for x in ast.walk(b_)):
                        again = False
            # the flag must matter: with the opposite value the loop would stop
            env0 = {name: ast.Constant(value=not val)}
            t0 = fold_const(subst(w.test, env0))
            stops = isinstance(t0, ast.Constant) and not t0.value
            for st in w.body[idx[0] + 1:]:
                if isinstance(st, ast.If) and any(isinstance(x, ast.Break) for b_ in st.body for x in ast.walk(b_)):
                    tt = fold_const(subst(st.test, env0))
                    if isinstance(tt, ast.Constant) and tt.value:
                        stops = True
            if again and stops:
                rescan = True
        ok = ok and rescan
        ctx.check(ok, "R-08f", "advance:rescan-after-any-run", "converged = False whenever a testbench ran",
                  "whenever a testbench ran (whether or not it is still waiting afterwards) the list must be scanned "
                  "again before time advances: its last write may have woken an earlier testbench", f"{PYSIM}:{loops[0].lineno}")
    g = CFG(fa, inline_closures=False)
    sd = g.nodes_with(lambda n: isinstance(n, ast.Call) and unparse(n.func) == "self.step_design")
    tl = g.nodes_with(lambda n: isinstance(n, ast.Call) and unparse(n.func) == "self._state.timeline.advance")
    tb = [nid for nid in g.nodes() if isinstance(g.stmt[nid], ast.For) and unparse(g.stmt[nid].iter) == "self._testbenches"
          and unparse(g.stmt[nid].target) == "testbench"]
    ok = len(sd) == 1 and len(tl) == 1 and len(tb) == 1 and g.dominates({sd[0]}, tb[0]) and tl[0] in g.after(tb[0]) \
        and tb[0] not in g.after(tl[0]) and sd[0] not in g.after(tb[0])
    ctx.check(ok, "R-08f", "advance:order", "settle design, run testbenches to convergence, then advance time",
              "advance() must settle the design, then run woken testbenches until none is runnable, and only then advance "
              "the timeline", f"{PYSIM}:{fa.lineno}")
    fb = model.func(f"{PYSIM}::PySimEngine.add_async_testbench")
    ok = "self._testbenches.append(" in unparse(fb) and "testbench=True" in unparse(fb)
    ctx.check(ok, R, "add_async_testbench", "appends a testbench-context process", "testbenches must be appended in order "
              "of addition", f"{PYSIM}:{fb.lineno}")


REF_CLOCK_RUN = """
self.runnable = False
if self.initial:
    self.initial = False
    self.state.set_delay_waker(self.phase, waker)
else:
    clk_state = self.state.slots[self.slot]
    clk_state.update(not clk_state.curr)
    self.state.set_delay_waker(self.period // 2, waker)
"""


def r08e(model, ctx):
    R = "R-08e"
    c = model.cls(f"{TIME}::Period")
    n_assign = 0
    for n in ast.walk(c):
        if isinstance(n, ast.Assign) and unparse(n.targets[0]) == "self._femtoseconds":
            n_assign += 1
            v = n.value
            ok = const_int(v) == 0 or (isinstance(v, ast.Call) and dotted(v.func) == "round")
            ctx.check(ok, R, f"Period._femtoseconds={unparse(v)[:40]}", "integer (0 or round(...))",
                      f"Period must store an integer number of femtoseconds: `{unparse(v)}` is neither 0 nor round(...)",
                      f"{TIME}:{n.lineno}")
    need(n_assign >= 3, "Period._femtoseconds assignments not found")
    f = model.func(f"{TIME}::Period.femtoseconds")
    ok = any(isinstance(s, ast.Return) and unparse(s.value) == "self._femtoseconds" for s in f.body)
    ctx.check(ok, R, "Period.femtoseconds", "returns the stored integer", "femtoseconds must return the stored integer",
              f"{TIME}:{f.lineno}")
    fa = model.func(f"{CORE}::Simulator.add_clock")
    ok = any(pmatch("self._engine.add_clock_process(domain.clk, phase=phase.femtoseconds, period=period.femtoseconds)", n) is not None
             for n in ast.walk(fa))
    ctx.check(ok, R, "Simulator.add_clock", "phase/period passed as integer femtoseconds",
              "add_clock must pass phase.femtoseconds and period.femtoseconds to the engine", f"{CORE}:{fa.lineno}")
    ok = any(isinstance(s, ast.If) and unparse(s.test) == "phase is None" and unparse(s.body[0]) == "phase = period / 2" for s in ast.walk(fa))
    ctx.check(ok, R, "Simulator.add_clock:default-phase", "phase defaults to period / 2 (a Period, rounded)",
              "the default phase must be half a period", f"{CORE}:{fa.lineno}")
    from ..engine import refsem
    fr, paths = refsem.method_paths(model, f"{CLOCK}::PyClockProcess.run")
    refsem.compare(ctx, R, "PyClockProcess.run", f"{CLOCK}:{fr.lineno}", "PyClockProcess.run", paths, [REF_CLOCK_RUN],
                   fact="first wake-up after `phase` (no toggle), then toggle every period // 2",
                   why="The clock process must first wait `phase` without toggling and then toggle and re-arm with the integer "
                       "half period `period // 2`.")
    # the clock's phase and period are stored as given (a phase of a whole period or more delays the first toggle)
    from .c17 import _stored
    fci, stored = _stored(model, f"{CLOCK}::PyClockProcess.__init__")
    need(stored, "PyClockProcess.__init__: no completing path")
    ok = all(st.get("phase") == "phase" and st.get("period") == "period" for _p, st, _c in stored)
    ctx.check(ok, R, "PyClockProcess.__init__", "phase and period stored unchanged",
              "PyClockProcess must store phase and period exactly as given: the clock first toggles at `phase`, then every half period "
              "(reducing the phase modulo the period starts the clock early)", f"{CLOCK}:{fci.lineno}")
    # a process looping over changed() is woken once at time 0 if ANY of its triggers is a ChangedTrigger
    fie = model.func(f"{PYSIM}::_PyTriggerState.initial_eligible")
    rets = [x for x in fie.body if isinstance(x, ast.Return)]
    ok = False
    if len(rets) == 1 and isinstance(rets[0].value, ast.BoolOp) and isinstance(rets[0].value.op, ast.And) and len(rets[0].value.values) == 2:
        parts = {unparse(v) for v in rets[0].value.values}
        gens = [v for v in rets[0].value.values if isinstance(v, ast.Call) and dotted(v.func) == "any" and len(v.args) == 1 and
                isinstance(v.args[0], (ast.GeneratorExp, ast.ListComp))]
        if "not self._oneshot" in parts and len(gens) == 1:
            g = gens[0].args[0]
            tv = unparse(g.generators[0].target)
            ok = unparse(g.generators[0].iter) == "self._combination._triggers" and not g.generators[0].ifs and \
                unparse(g.elt) == f"isinstance({tv}, ChangedTrigger)"
    ctx.check(ok, R, "_PyTriggerState.initial_eligible", "not one-shot and any trigger is a ChangedTrigger",
              "a (non one-shot) combination that contains a changed() trigger must be eligible for the time-0 wake-up whatever other "
              "triggers it also contains (any, not all): a process replacing a circuit must see the initial values", f"{PYSIM}:{fie.lineno}")
    frs = model.func(f"{CLOCK}::PyClockProcess.reset")
    ok = "self.initial = True" in unparse(frs) and "self.runnable = True" in unparse(frs)
    ctx.check(ok, R, "PyClockProcess.reset", "re-arms the initial phase", "reset() must re-arm the initial phase wait",
              f"{CLOCK}:{frs.lineno}")
    ft = model.func(f"{PYSIM}::_PyTimeline.set_waker")
    ok = any(unparse(s) == "self.wakers[waker] = self.now + interval" for s in ft.body)
    ctx.check(ok, R, "_PyTimeline.set_waker", "deadline = now + interval (integer addition)",
              "a delay must expire exactly `interval` after now (integer addition)", f"{PYSIM}:{ft.lineno}")
    fad = model.func(f"{PYSIM}::_PyTimeline.advance")
    divs = [n for n in ast.walk(fad) if isinstance(n, ast.BinOp) and isinstance(n.op, ast.Div)]
    ok = not divs and any(unparse(s) == "self.now = nearest_deadline" for s in ast.walk(fad) if isinstance(s, ast.Assign))
    ctx.check(ok, R, "_PyTimeline.advance", "time jumps to the nearest deadline; no true division",
              "the timeline must move to exactly the nearest deadline and use integer arithmetic only", f"{PYSIM}:{fad.lineno}")
    # nearest-deadline selection: exactly the wakers whose deadline equals the minimum fire together. Two idioms are
    # understood: the running-minimum loop (strictly smaller clears the set, equal joins it) and min() + a selection by
    # equality; anything else is reported as not understood (exit 2), never as a violation.
    t = unparse(fad)
    loop_idiom = [n for n in ast.walk(fad) if isinstance(n, ast.For) and "self.wakers.items()" in unparse(n.iter) and
                  any(isinstance(x, ast.Call) and unparse(x.func).endswith(".clear") for x in ast.walk(n))]
    mins = [n for n in ast.walk(fad) if isinstance(n, ast.Call) and dotted(n.func) == "min"]
    if loop_idiom:
        ok = "if nearest_deadline is None or deadline <= nearest_deadline:" in t and \
            "if nearest_deadline is not None and deadline < nearest_deadline:\n                nearest_wakers.clear()" in t
        how = "running minimum: a strictly smaller deadline clears the set, an equal one joins it"
    elif mins:
        sel = [n for n in ast.walk(fad) if isinstance(n, (ast.SetComp, ast.ListComp, ast.GeneratorExp)) and
               "self.wakers.items()" in unparse(n.generators[0].iter)]
        need(len(sel) == 1 and len(mins) == 1, "_PyTimeline.advance: min()-based selection not understood")
        tgt = sel[0].generators[0].target
        need(isinstance(tgt, ast.Tuple) and len(tgt.elts) == 2, "_PyTimeline.advance: selection target")
        wk, dl = unparse(tgt.elts[0]), unparse(tgt.elts[1])
        minname = [unparse(s_.targets[0]) for s_ in ast.walk(fad) if isinstance(s_, ast.Assign) and s_.value is mins[0]]
        ok = unparse(mins[0]) == "min(self.wakers.values())" and len(minname) == 1 and unparse(sel[0].elt) == wk and \
            len(sel[0].generators[0].ifs) == 1 and \
            unparse(sel[0].generators[0].ifs[0]) in (f"{dl} == {minname[0]}", f"{minname[0]} == {dl}")
        how = "min(self.wakers.values()) and the wakers whose deadline equals it"
    else:
        raise AnalysisError("_PyTimeline.advance: nearest-deadline selection idiom not recognised")
    ctx.check(ok, R, "_PyTimeline.advance:selection", how,
              "advance() must fire exactly the wakers whose deadline equals the minimum", f"{PYSIM}:{fad.lineno}")
    fd = model.func(f"{PYSIM}::_PyTriggerState.add_delay_waker")
    from ..engine.inline import propagate_locals as _pl
    ok = "self._engine.state.set_delay_waker(trigger.interval.femtoseconds, waker)" in unparse(_pl(fd))
    ctx.check(ok, R, "_PyTriggerState.add_delay_waker", "delay in integer femtoseconds",
              "delay triggers must arm the timeline with interval.femtoseconds", f"{PYSIM}:{fd.lineno}")


def _only(rule_fn, keep):
    def wrapped(model, ctx):
        n0, v0 = len(ctx.obligations), len(ctx.violations)
        rule_fn(model, ctx)
        ctx.obligations[n0:] = [o for o in ctx.obligations[n0:] if keep(o["construct"])]
        ctx.violations[v0:] = [v for v in ctx.violations[v0:] if keep(v["construct"])]
    return wrapped


_merge = lambda c: c.startswith("_PySignalState") or c.startswith("_PyMemoryState") or c.startswith("_eval_assign_inner:Signal")

RULES = [("R-08i", r08i), ("R-08h", r08h), ("R-08g", r08g), ("R-08a", r08a), ("R-08b", r08b), ("R-08c", r08c), ("R-08d", r08d), ("R-08e", r08e),
         ("R-02g", _only(c02.r02g, _merge)), ("R-02f", _only(c02.r02f, lambda c: c.startswith("_FragmentCompiler"))),
         ("R-05a", c05.r05a),
         # two processes of one domain (clocked, asynchronous reset) may run in the same delta cycle: they must write the
         # same masked bits, or the result depends on which runs last
         ("R-03a", _only(c03.r03a, lambda c: "async-reset-process" in c))]
