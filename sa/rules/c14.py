"""C14 — signatures, flipping and connect() (structural necessary conditions)."""
import ast
from ..engine.core import AnalysisError, need
from ..engine.astutil import unparse, dotted, pmatch, const_int, dump, walk_no_nested
from ..engine.cfg import CFG, EXIT
from ..engine.symx import run_paths

W = "amaranth/lib/wiring.py"

EXPLANATION = (
    "Static (ast-only) decision of structural necessary conditions of C14 on lib/wiring.py: (a) flip discipline — "
    "Flow.flip maps In<->Out, Member.flip passes every constructor field except the flow unchanged, Member.signature "
    "flips exactly for In, the flipped member/ signature proxies flip on access (get and set), forward everything "
    "else, and flip() returns the stored original; FlippedSignature.create returns flipped(unflipped.create(...)); "
    "(b) connect direction (def-use) — in connect_value the receiver of .eq derives from the *input* path and its "
    "argument from the *output* path, a constant input (after Const.cast) returns before anything is appended, "
    "in_kind/out_kind are filled under flow == In / flow == Out, connections are added to m.d.comb only; (c) error "
    "discipline — every raise in connect() raises ConnectionError (after the argument checks, which raise "
    "TypeError), width and initial-value mismatches are compared on every pair unconditionally (evaluated init "
    "constants), exactly one output is enforced; (d) metadata — dir from member.flow, width/signed from "
    "Shape.cast(member.shape), init from the evaluated init constant (unmasked), recursion over the effective "
    "(flipped for In) sub-signature members, validated before returning. NOT decided: compliance/flatten over "
    "arbitrary signature trees."
)
ASSUMPTIONS = ["CPython ast parses /repo's source as the interpreter would",
               "getattr/__getattr__ forwarding in FlippedSignature/FlippedInterface is opaque; only explicit methods are checked"]
MIN_INSTANCES = {"R-14i": 2, "R-14h": 14, "R-14f": 3, "R-14g": 1, "R-14e": 2, "R-14a": 10, "R-14b": 6, "R-14c": 6, "R-14d": 5}


def r14a(model, ctx):
    R = "R-14a"
    f = model.func(f"{W}::Flow.flip")
    paths = [p for p in run_paths(f.body) if p.how == "return"]
    got = {(tuple((unparse(c), pol) for c, pol in p.conds if pol), unparse(p.ret)) for p in paths}
    want = {((("self == Out", True),), "In"), ((("self == In", True),), "Out")}
    ctx.check(got == want, R, "Flow.flip", "Out -> In, In -> Out", f"Flow.flip must map Out to In and In to Out; found {sorted(got)}", f"{W}:{f.lineno}")
    f = model.func(f"{W}::Member.flip")
    ok = any(pmatch("Member(self._flow.flip(), self._description, init=self._init, _dimensions=self._dimensions)", n) is not None
             for n in ast.walk(f))
    ctx.check(ok, R, "Member.flip", "only the flow changes; description, init and dimensions are kept",
              "Member.flip must rebuild the member with the flipped flow and the same description, init and dimensions", f"{W}:{f.lineno}")
    # every constructor field of Member is forwarded by flip (field completeness)
    fi = model.func(f"{W}::Member.__init__")
    fields = {s.targets[0].attr for s in ast.walk(fi) if isinstance(s, ast.Assign) and isinstance(s.targets[0], ast.Attribute)
              and unparse(s.targets[0].value) == "self"}
    used = {n.attr for n in ast.walk(f) if isinstance(n, ast.Attribute) and unparse(n.value) == "self"}
    fields -= {"_init_as_const", "src_loc"}      # derived from _init/_description by the constructor; location of the new member
    ctx.check(fields <= used, R, "Member.flip:fields", f"all of {sorted(fields)} forwarded",
              f"Member.flip does not forward the fields {sorted(fields - used)}", f"{W}:{f.lineno}")
    f = model.func(f"{W}::Member.signature")
    paths = [p for p in run_paths(f.body) if p.how == "return"]
    got = {(tuple((unparse(c), pol) for c, pol in p.conds if pol and "flow" in unparse(c)), unparse(p.ret)) for p in paths}
    want = {((("self.flow == Out", True),), "self._description"), ((("self.flow == In", True),), "self._description.flip()")}
    ctx.check(got == want, R, "Member.signature", "effective signature: flipped exactly for In members",
              f"Member.signature must return the description for Out and description.flip() for In; found {sorted(got)}", f"{W}:{f.lineno}")
    c = model.cls(f"{W}::FlippedSignatureMembers")
    ms = model.class_methods(c)
    exp = {"__getitem__": "return self.__unflipped.__getitem__(name).flip()",
           "__setitem__": "self.__unflipped.__setitem__(name, member.flip())",
           "__delitem__": "self.__unflipped.__delitem__(name)",
           "__iter__": "return self.__unflipped.__iter__()", "__len__": "return self.__unflipped.__len__()",
           "__contains__": "return name in self.__unflipped", "flip": "return self.__unflipped"}
    for name, body in exp.items():
        fn = ms.get(name)
        stmts = [s for s in (fn.body if fn else []) if not (isinstance(s, ast.Expr) and isinstance(s.value, ast.Constant))]
        ok = fn is not None and len(stmts) == 1 and unparse(stmts[0]) == body
        ctx.check(ok, R, f"FlippedSignatureMembers.{name}", body,
                  f"FlippedSignatureMembers.{name} must be `{body}`; found `{unparse(stmts[0]) if stmts else '-'}` (reading or storing "
                  f"a member through the flipped view without flipping it reverses the direction of that port)", f"{W}:{fn.lineno if fn else c.lineno}")
    al = model.class_assigns(c)
    ok = unparse(al.get("flatten", ast.Constant(None))) == "SignatureMembers.flatten" and unparse(al.get("create", ast.Constant(None))) == "SignatureMembers.create"
    ctx.check(ok, R, "FlippedSignatureMembers:shared", "flatten/create shared with SignatureMembers (they go through __getitem__)",
              "flatten and create must be shared with SignatureMembers", f"{W}:{c.lineno}")
    c = model.cls(f"{W}::FlippedSignature")
    ms = model.class_methods(c)
    def body1(name):
        fn = ms.get(name)
        stmts = [s for s in (fn.body if fn else []) if not (isinstance(s, ast.Expr) and isinstance(s.value, ast.Constant))]
        if len(stmts) > 1 and all(isinstance(s_, (ast.Assign, ast.Return)) for s_ in stmts):
            # a straight-line body that binds locals first: the result with the locals substituted
            from ..engine.symx import run_paths as _rp
            ps = _rp(stmts)
            if len(ps) == 1 and ps[0].how == "return" and ps[0].ret is not None and not ps[0].effects:
                return fn, "return " + unparse(ps[0].ret)
        return fn, (unparse(stmts[0]) if len(stmts) == 1 else None)
    fn, b = body1("flip")
    ctx.check(b == "return self.__unflipped", R, "FlippedSignature.flip", "returns the stored original (flip twice = identity)",
              f"FlippedSignature.flip must return the stored unflipped signature; found {b}", f"{W}:{fn.lineno if fn else c.lineno}")
    fn, b = body1("members")
    ctx.check(b == "return FlippedSignatureMembers(self.__unflipped.members)", R, "FlippedSignature.members", "flipped view of the members",
              f"FlippedSignature.members must be FlippedSignatureMembers(unflipped.members); found {b}", f"{W}:{fn.lineno if fn else c.lineno}")
    fn, b = body1("create")
    ok = b is not None and b.startswith("return flipped(self.__unflipped.create(")
    ctx.check(ok, R, "FlippedSignature.create", "flipped(unflipped.create(...))",
              f"FlippedSignature.create must return flipped(unflipped.create(...)); found {b}", f"{W}:{fn.lineno if fn else c.lineno}")
    f = model.func(f"{W}::Signature.flip")
    ok = any(isinstance(s, ast.Return) and unparse(s.value) == "FlippedSignature(self)" for s in f.body)
    ctx.check(ok, R, "Signature.flip", "FlippedSignature(self)", "Signature.flip must return FlippedSignature(self)", f"{W}:{f.lineno}")
    f = model.func(f"{W}::SignatureMembers.flip")
    ok = any(isinstance(s, ast.Return) and unparse(s.value) == "FlippedSignatureMembers(self)" for s in f.body)
    ctx.check(ok, R, "SignatureMembers.flip", "FlippedSignatureMembers(self)", "SignatureMembers.flip must return FlippedSignatureMembers(self)", f"{W}:{f.lineno}")
    f = model.func(f"{W}::flipped")
    t = unparse(f)
    ok = "if type(interface) is FlippedInterface:\n        return interface._FlippedInterface__unflipped" in t and "return FlippedInterface(interface)" in t
    ctx.check(ok, R, "flipped()", "flipping a flipped interface returns the original object",
              "flipped() must unwrap an already flipped interface and wrap anything else", f"{W}:{f.lineno}")
    f = model.func(f"{W}::FlippedInterface.signature")
    ok = any(isinstance(s, ast.Return) and unparse(s.value) == "self.__unflipped.signature.flip()" for s in f.body)
    ctx.check(ok, R, "FlippedInterface.signature", "unflipped.signature.flip()", "a flipped interface's signature must be the flipped signature",
              f"{W}:{f.lineno}")
    # flatten: sub-signature members are visited through member.signature (the effective one) and dimensions are iterated
    f = model.func(f"{W}::SignatureMembers.flatten")
    t = unparse(f)
    ok = "yield ((*path, name), member)" in t and "yield from member.signature.members.flatten(path=(*path, name))" in t and \
        "for (name, member) in self.items()" in t.replace("for name, member in", "for (name, member) in")
    if not ok:
        # other loop headers over the same collection (for name in self: member = self[name]) are not decided here; the
        # recognised mistakes are a missing yield of the member itself or a recursion that bypasses member.signature
        has_yield = any(isinstance(y, ast.Yield) and "member" in unparse(y) for y in ast.walk(f))
        rec = [y for y in ast.walk(f) if isinstance(y, ast.YieldFrom)]
        via_sig = any("member.signature.members.flatten" in unparse(y) for y in rec)
        need(not (has_yield and via_sig), "SignatureMembers.flatten: loop form not recognised")
    ctx.check(ok, R, "SignatureMembers.flatten", "every member is yielded once; sub-signatures through the effective signature",
              "flatten must yield every member and recurse into member.signature.members (the effective, possibly flipped one)", f"{W}:{f.lineno}")


def r14b(model, ctx):
    R = "R-14b"
    f = model.func_moved(f"{W}::connect.connect_value")
    paths = run_paths(f.body, max_paths=512)
    # def-use: .eq receiver from in_path, argument from out_path
    appended = 0
    okdir = True
    for p in paths:
        for e in p.effects:
            for n in ast.walk(e):
                if isinstance(n, ast.Call) and unparse(n.func) == "connections.append" and n.args:
                    appended += 1
                    a = unparse(n.args[0])
                    recv_in = "_traverse_path(in_path, objects)" in a.split(".eq", 1)[0] or ".eq" in a and "in_path" in a.split("(", 1)[0] + a.split(".eq")[0]
                    txt = a
                    # receiver: everything before the final call's argument list
                    call = n.args[0]
                    if isinstance(call, ast.Call):
                        recv = unparse(call.func)
                        args = " ".join(unparse(x) for x in call.args)
                        okdir = okdir and "in_path" in recv and "out_path" not in recv and "out_path" in args and "in_path" not in args
                    else:
                        okdir = False
    ctx.check(appended >= 2 and okdir, R, "connect_value:direction", "<input>.eq(<output>) on every path",
              "every statement connect() creates must assign the value found at the *output* path to the value found at the "
              "*input* path (`in.eq(out)`); the receiver of .eq must derive from in_path only and its argument from out_path only",
              f"{W}:{f.lineno}")
    # constant input: Const.cast attempt, then `type(in_value) is Const` branch returns before any append
    t = unparse(f)
    ok = "in_value = Const.cast(in_value)" in t and "except TypeError:\n        pass" in t
    ctx.check(ok, R, "connect_value:const-cast", "the input is constant-cast first (ints, enum members, data.Const count as constants)",
              "connect_value must try Const.cast(in_value) before testing for a constant input, so that every constant-castable "
              "input (int, enum member, data.Const) is treated as a constant and never assigned to", f"{W}:{f.lineno}")
    ifs = [s for s in f.body if isinstance(s, ast.If) and unparse(s.test) == "type(in_value) is Const"]
    ok = len(ifs) == 1
    if ok:
        b = ifs[0].body
        ok = isinstance(b[-1], ast.Return) and not any(isinstance(n, ast.Call) and unparse(n.func) == "connections.append" for s in b for n in ast.walk(s))
        rz = [n for s in b for n in ast.walk(s) if isinstance(n, ast.Raise)]
        ok = ok and len(rz) == 2 and all("ConnectionError" in unparse(r) for r in rz) and \
            any(isinstance(s, ast.If) and unparse(s.test) == "in_value.value != out_value.value" for s in b)
    ctx.check(ok, R, "connect_value:const-input", "constant input: never assigned; varying or different output raises ConnectionError",
              "a constant input must never be driven: the branch must raise ConnectionError for a varying output or a different "
              "constant and return without appending a statement", f"{W}:{f.lineno}")
    fc = model.func(f"{W}::connect")
    t = unparse(fc)
    # by governing conditions: out_kind.append(X) under (is a port, flow == Out), in_kind.append(X) under (is a port, flow == In),
    # X the same (path, member) pair — as two ifs, if/elif, if/else or conjunctions
    modw = model.mod(W)

    def governing(node):
        out, q, child = [], modw.parent(node), node
        while q is not None and q is not fc:
            if isinstance(q, ast.If):
                pol = any(child is b for b in q.body)
                tests = q.test.values if isinstance(q.test, ast.BoolOp) and isinstance(q.test.op, ast.And) and pol else [q.test]
                out += [(unparse(x), pol) for x in tests]
            q, child = modw.parent(q), q
        return set(out)
    ok = True
    for lst, flow, other in (("out_kind", "Out", "In"), ("in_kind", "In", "Out")):
        apps = [n for n in ast.walk(fc) if isinstance(n, ast.Call) and unparse(n.func) == f"{lst}.append"]
        need(len(apps) >= 1, f"connect: {lst}.append not found")
        for a_ in apps:
            stmt = modw.parent(a_)
            g = governing(stmt)
            ok = ok and len(apps) == 1 and len(a_.args) == 1 and unparse(a_.args[0]) == "((handle, *path_for_handle), member)" and \
                ((f"member.flow == {flow}", True) in g or (f"member.flow == {other}", False) in g or (f"member.flow != {other}", True) in g) and \
                (("member.is_port", True) in g or ("member.is_signature", False) in g)
    ctx.check(ok, R, "connect:classification", "out_kind filled under flow == Out, in_kind under flow == In",
              "members must be classified as outputs exactly when member.flow == Out and as inputs when member.flow == In", f"{W}:{fc.lineno}")
    adds = [n for n in walk_no_nested(fc) if isinstance(n, ast.AugAssign) and "connections" in unparse(n.value)]
    ok = len(adds) == 1 and unparse(adds[0].target) == "m.d.comb"
    ctx.check(ok, R, "connect:comb-only", "connections are added to m.d.comb", "connect() must add its statements to m.d.comb only",
              f"{W}:{fc.lineno}")
    ok = "(out_path, out_member), = out_kind" in t.replace("((out_path, out_member),) = out_kind", "(out_path, out_member), = out_kind") and \
        "for (in_path, in_member) in in_kind" in t.replace("for in_path, in_member in in_kind", "for (in_path, in_member) in in_kind")
    ctx.check(ok, R, "connect:fan-out", "the single output drives every input of the leaf", "every input member of a leaf must be connected "
              "to the single output member", f"{W}:{fc.lineno}")
    # the recursive call on the remaining dimensions appends the same loop index to both paths (whether the helper is a
    # closure of connect() or a module-level function taking the shared state as extra arguments)
    fdim = model.func_moved(f"{W}::connect.connect_dimensions")
    ok = False
    for lp in ast.walk(fdim):
        if isinstance(lp, ast.For) and isinstance(lp.target, ast.Name) and dotted(lp.iter.func if isinstance(lp.iter, ast.Call) else lp.iter) == "range":
            ix = lp.target.id
            for c in ast.walk(lp):
                if isinstance(c, ast.Call) and (dotted(c.func) or "").lstrip("_") == "connect_dimensions":
                    kw = {k.arg: unparse(k.value) for k in c.keywords}
                    if kw.get("out_path") == f"(*out_path, {ix})" and kw.get("in_path") == f"(*in_path, {ix})" and \
                            any(unparse(a) == "rest_of_dimensions" for a in c.args):
                        ok = True
    ctx.check(ok, R, "connect:dimensions", "array elements are connected index by index (same index on both sides)",
              "array dimensions must be connected element-wise with the same index appended to both paths", f"{W}:{fc.lineno}")
    ok = "flattens = {handle: iter(sorted(signature.members.flatten())) for (handle, signature) in signatures.items()}" in \
        t.replace("for handle, signature in", "for (handle, signature) in")
    ctx.check(ok, R, "connect:member-order", "members are walked in sorted order for every interface (argument order independent)",
              "connect() must walk sorted(signature.members.flatten()) of every interface in lock step", f"{W}:{fc.lineno}")


def _one_output_ok(fc):
    """the tests on the number of outputs of a leaf, evaluated for 0..3 outputs in source order: none -> `continue`, one -> falls
    through, several -> ConnectionError"""
    ifs = sorted((n for n in ast.walk(fc) if isinstance(n, ast.If) and
                  {x.id for x in ast.walk(n.test) if isinstance(x, ast.Name)} <= {"out_kind", "len"} and
                  any(isinstance(x, ast.Name) and x.id == "out_kind" for x in ast.walk(n.test))), key=lambda n: n.lineno)
    need(ifs, "connect: the tests on the number of output members were not found")

    def ev(e, n):
        if isinstance(e, ast.Name) and e.id == "out_kind":
            return n > 0            # truthiness of the list
        if isinstance(e, ast.Call) and unparse(e) == "len(out_kind)":
            return n
        c = const_int(e)
        if c is not None:
            return c
        if isinstance(e, ast.UnaryOp) and isinstance(e.op, ast.Not):
            return not ev(e.operand, n)
        if isinstance(e, ast.BoolOp):
            vals = [bool(ev(v, n)) for v in e.values]
            return all(vals) if isinstance(e.op, ast.And) else any(vals)
        if isinstance(e, ast.Compare) and len(e.ops) == 1:
            a, b = ev(e.left, n), ev(e.comparators[0], n)
            if isinstance(a, bool) or isinstance(b, bool):
                need(False, f"connect: test `{unparse(e)}` not recognised")
            ops = {ast.Eq: a == b, ast.NotEq: a != b, ast.Lt: a < b, ast.LtE: a <= b, ast.Gt: a > b, ast.GtE: a >= b}
            need(type(e.ops[0]) in ops, f"connect: test `{unparse(e)}` not recognised")
            return ops[type(e.ops[0])]
        need(False, f"connect: test `{unparse(e)}` not recognised")

    for n in range(4):
        action = "through"
        for s in ifs:
            if bool(ev(s.test, n)):
                last = s.body[-1]
                if isinstance(last, ast.Continue):
                    action = "skip"
                elif isinstance(last, ast.Raise) and "ConnectionError" in unparse(last):
                    action = "raise"
                else:
                    need(False, f"connect: the action of `if {unparse(s.test)}` is neither continue nor raise ConnectionError")
                break
        if action != ("skip" if n == 0 else "through" if n == 1 else "raise"):
            return False
    return True


def r14c(model, ctx):
    R = "R-14c"
    fc = model.func(f"{W}::connect")
    mod = model.mod(W)
    raises = [n for n in ast.walk(fc) if isinstance(n, ast.Raise) and n.exc is not None]
    kinds = {}
    for r in raises:
        k = unparse(r.exc).split("(")[0]
        kinds.setdefault(k, []).append(r.lineno)
    # argument validation raises TypeError before the main loop; everything else must be ConnectionError
    loops = [s for s in fc.body if isinstance(s, ast.While)]
    need(len(loops) == 1, "connect: main `while True` loop not found")
    first_loop_line = loops[0].lineno
    bad = [(k, l) for k, ls in kinds.items() for l in ls if k != "ConnectionError" and l >= first_loop_line]
    ctx.check(not bad, R, "connect:raises", f"{len(kinds.get('ConnectionError', []))} ConnectionError sites; others only in argument validation",
              f"connect() raises {bad} inside its member walk: every diagnostic about the interfaces must be a ConnectionError",
              f"{W}:{fc.lineno}")
    # unconditional pairwise checks
    pair_loop = [s for s in ast.walk(fc) if isinstance(s, ast.For) and unparse(s.iter) == "in_kind + out_kind"]
    need(len(pair_loop) == 1, "connect: pairwise member check loop not found")
    pl = pair_loop[0]
    ifs = [s for s in pl.body if isinstance(s, ast.If)]
    tests = [unparse(s.test) for s in ifs]
    okw = "Shape.cast(first_member_shape).width != Shape.cast(member_shape).width" in tests
    oki = "first_member_init_as_const.value != member._init_as_const.value" in tests
    for s in ifs:
        if unparse(s.test) in ("Shape.cast(first_member_shape).width != Shape.cast(member_shape).width",
                               "first_member_init_as_const.value != member._init_as_const.value"):
            if not (isinstance(s.body[-1], ast.Raise) and "ConnectionError" in unparse(s.body[-1])):
                okw = oki = False
    ctx.check(okw, R, "connect:width-mismatch", "widths of every pair compared; mismatch raises ConnectionError",
              "connect() must compare Shape.cast(shape).width of every member with the first one and raise ConnectionError on a "
              "mismatch", f"{W}:{pl.lineno}")
    ctx.check(oki, R, "connect:init-mismatch", "evaluated init constants of every pair compared unconditionally",
              "connect() must compare the *evaluated* initial values (member._init_as_const.value) of every member with the first "
              "one, unconditionally, and raise ConnectionError on a mismatch — comparing the raw `init=` arguments first skips "
              "members whose shapes interpret the same argument differently", f"{W}:{pl.lineno}")
    t = unparse(fc)
    ok = _one_output_ok(fc)
    ctx.check(ok, R, "connect:one-output", "zero outputs: nothing to connect; more than one: ConnectionError",
              "connect() must skip leaves without outputs and raise ConnectionError for leaves with several outputs", f"{W}:{fc.lineno}")
    ok = "is present in" in t and t.count("raise ConnectionError(f'Member ") >= 2
    ctx.check(ok, R, "connect:missing-member", "a member missing from one interface raises ConnectionError", "missing members must raise "
              "ConnectionError", f"{W}:{fc.lineno}")
    ok = "if sig_kind and (out_kind or in_kind):" in t
    ctx.check(ok, R, "connect:kind-mismatch", "signature vs port member mismatch raises ConnectionError", "connecting a signature member to "
              "a port member must raise ConnectionError", f"{W}:{fc.lineno}")
    ok = "if len(connections) == 0 and any_in and (not any_out):" in t
    ctx.check(ok, R, "connect:inputs-only", "only input-to-input connections are diagnosed", "input-only connection sets must be diagnosed",
              f"{W}:{fc.lineno}")
    # compliance check up front
    ok = "is_compliant(" in t and "reasons" in t
    ctx.check(ok, R, "connect:compliance", "every argument is checked against its signature first", "connect() must check compliance of "
              "every interface before walking members", f"{W}:{fc.lineno}")


def r14d(model, ctx):
    R = "R-14d"
    f = model.func(f"{W}::ComponentMetadata.as_json.translate_member")
    ret = [s for s in ast.walk(f) if isinstance(s, ast.Return) and isinstance(s.value, ast.Dict)]
    need(len(ret) == 2, "translate_member: expected two dict returns (port, interface)")
    port = [r for r in ret if any(isinstance(k, ast.Constant) and k.value == "dir" for k in r.value.keys)]
    need(len(port) == 1, "translate_member: port dict not found")
    d = {k.value: unparse(v) for k, v in zip(port[0].value.keys, port[0].value.values)}
    exp = {"type": "'port'", "name": "'__'.join((str(key) for key in path))", "dir": "'in' if member.flow == In else 'out'",
           "width": "cast_shape.width", "signed": "cast_shape.signed", "init": "str(member._init_as_const.value)"}
    import re as _re
    nm = d.get("name") or ""
    # the same string, spelt with map() or a list comprehension or another loop variable
    if nm == "'__'.join(map(str, path))" or _re.fullmatch(r"'__'\.join\(\[?\(?str\((\w+)\) for \1 in path\)?\]?\)", nm):
        d["name"] = exp["name"]
    for k, v in exp.items():
        ctx.check(d.get(k) == v, R, f"as_json:port:{k}", v,
                  f"metadata field `{k}` of a port must be `{v}`; found `{d.get(k)}`" +
                  (" (the evaluated initial value must be reported as is: masking it to the width drops the sign of negative "
                   "initial values)" if k == "init" else ""), f"{W}:{port[0].lineno}")
    ok = any(unparse(s) == "cast_shape = Shape.cast(member.shape)" for s in ast.walk(f) if isinstance(s, ast.Assign))
    ctx.check(ok, R, "as_json:port:cast_shape", "Shape.cast(member.shape)", "width/signed must come from Shape.cast(member.shape)", f"{W}:{f.lineno}")
    def members_comp(root, sig, origin, path_of):
        """a dict comprehension {N: translate_dimensions(M.dimensions, M, getattr(ORIGIN, N), path=PATH(N)) for N, M in SIG.members.items()}"""
        for n in ast.walk(root):
            if isinstance(n, ast.DictComp) and len(n.generators) == 1 and not n.generators[0].ifs and \
                    unparse(n.generators[0].iter) == f"{sig}.members.items()" and isinstance(n.generators[0].target, ast.Tuple) and \
                    len(n.generators[0].target.elts) == 2:
                N, M = (unparse(x) for x in n.generators[0].target.elts)
                if unparse(n.key) == N and unparse(n.value) == f"translate_dimensions({M}.dimensions, {M}, getattr({origin}, {N}), path={path_of(N)})":
                    return True
        return False
    fx = model.func_expanded(f"{W}::ComponentMetadata.as_json", depth=3, exclude=("translate_dimensions", "translate_member"))
    ok = members_comp(fx, "member.signature", "origin", lambda N: f"(*path, {N})")
    ctx.check(ok, R, "as_json:interface", "recursion over the effective sub-signature's members",
              "interface members must recurse over member.signature.members (the effective, flipped-for-In signature)", f"{W}:{f.lineno}")
    fa = model.func(f"{W}::ComponentMetadata.as_json")
    g = CFG(fa, inline_closures=False)
    val = g.nodes_with(lambda n: isinstance(n, ast.Call) and unparse(n.func) == "self.validate")
    rets = [nid for nid, s in g.stmt.items() if isinstance(s, ast.Return) and g.owner[nid] == "as_json"]
    ok = len(val) == 1 and len(rets) == 1 and g.dominates({val[0]}, rets[0]) and unparse(g.stmt[rets[0]].value) == "instance"
    ctx.check(ok, R, "as_json:validate", "the instance is validated against the schema before it is returned",
              "as_json must call self.validate(instance) before returning the instance", f"{W}:{fa.lineno}")
    ok = members_comp(fx, "self.origin.signature", "self.origin", lambda N: f"({N},)") or \
        members_comp(fx, "self.origin.signature", "self.origin", lambda N: f"(*(), {N})")
    ctx.check(ok, R, "as_json:top-members", "every member of the component's signature is listed", "as_json must list every member of the "
              "component's signature", f"{W}:{fa.lineno}")
    fd = model.func(f"{W}::ComponentMetadata.as_json.translate_dimensions")
    ok = "for index in range(dimension)" in unparse(fd) and "origin[index]" in unparse(fd) and "path=(*path, index)" in unparse(fd)
    ctx.check(ok, R, "as_json:dimensions", "arrays expand element by element", "array members must expand to one entry per index", f"{W}:{fd.lineno}")
    # Member._init_as_const evaluates init in the member's shape
    fm = model.func(f"{W}::Member.__init__")
    t = unparse(fm)
    ok = "_init_as_const" in t and "Const.cast" in t or "Const(" in t
    ctx.check(ok, R, "Member.__init__:_init_as_const", "the initial value is evaluated in the member's shape once",
              "Member must evaluate its initial value as a constant of its shape", f"{W}:{fm.lineno}")


def r14e(model, ctx):
    """initial values of ports: the declared value is kept as the evaluated constant (not wrapped to the port width, which
    would drop the sign of negative initial values), and compliance compares a signal's init with that constant's value for
    equality, over all bits"""
    R = "R-14e"
    fi = model.func(f"{W}::Member.__init__")
    stores = [st for st in ast.walk(fi) if isinstance(st, ast.Assign) and unparse(st.targets[0]) == "self._init_as_const"]
    need(len(stores) >= 2, "Member.__init__: the stores of _init_as_const were not found")
    vals = sorted(unparse(st.value) for st in stores)
    ok = set(vals) <= {"Const.cast(init or 0)", "Const.cast(Const(self._init, self._description))", "None"} and \
        "Const.cast(init or 0)" in vals and "Const.cast(Const(self._init, self._description))" in vals
    ctx.check(ok, R, "Member.__init__:_init_as_const", "Const.cast(init or 0) for plain shapes, Const(init, shape) for shape-castables",
              f"Member must keep the declared initial value as its evaluated constant (Const.cast(init or 0) / Const.cast(Const(init, "
              f"shape))); found {vals}: wrapping it to the port width makes a signed port with a negative init non-compliant with "
              f"the interface its own signature creates", f"{W}:{fi.lineno}")
    fc = model.func(f"{W}::Signature.is_compliant")
    fv = model.func_view(f"{W}::Signature.is_compliant", depth=0)
    tests = [n.test for n in ast.walk(fv) if isinstance(n, (ast.If, ast.IfExp)) and "_init_as_const" in unparse(n.test)
             and ".init" in unparse(n.test)]
    need(len(tests) == 1, "Signature.is_compliant: the comparison of a signal's init with the declared initial value was not found")
    t = tests[0]
    if isinstance(t, ast.BoolOp) and isinstance(t.op, ast.And):
        # `isinstance(x, Signal) and x.init != ...`: the guard merged into the comparison
        parts = [v for v in t.values if "_init_as_const" in unparse(v)]
        rest = [v for v in t.values if v not in parts]
        if len(parts) == 1 and all(unparse(v).startswith("isinstance(") for v in rest):
            t = parts[0]
    masked = any(isinstance(n, ast.BinOp) and isinstance(n.op, (ast.BitAnd, ast.BitXor, ast.Mod)) for n in ast.walk(t))
    plain = isinstance(t, ast.Compare) and len(t.ops) == 1 and isinstance(t.ops[0], (ast.NotEq, ast.Eq)) and \
        {unparse(t.left), unparse(t.comparators[0])} == {"attr_value_cast.init", "member._init_as_const.value"}
    need(plain or masked, f"Signature.is_compliant: unrecognised comparison of initial values `{unparse(t)}`")
    ok = plain
    ctx.check(ok and not masked, R, "Signature.is_compliant:init", "signal.init compared with the declared constant's value, all bits",
              "is_compliant must compare the signal's init with member._init_as_const.value for (in)equality without masking: a mask "
              "taken from the literal's natural width accepts signals whose init differs in higher bits", f"{W}:{fc.lineno}")



def r14f(model, ctx):
    """a signature member with dimensions is a (nested) list of values: every place that applies something to "the value of
    member X" walks the member's dimensions first (create -> create_dimensions, flatten -> iter_dimensions, is_compliant ->
    check_dimensions, connect -> connect_dimensions, as_json -> translate_dimensions).  Sibling agreement: the flipped proxy
    (FlippedInterface.__getattr__ / __setattr__) flips nested interfaces and must do so element by element."""
    R = "R-14f"
    for meth in ("__getattr__", "__setattr__"):
        f = model.func(f"{W}::FlippedInterface.{meth}")
        flips = [c for c in ast.walk(f) if isinstance(c, ast.Call) and (dotted(c.func) or "").split(".")[-1] in
                 ("flipped", "FlippedInterface", "_flipped_array")]
        need(flips, f"FlippedInterface.{meth}: the flipping of a nested interface was not found")
        uses_dims = any(isinstance(a, ast.Attribute) and a.attr == "dimensions" for a in ast.walk(f)) or \
            any(isinstance(c, ast.Call) and (dotted(c.func) or "").endswith("_flipped_array") for c in ast.walk(f))
        ctx.check(uses_dims, R, f"FlippedInterface.{meth}:array-of-interfaces", "nested interfaces are flipped along the member's dimensions",
                  f"FlippedInterface.{meth} applies flipped() to the whole value of a signature member; for a member declared with "
                  f".array(n) that value is a list and flipped() raises TypeError: the interface created from a flipped signature "
                  f"does not comply with it (is_compliant itself raises)", f"{W}:{f.lineno}")
    # the helper walks exactly the declared dimensions and flips the leaves
    h = model.func(f"{W}::_flipped_array", optional=True)
    if h is not None:
        from ..engine import refsem
        fn, paths = refsem.method_paths(model, f"{W}::_flipped_array", inline=False)
        refsem.compare(ctx, R, "_flipped_array", f"{W}:{fn.lineno}", "_flipped_array", paths, ["""
if not dimensions:
    return flipped(value)
_dimension, *rest_of_dimensions = dimensions
return [_flipped_array(item, rest_of_dimensions) for item in value]
"""], fact="leaves flipped, one list level per dimension", why="every element of an array of nested interfaces must be flipped, "
                       "through all declared dimensions")


def r14g(model, ctx):
    """connect() pairs leaves by the paths of SignatureMembers.flatten(), which (by its documentation) disregards dimensions;
    the dimensions of a leaf port are walked by connect_dimensions, but the dimensions of an ENCLOSING signature member are
    not part of the path, so a port inside `Out(sig).array(n)` is looked up through a list"""
    R = "R-14g"
    f = model.func(f"{W}::connect")
    uses_members_flatten = any(isinstance(c, ast.Call) and unparse(c.func).endswith(".members.flatten") for c in ast.walk(f))
    need(uses_members_flatten or any(isinstance(c, ast.Call) and "flatten" in unparse(c.func) for c in ast.walk(f)),
         "connect: the enumeration of members was not found")
    # some code in connect must look at the dimensions of signature members (guarded by is_signature) to expand them
    handled = False
    for node in ast.walk(f):
        if isinstance(node, ast.If) and "is_signature" in unparse(node.test):
            handled = handled or any(isinstance(a, ast.Attribute) and a.attr == "dimensions" for b in node.body for a in ast.walk(b))
    ctx.check(handled or not uses_members_flatten, R, "connect:arrayed-nested-signature",
              "the dimensions of nested signature members are expanded into the paths",
              "connect() enumerates members with SignatureMembers.flatten() (paths without array indices) and never expands the "
              "dimensions of a signature member: for interfaces with `Out(sig).array(n)` the ports inside are looked up with "
              "getattr on a list and connect() raises AttributeError instead of connecting (or refusing with ConnectionError)",
              f"{W}:{f.lineno}")



def r14h(model, ctx):
    """flipping and interface creation compared with their reference semantics (sa/refs/c14_wiring.py) by path summary"""
    from .reflib import run_ref_file
    run_ref_file(model, ctx, "R-14h", "c14_wiring")



def r14i(model, ctx):
    """(1) connect() compares widths and initial values of ALL members at a path before it looks at how many outputs there
    are: the "no output here, nothing to connect" shortcut comes after the comparison loop (an input-only leaf is checked
    too); (2) is_compliant's walk over an array dimension stops early only after a failure, and only when no reasons are
    being collected."""
    R = "R-14i"
    from ..engine.astutil import parent_map, dominating_conditions
    f = model.func(f"{W}::connect")
    shortcut = [n for n in ast.walk(f) if isinstance(n, ast.If) and unparse(n.test) in ("len(out_kind) == 0", "not out_kind") and
                n.body and isinstance(n.body[0], ast.Continue)]
    cmp_loops = [n for n in ast.walk(f) if isinstance(n, ast.For) and unparse(n.iter).replace(" ", "") in ("in_kind+out_kind", "out_kind+in_kind")]
    need(len(shortcut) == 1 and len(cmp_loops) == 1, "connect: the no-output shortcut / the comparison loop were not found")
    ctx.check(cmp_loops[0].lineno < shortcut[0].lineno, R, "connect:compare-before-shortcut",
              "widths and initial values are compared before the no-output shortcut",
              "connect() skips a path without outputs before comparing the members at that path: a width or initial-value "
              "mismatch on a leaf that is an input everywhere is silently accepted", f"{W}:{shortcut[0].lineno}")
    g = model.func(f"{W}::Signature.is_compliant.check_dimensions")
    pm = parent_map(g)
    brk = [n for n in ast.walk(g) if isinstance(n, ast.Break)]
    if not brk:
        ctx.ok(R, "is_compliant.check_dimensions:early-exit", "no early exit: every element is checked", f"{W}:{g.lineno}")
    for b in brk:
        conds = [(unparse(t), pol) for t, pol in dominating_conditions(pm, b, g)]
        after_failure = any(t.startswith("not check_dimensions(") and pol or t.startswith("check_dimensions(") and not pol for t, pol in conds)
        quiet = ("reasons is None", True) in conds or ("reasons is not None", False) in conds
        ctx.check(after_failure and quiet, R, "is_compliant.check_dimensions:early-exit", "break only after a failed element, without reasons",
                  f"the element loop of check_dimensions leaves early under {conds}: it may stop only after an element failed (and no "
                  f"reasons are collected); otherwise only element 0 of every array is checked", f"{W}:{b.lineno}")


RULES = [("R-14i", r14i), ("R-14h", r14h), ("R-14f", r14f), ("R-14g", r14g), ("R-14e", r14e), ("R-14a", r14a), ("R-14b", r14b), ("R-14c", r14c), ("R-14d", r14d)]
