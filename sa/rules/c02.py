"""C02 — assignments and control flow: last active assignment wins, per bit (structural necessary conditions)."""
import ast
from ..engine.core import AnalysisError, need
from ..engine.astutil import (dispatch_leaves, select_leaf, template_of, const_str, const_int, dotted, unparse,
                              names_in, is_rejection, pmatch, find_matches, last_name, walk_no_nested, dump,
                              on_methods, emitted_templates, terminates)
from ..engine.symx import run_paths, subst
from ..engine.cfg import CFG, ENTRY, EXIT
from ..engine.norm import poly, poly_sub, poly_text, compare_norm, negate_op
from . import interp
from .interp import AST_PY, PYRTL, PYEVAL, IR, XFRM, DSL, handled
from . import pyrtl_common

EXPLANATION = (
    "Static (ast-only) decision of structural necessary conditions of C02: (a) every assignable target kind and "
    "every statement kind is handled by every LHS/statement walker (simulator code generator, testbench evaluator, "
    "netlist builder, mask collector, DSL checker, transformers); (b) first-match priority: the generated Python "
    "uses if/elif in case order and `case _` only for default; (c) emission order defaults -> statements -> reset "
    "-> memory -> commit in the simulator's fragment compiler, and reset-after-statements in the netlist driver "
    "emission; (d) extension uses the signedness that was returned with the value; (e) assignment windows are "
    "clipped so only addressed bits are touched (window-containment invariant of the two offset/length walkers, "
    "with the Concat window arithmetic compared in polynomial normal form against the reference); (f) driven-bit "
    "masks; (g) masked-merge pairing (one mask, complementary polarity, one shift). NOT decided: If->Switch and FSM "
    "encoding in _dsl.py, value-level results of concrete modules."
)
ASSUMPTIONS = [
    "CPython ast parses /repo's source as the interpreter would",
    "the set of assignable kinds is the one accepted by _dsl._check_lhs (read from the source on every run)",
    "ClockSignal/ResetSignal targets are lowered by DomainLowerer before simulation / netlist emission",
]

MIN_INSTANCES = {"R-02j": 8, "R-02i": 15, "R-02h": 6, "R-02a": 60, "R-02b": 4, "R-02c": 8, "R-02d": 12, "R-02e": 6, "R-02g": 5, "R-02f": 3}

LHS_KEYS = [("Signal", None), ("Slice", None), ("Part", None), ("Concat", None), ("SwitchValue", None),
            ("Operator", "u"), ("Operator", "s")]
STMT_KINDS = ["Assign", "Print", "Property", "Switch"]


def _env(kind, op=None):
    e = {"class": kind}
    if kind == "Operator":
        e["op"] = op
        e["arity"] = 1
    return e


# ----------------------------------------------------------------------------------------------- R-02a

def r02a(model, ctx):
    R = "R-02a"
    # universe: kinds accepted by _check_lhs (read from the source)
    fn, lvs = interp.leaves(model, f"{DSL}::_check_lhs")
    accepted = []
    for kind, op in LHS_KEYS + [("ClockSignal", None), ("ResetSignal", None)]:
        lf = select_leaf(lvs, _env(kind, op))
        if handled(lf):
            accepted.append((kind, op))
    need(set(LHS_KEYS) <= set(accepted), f"_check_lhs no longer accepts the kinds {set(LHS_KEYS) - set(accepted)}")
    ctx.note(f"assignable kinds accepted by _check_lhs: {accepted}")

    # dispatch-style walkers
    walkers = [
        ("_eval_assign_inner", f"{PYEVAL}::_eval_assign_inner", PYEVAL, LHS_KEYS),
        ("NetlistEmitter.emit_assign", f"{IR}::NetlistEmitter.emit_assign", IR, LHS_KEYS),
        ("LHSMaskCollector.visit_value", f"{XFRM}::LHSMaskCollector.visit_value", XFRM,
         LHS_KEYS + [("ClockSignal", None), ("ResetSignal", None)]),
    ]
    for name, ref, rel, keys in walkers:
        fn, lvs = interp.leaves(model, ref)
        for kind, op in keys:
            lf = select_leaf(lvs, _env(kind, op))
            ok = handled(lf)
            if ok and kind == "Operator":
                # an `assert X.operator in (...)` inside the branch must admit op
                for s in lf.body:
                    if isinstance(s, ast.Assert):
                        m = pmatch("_V_X.operator in _V_T", s.test)
                        if m is not None:
                            from ..engine.astutil import str_elts
                            t = str_elts(m["_V_T"])
                            if t is not None and op not in t:
                                ok = False
            ctx.check(ok, R, f"{name}:{kind}{'/' + op if op else ''}", f"handled at line {lf.lineno if lf else '?'}",
                      f"assignable target kind {kind}{'(' + op + ')' if op else ''} is not handled by {name} "
                      f"(falls to the rejection tail)", f"{rel}:{lf.lineno if lf else fn.lineno}")

    # visitor-style walker: _LHSValueCompiler
    ms = on_methods(model, PYRTL, "_LHSValueCompiler", search=(XFRM,))
    for kind in ["Signal", "Slice", "Part", "Concat", "SwitchValue", "Operator"]:
        ent = ms.get(f"on_{kind}")
        ok = ent is not None and ent[1] == "_LHSValueCompiler" and isinstance(ent[2], ast.FunctionDef) \
            and not (len(ent[2].body) == 1 and isinstance(ent[2].body[0], ast.Raise))
        ctx.check(ok, R, f"_LHSValueCompiler:on_{kind}", "defined on the LHS compiler",
                  f"_LHSValueCompiler has no own non-rejecting on_{kind}", f"{PYRTL}:{ent[2].lineno if ent else 0}")
    fn = model.func(f"{PYRTL}::_LHSValueCompiler.on_Operator")
    lvs = dispatch_leaves(fn.body)
    for op in ("u", "s"):
        lf = select_leaf(lvs, _env("Operator", op))
        ctx.check(handled(lf), R, f"_LHSValueCompiler:on_Operator/{op}", "handled",
                  f"_LHSValueCompiler.on_Operator rejects '{op}'", f"{PYRTL}:{fn.lineno}")

    # _lhs_signals on each assignable class
    for kind in ["Signal", "Slice", "Part", "Concat", "SwitchValue", "Operator"]:
        c = model.cls(f"{AST_PY}::{kind}")
        ok = "_lhs_signals" in model.class_methods(c)
        ctx.check(ok, R, f"{kind}._lhs_signals", "defined", f"{kind} does not define _lhs_signals",
                  f"{AST_PY}:{c.lineno}")

    # statement kinds
    stmt_walkers = [
        ("NetlistEmitter.emit_stmt", f"{IR}::NetlistEmitter.emit_stmt", IR),
        ("_check_stmt", f"{DSL}::_check_stmt", DSL),
        ("LHSMaskCollector.visit_stmt", f"{XFRM}::LHSMaskCollector.visit_stmt", XFRM),
        ("Design._collect_used_signals_stmt", f"{IR}::Design._collect_used_signals_stmt", IR),
        ("StatementVisitor.on_statement", f"{XFRM}::StatementVisitor.on_statement", XFRM),
    ]
    for name, ref, rel in stmt_walkers:
        fn, lvs = interp.leaves(model, ref)
        for kind in STMT_KINDS:
            lf = select_leaf(lvs, {"class": kind})
            ctx.check(handled(lf), R, f"{name}:{kind}", f"handled at line {lf.lineno if lf else '?'}",
                      f"statement kind {kind} is not handled by {name}", f"{rel}:{lf.lineno if lf else fn.lineno}")
    for clsname, rel in [("_StatementCompiler", PYRTL), ("StatementTransformer", XFRM), ("DomainCollector", XFRM)]:
        ms = on_methods(model, rel, clsname, search=(XFRM,))
        for kind in STMT_KINDS + ["statements"]:
            ent = ms.get(f"on_{kind}")
            own = ent is not None and ent[1] != "StatementVisitor"
            ctx.check(own, R, f"{clsname}:on_{kind}", "implemented (not the abstract stub)",
                      f"{clsname} does not implement on_{kind}", f"{rel}:{ent[2].lineno if ent else 0}")


# ----------------------------------------------------------------------------------------------- R-02b

def r02b(model, ctx):
    R = "R-02b"
    fn = model.func_expanded(f"{PYRTL}::_Compiler._emit_switch", depth=3)
    mod = model.mod(PYRTL)
    from ..engine.astutil import parent_map
    pm = parent_map(fn)
    # the non-match form: `for index, case in enumerate(cases)` with `if index == 0: "if ..." else: "elif ..."`
    loops = [n for n in ast.walk(fn) if isinstance(n, ast.For) and pmatch("enumerate(cases)", n.iter) is not None]
    need(len(loops) == 1, "_emit_switch: cannot find the `for index, case in enumerate(cases)` loop")
    loop = loops[0]
    idx_name = loop.target.elts[0].id if isinstance(loop.target, ast.Tuple) else None
    need(idx_name is not None, "_emit_switch: loop target shape changed")
    def const_text(node):
        """text of a hole-free template / string constant, else None"""
        t = template_of(node)
        if t is not None and not t.holes:
            return t.text()
        return None

    def leaf_literals(stmts, accept):
        """string literals (accepted by `accept`) appended or assigned inside a statement list"""
        out = []
        for n in stmts:
            for c in ast.walk(n):
                cands = []
                if isinstance(c, ast.Call) and isinstance(c.func, ast.Attribute) and c.func.attr == "append" and c.args:
                    cands.append(c.args[0])
                if isinstance(c, ast.Assign):
                    cands.append(c.value)
                    if isinstance(c.value, (ast.List, ast.Tuple)):
                        cands.extend(c.value.elts)
                for x in cands:
                    tx = const_text(x)
                    if tx is not None and accept(tx.strip()):
                        out.append(tx.strip())
        return out

    # (1) first case emits `if`, later ones `elif`: as two templates under `if index == 0`, or as one template whose
    #     keyword hole is `"if" if index == 0 else "elif"`
    binds = {unparse(st.targets[0]): st.value for st in ast.walk(loop) if isinstance(st, ast.Assign) and len(st.targets) == 1}
    first_if = None
    for st in loop.body:
        if isinstance(st, ast.If) and pmatch(f"{idx_name} == 0", st.test) is not None:
            first_if = st

    def head(stmts):
        for n in stmts:
            for c in ast.walk(n):
                if isinstance(c, ast.Call) and isinstance(c.func, ast.Attribute) and c.func.attr == "append" and c.args:
                    t = template_of(c.args[0])
                    if t is not None and t.parts and isinstance(t.parts[0], str) and t.parts[0].strip():
                        return t.parts[0].split(" ")[0], t
        return None, None

    templates = []
    if first_if is not None:
        h0, t0 = head(first_if.body)
        h1, t1 = head(first_if.orelse)
        templates = [t for t in (t0, t1) if t is not None]
        where_if = first_if.lineno
    else:
        h0 = h1 = None
        where_if = loop.lineno
        for c in ast.walk(loop):
            if isinstance(c, ast.Call) and isinstance(c.func, ast.Attribute) and c.func.attr == "append" and c.args:
                t = template_of(c.args[0])
                if t is not None and t.holes and t.skeleton().startswith("{0} "):
                    kw = binds.get(t.holes[0].src, t.holes[0].expr)
                    if isinstance(kw, ast.IfExp) and pmatch(f"{idx_name} == 0", kw.test) is not None:
                        h0, h1 = const_str(kw.body), const_str(kw.orelse)
                        templates = [t]
                    elif isinstance(kw, ast.IfExp) and pmatch(f"{idx_name} != 0", kw.test) is not None:
                        h0, h1 = const_str(kw.orelse), const_str(kw.body)
                        templates = [t]
        need(templates, "_emit_switch: neither an `if index == 0` split nor a keyword chosen by `index == 0` was found")
    ctx.check(h0 == "if" and h1 == "elif", R, "_emit_switch:if/elif",
              "first case emits `if`, later cases emit `elif` (first match wins)",
              f"first case must emit `if` and every later case `elif`; found {h0!r} / {h1!r} "
              f"(independent `if`s would let a later matching case override an earlier one)",
              f"{PYRTL}:{where_if}")
    # the same check list is or-ed
    for t in templates:
        ok = any("' or '.join" in h.src for h in t.holes)
        ctx.check(ok, R, f"_emit_switch:or-join:{(t.parts[0].strip() if isinstance(t.parts[0], str) and t.parts[0].strip() else 'if/elif')}",
                  "patterns of one case are or-ed",
                  f"patterns of one case must be combined with `or`: {t.skeleton()!r}", f"{PYRTL}:{where_if}")
    # None -> True ; empty -> False
    truth = {}
    for st in loop.body:
        if isinstance(st, ast.If):
            for lf in dispatch_leaves([st], guard=_patterns_guard):
                lits = leaf_literals(lf.body, lambda x: x in ("True", "False"))
                if lits:
                    truth[lf.conds] = lits[-1]
    tv = {("none" if any(a[0] == "isnone" for a in k) else "empty" if any(a[0] == "empty" for a in k) else "?"): v
          for k, v in truth.items()}
    ctx.check(tv.get("none") == "True" and tv.get("empty") == "False", R, "_emit_switch:default/never",
              "default (patterns is None) -> True, empty pattern tuple -> False",
              f"default must test True and an empty pattern tuple False; found {tv}", f"{PYRTL}:{loop.lineno}")
    # the match form: `case _:` only under patterns is None
    wild = []
    for c in ast.walk(fn):
        tx = None
        if isinstance(c, ast.Call) and isinstance(c.func, ast.Attribute) and c.func.attr == "append" and c.args:
            tx = const_text(c.args[0])
        elif isinstance(c, ast.Assign):
            tx = const_text(c.value)
        if tx is not None and tx.strip() == "case _:":
            p = pm.get(c)
            while p is not None and not isinstance(p, ast.If):
                p = pm.get(p)
            wild.append(p)
    ok = len(wild) == 1 and wild[0] is not None and pmatch("patterns is None", wild[0].test) is not None
    ctx.check(ok, R, "_emit_switch:match-default", "`case _:` emitted only for the default case",
              "`case _:` (match everything) must be emitted only when patterns is None", f"{PYRTL}:{fn.lineno}")
    # nothing may follow the wildcard pattern in a `match` statement (Python rejects it at compile time): the match-form loop
    # stops after the default case (the later cases are unreachable anyway)
    okb = False
    for lp in ast.walk(fn):
        if isinstance(lp, ast.For) and unparse(lp.iter) == "cases" and any(
                isinstance(x, ast.Call) and dotted(x.func) == "case_handler" for x in ast.walk(lp)):
            for st in lp.body:
                if isinstance(st, ast.If) and pmatch("patterns is None", st.test) is not None and \
                        any(isinstance(x, ast.Break) for x in st.body) and \
                        lp.body.index(st) > max(i_ for i_, y in enumerate(lp.body) if any(
                            isinstance(x, ast.Call) and dotted(x.func) == "case_handler" for x in ast.walk(y))):
                    okb = True
    ctx.check(okb, R, "_emit_switch:match-nothing-after-default", "the match form stops after the default case",
              "in the `match` form nothing may be emitted after `case _:` — Python refuses to compile a match statement whose "
              "wildcard pattern is followed by other patterns, so a Switch with cases after Default() could not be simulated",
              f"{PYRTL}:{fn.lineno}")
    # match form iterates cases in order
    mloops = [n for n in ast.walk(fn) if isinstance(n, ast.For) and unparse(n.iter) == "cases" and
              any(isinstance(x, ast.Call) and dotted(x.func) == "case_handler" for x in ast.walk(n))]
    ctx.check(len(mloops) == 1, R, "_emit_switch:match-order", "cases emitted in source order",
              "match form must iterate `cases` directly, in order", f"{PYRTL}:{fn.lineno}")
    # every caller hands _emit_switch an *unsigned bit pattern* of the test (patterns decode to unsigned integers)
    cls_names = ["_RHSValueCompiler.on_SwitchValue", "_LHSValueCompiler.on_SwitchValue.gen", "_StatementCompiler.on_Switch"]
    for ref in cls_names:
        f3 = model.func(f"{PYRTL}::{ref}")
        calls = [n for n in ast.walk(f3) if isinstance(n, ast.Call) and unparse(n.func) == "self._emit_switch"]
        need(len(calls) == 1, f"{ref}: _emit_switch call not found")
        arg = calls[0].args[0]
        binds = {unparse(s_.targets[0]): s_.value for s_ in ast.walk(f3) if isinstance(s_, ast.Assign) and len(s_.targets) == 1}
        src = binds.get(unparse(arg))
        ok = False
        detail = unparse(src) if src is not None else "?"
        if isinstance(src, ast.Call) and unparse(src.func).endswith("def_var") and len(src.args) == 2:
            t = template_of(src.args[1])
            e = t.as_expr() if t is not None else None
            if e is not None and isinstance(e, ast.BinOp) and isinstance(e.op, ast.BitAnd) and len(t.holes) == 2:
                hm, hv = t.holes
                mw = pmatch("(1 << len(_V_X)) - 1", hm.expr)
                vsrc = binds.get(hv.src, hv.expr)
                vm = pmatch("_V_F(_V_Y)", vsrc)
                ok = mw is not None and vm is not None and unparse(mw["_V_X"]) == unparse(vm["_V_Y"]) and \
                    unparse(vm["_V_F"]) in ("self.rrhs", "self.rhs", "self")
        ctx.check(ok, R, f"{ref}:switch-test-is-bit-pattern", "test = mask(len(test)) & raw(test)",
                  f"the value handed to _emit_switch must be the test's unsigned bit pattern "
                  f"(`(1 << len(test)) - 1 & <raw test>`): patterns are decoded as unsigned integers, so a sign-extended "
                  f"(negative) test never equals them; found {detail}", f"{PYRTL}:{calls[0].lineno}")
    # netlist side: zip(conds, ...) pairs Match outputs with cases in order
    for ref, what in [(f"{IR}::NetlistEmitter.emit_stmt", "case_stmts"), (f"{IR}::NetlistEmitter.emit_assign", "elems"),
                      (f"{IR}::NetlistEmitter.emit_rhs", "elems")]:
        f2 = model.func(ref)
        hits = [n for n in ast.walk(f2) if isinstance(n, ast.Call) and dotted(n.func) == "zip" and len(n.args) == 2
                and unparse(n.args[0]) == "conds"]
        need(hits, f"{ref}: no zip(conds, ...) pairing found")
        # the partner is the per-case list built in the loop that built the patterns, or the case sequence itself
        ok = all(unparse(n.args[1]) == what or (isinstance(n.args[1], ast.Attribute) and n.args[1].attr in ("cases", "_cases"))
                 for n in hits)
        ctx.check(ok, R, f"{ref.split('::')[1]}:zip(conds,{what})",
                  "match outputs paired with cases positionally",
                  f"expected zip(conds, {what}) (or the case sequence itself) pairing match outputs with their cases in order; "
                  f"found {[unparse(n) for n in hits]}", f"{IR}:{f2.lineno}")


def _patterns_guard(test):
    if pmatch("patterns is None", test) is not None:
        return (("isnone",),)
    if pmatch("not patterns", test) is not None:
        return (("empty",),)
    return None


# ----------------------------------------------------------------------------------------------- R-02c

def _tmpl_calls(fn):
    """(call node, template) for emitter.append(...) calls in fn (not nested defs)"""
    out = []
    for n in walk_no_nested(fn):
        if isinstance(n, ast.Call) and isinstance(n.func, ast.Attribute) and n.func.attr == "append" and n.args \
                and unparse(n.func.value).endswith("emitter"):
            t = template_of(n.args[0])
            if t is not None:
                out.append((n, t))
    return out


def r02c(model, ctx):
    R = "R-02c"
    fn = model.func(f"{PYRTL}::_FragmentCompiler.__call__")
    mod = model.mod(PYRTL)
    g = CFG(fn, inline_closures=False)

    def nodes_where(pred):
        return g.nodes_with(pred)

    def is_tmpl(n, starts=None, contains=None):
        if isinstance(n, ast.Call) and isinstance(n.func, ast.Attribute) and n.func.attr == "append" and n.args:
            t = template_of(n.args[0])
            if t is None:
                return False
            sk = t.skeleton()
            return (starts is None or sk.startswith(starts)) and (contains is None or contains in sk)
        return False

    def is_tmpl_deep(n, starts):
        """the template is appended here, or inside a _FragmentCompiler method called from here (extract-method)"""
        if is_tmpl(n, starts):
            return True
        if isinstance(n, ast.Call) and isinstance(n.func, ast.Attribute) and isinstance(n.func.value, ast.Name) and \
                n.func.value.id == "self":
            try:
                callee = model.func_expanded(f"{PYRTL}::_FragmentCompiler.{n.func.attr}")
            except AnalysisError:
                return False
            return any(is_tmpl(x, starts) for x in ast.walk(callee))
        return False

    branch_if = [s for s in ast.walk(fn) if isinstance(s, ast.If) and pmatch('domain_name == "comb"', s.test) is not None]
    need(len(branch_if) == 1, "_FragmentCompiler.__call__: cannot find the comb/sync split")
    bi = branch_if[0]
    in_comb = {id(n) for s in bi.body for n in ast.walk(s) if isinstance(n, ast.stmt)}
    in_sync = {id(n) for s in bi.orelse for n in ast.walk(s) if isinstance(n, ast.stmt)}

    def part(nids, where):
        return [n for n in nids if id(g.stmt[n]) in where]

    init_nodes = nodes_where(lambda n: is_tmpl(n, "next_{0} = "))
    stmt_nodes = nodes_where(lambda n: isinstance(n, ast.Call) and isinstance(n.func, ast.Call)
                             and dotted(n.func.func) == "_StatementCompiler")
    update_nodes = nodes_where(lambda n: is_tmpl(n, "slots[{0}].update("))
    rst_if_nodes = nodes_where(lambda n: is_tmpl(n, "if {0}:") and False)
    need(len(stmt_nodes) == 2, f"expected two _StatementCompiler invocations (comb, sync), found {len(stmt_nodes)}")
    need(update_nodes, "no slots[i].update(...) emission found")
    outer = [nid for nid in g.nodes() if isinstance(g.stmt[nid], ast.For) and unparse(g.stmt[nid].iter) == "domains"]
    need(len(outer) == 1, "outer `for domain_name in domains` loop not found")
    outer = outer[0]

    for label, where in (("comb", in_comb), ("sync", in_sync)):
        st = part(stmt_nodes, where)
        need(len(st) == 1, f"{label}: statement compilation site not unique")
        st = st[0]
        inits = part(init_nodes, where)
        need(inits, f"{label}: no `next_i = ...` default emission found")
        # defaults: the for-loop that emits them dominates the statement compilation
        loops = []
        for nid in inits:
            p = mod.parent(g.stmt[nid])
            while p is not None and not isinstance(p, ast.For):
                p = mod.parent(p)
            loops.append(p)
        default_loops = [nid for nid in g.nodes() if any(g.stmt[nid] is lp for lp in loops)]
        pre = [l for l in default_loops if g.dominates({l}, st) and st not in g.reach([l], blocked={st, outer}) or
               g.dominates({l}, st)]
        pre = [l for l in default_loops if g.dominates({l}, st) and l not in g.after(st, blocked={outer})]
        ctx.check(bool(pre), R, f"_FragmentCompiler:{label}:defaults-before-statements",
                  "the loop emitting `next_i = <default>` dominates statement compilation",
                  f"{label}: defaults (`next_i = ...`) must be emitted before the statements are compiled "
                  f"(otherwise a later default overrides an assignment)", f"{PYRTL}:{g.lineno(st)}")
        # the default's value
        for nid in inits:
            if mod.parent(g.stmt[nid]) is None:
                continue
        # after statements: only the reset block may emit `next_i = `
        late = [n for n in inits if n in g.after(st, blocked={outer})]
        for n in late:
            # must be under `if not signal.reset_less` inside the `if domain.rst is not None` block
            s = g.stmt[n]
            chain = []
            p = mod.parent(s)
            while p is not None and p is not fn:
                if isinstance(p, ast.If):
                    chain.append(unparse(p.test))
                p = mod.parent(p)
            ok = label == "sync" and any("domain.rst is not None" in c for c in chain)
            ctx.check(ok, R, f"_FragmentCompiler:{label}:late-default@{'reset' if ok else 'other'}",
                      "only the domain reset block re-assigns `next_i` after the statements",
                      f"{label}: a `next_i = ...` emission after statement compilation outside the reset block "
                      f"overrides user assignments", f"{PYRTL}:{g.lineno(n)}")
        if label == "sync":
            early = [n for n in inits if n not in late]
            for n in early:
                t = template_of(g.stmt[n].value.args[0]) if isinstance(g.stmt[n], ast.Expr) else None
                sk = t.skeleton() if t is not None else ""
                okv = sk == "next_{0} = slots[{1}].next"
                ctx.check(okv, R, "_FragmentCompiler:sync:default-is-held-value",
                          "sync default is the register's own pending value (hold)",
                          f"sync default must be `slots[i].next` (register holds), found {sk!r}", f"{PYRTL}:{g.lineno(n)}")
            ctx.check(bool(late), R, "_FragmentCompiler:sync:reset-after-statements",
                      "reset block is emitted after the statements (reset wins)",
                      "sync: the reset block must be emitted after the user statements so that reset wins",
                      f"{PYRTL}:{g.lineno(st)}")
        else:
            for n in inits:
                t = template_of(g.stmt[n].value.args[0]) if isinstance(g.stmt[n], ast.Expr) else None
                sk = t.skeleton() if t is not None else ""
                hs = [h.src for h in t.holes] if t is not None else []
                okv = sk == "next_{0} = {1}" and hs[1:] == ["signal.init"]
                ctx.check(okv, R, "_FragmentCompiler:comb:default-is-init",
                          "comb default is the signal's init value",
                          f"comb default must be `signal.init`, found {sk!r} with {hs}", f"{PYRTL}:{g.lineno(n)}")
        # commit after everything
        ups = [u for u in update_nodes]
        okc = all(u in g.after(st, blocked={outer}) and st not in g.after(u, blocked={outer}) for u in ups)
        ctx.check(okc, R, f"_FragmentCompiler:{label}:commit-last",
                  "slots[i].update(next_i, mask) is emitted after statements/reset/memory code",
                  f"{label}: slots[i].update(...) must be emitted after the statements, the reset block and the "
                  f"memory code", f"{PYRTL}:{g.lineno(ups[0])}")
    # memory code in the sync branch comes after statements and reset, before commit
    wr = part(nodes_where(lambda n: is_tmpl_deep(n, "slots[{0}].write(")), in_sync)
    need(len(wr) == 1, "sync memory write emission not found")
    st_sync = part(stmt_nodes, in_sync)[0]
    ctx.check(g.dominates({st_sync}, wr[0]), R, "_FragmentCompiler:sync:memory-after-statements",
              "memory write code is emitted after statement compilation",
              "memory write code must be emitted after the domain's statements", f"{PYRTL}:{g.lineno(wr[0])}")

    # ---- netlist side: reset assignment appended after statement assignments, before emit_value
    fd = model.func_expanded(f"{IR}::NetlistEmitter.emit_drivers", depth=3)
    gd = CFG(fd, inline_closures=False)
    app = gd.nodes_with(lambda n: isinstance(n, ast.Call) and unparse(n.func) == "driver.assignments.append")
    ev = gd.nodes_with(lambda n: isinstance(n, ast.Call) and unparse(n.func) == "driver.emit_value")
    need(len(app) >= 1 and len(ev) == 1, "emit_drivers: reset append / emit_value sites not found")
    inner = [nid for nid in gd.nodes() if isinstance(gd.stmt[nid], ast.For) and unparse(gd.stmt[nid].iter) == "sig_drivers.values()"]
    need(len(inner) == 1, "emit_drivers: per-driver loop not found")
    ok = all(ev[0] in gd.after(a, blocked={inner[0]}) and a not in gd.after(ev[0], blocked={inner[0]}) for a in app)
    ctx.check(ok, R, "emit_drivers:reset-before-emit_value",
              "the reset Assignment is appended before driver.emit_value() within one driver iteration",
              "the sync reset assignment must be appended to driver.assignments before emit_value() consumes them",
              f"{IR}:{gd.lineno(app[0])}")
    ff = model.func(f"{IR}::NetlistEmitter.emit_fragment")
    gf = CFG(ff, inline_closures=False)
    es = gf.nodes_with(lambda n: isinstance(n, ast.Call) and unparse(n.func) == "self.emit_stmt")
    ed = gf.nodes_with(lambda n: isinstance(n, ast.Call) and unparse(n.func) == "self.emit_drivers")
    sub = gf.nodes_with(lambda n: isinstance(n, ast.Call) and unparse(n.func) == "self.emit_fragment")
    need(len(es) == 1 and len(ed) == 1 and len(sub) == 1, "emit_fragment: emit_stmt/emit_drivers/emit_fragment sites")
    ok = gf.dominates({es[0]}, ed[0]) or (ed[0] in gf.after(es[0]) and es[0] not in gf.after(ed[0]))
    ok = ok and ed[0] in gf.after(sub[0]) and sub[0] not in gf.after(ed[0])
    ctx.check(ok, R, "emit_fragment:drivers-after-statements",
              "emit_drivers() runs after all statements of all (sub)fragments were emitted",
              "emit_drivers() must run after every emit_stmt()/sub-fragment emission (it appends the reset last)",
              f"{IR}:{gf.lineno(ed[0])}")
    # NetlistDriver.emit_value iterates assignments in list order
    fv = model.func(f"{IR}::NetlistDriver.emit_value")
    loops = [n for n in ast.walk(fv) if isinstance(n, ast.For) and unparse(n.iter) == "self.assignments"]
    ctx.check(len(loops) == 1, R, "NetlistDriver.emit_value:order", "iterates self.assignments in list order",
              "emit_value must iterate self.assignments directly (program order = priority order)",
              f"{IR}:{fv.lineno}")
    # the "fold into default" shortcut is only legal for the first, unconditional, full-chunk assignment
    from ..engine.norm import linear_rref, poly as _poly, poly_sub as _psub
    fvv = model.func_view(f"{IR}::NetlistDriver.emit_value")
    conds = [n for n in ast.walk(fvv) if isinstance(n, ast.If) and any(
        isinstance(s, ast.Assign) and unparse(s.targets[0]) == "default" for s in n.body)]
    ok = len(conds) == 1
    if ok:
        # the conjunction of the test, as a system of linear equalities (any equivalent system is accepted: e.g.
        # start + len == chunk_end instead of len == chunk_end - chunk_start, given start == chunk_start) plus the
        # "no assignment kept so far" test
        def split(test):
            items = test.values if isinstance(test, ast.BoolOp) and isinstance(test.op, ast.And) else [test]
            eqs, other = [], []
            for it in items:
                if isinstance(it, ast.Compare) and len(it.ops) == 1 and isinstance(it.ops[0], ast.Eq) and \
                        unparse(it) not in ("len(assignments) == 0",):
                    eqs.append(_psub(_poly(it.left), _poly(it.comparators[0])))
                else:
                    tx = unparse(it)
                    other.append("EMPTY(assignments)" if tx in ("len(assignments) == 0", "not assignments", "assignments == []") else tx)
            return linear_rref(eqs), sorted(other)
        want = split(ast.parse("assign.cond == 1 and assign.start == chunk_start and len(assign.value) == chunk_end - chunk_start "
                               "and len(assignments) == 0", mode="eval").body)
        ok = split(conds[0].test) == want
    ctx.check(ok, R, "NetlistDriver.emit_value:default-fold",
              "an assignment replaces the default only if unconditional, full-chunk and first",
              "folding an assignment into the default is only sound when it is unconditional, covers the whole chunk "
              "and no earlier assignment was kept", f"{IR}:{fv.lineno}")


# ----------------------------------------------------------------------------------------------- R-02d

def r02d(model, ctx):
    R = "R-02d"
    # emit_stmt: Assign branch
    fn, lvs = interp.leaves(model, f"{IR}::NetlistEmitter.emit_stmt")
    lf = select_leaf(lvs, {"class": "Assign"})
    need(handled(lf), "emit_stmt has no Assign branch")
    paths = run_paths(lf.body)
    calls = []
    for p in paths:
        for e in p.effects:
            for n in ast.walk(e):
                if isinstance(n, ast.Call) and unparse(n.func) == "self.emit_assign":
                    calls.append((p, n))
    need(calls, "emit_stmt Assign branch: emit_assign call not found")
    S = "self.emit_rhs(module_idx, stmt.rhs)"
    seen_ext = seen_trunc = False
    okall = True
    for p, c in calls:
        rhs = c.args[4] if len(c.args) > 4 else None
        need(rhs is not None, "emit_assign call shape changed")
        txt = unparse(rhs)
        start = unparse(c.args[3])
        okall = okall and start == "0" and unparse(c.args[2]) == "stmt.lhs"
        for n in ast.walk(rhs):
            m = pmatch("self.extend(_V_R, _V_S, _V_W)", n)
            if m is not None:
                seen_ext = True
                okall = okall and unparse(m["_V_S"]) == f"{S}[1]" and f"{S}[0]" in unparse(m["_V_R"]) \
                    and unparse(m["_V_W"]) == "len(stmt.lhs)"
            m = pmatch("_V_R[:_V_W]", n)
            if m is not None and unparse(m["_V_W"]) == "len(stmt.lhs)":
                seen_trunc = True
    ctx.check(okall and seen_ext and seen_trunc, R, "emit_stmt:Assign",
              "RHS truncated to len(lhs) or extended with the signedness returned with it, window starts at 0",
              f"emit_stmt must truncate the RHS to len(stmt.lhs) or extend it with its *own* signedness "
              f"(the second element of the same emit_rhs result) and start the window at 0; "
              f"extend seen={seen_ext}, truncate seen={seen_trunc}, pairing ok={okall}", f"{IR}:{lf.lineno}")

    # emit_rhs / unify_shapes_bitwise: partner tracking
    fn = model.func(f"{IR}::NetlistEmitter.emit_rhs")
    _, lvs = interp.leaves(model, f"{IR}::NetlistEmitter.emit_rhs")
    n_ext = 0
    for lf in lvs:
        partner = {}
        for s in lf.prelude + lf.body:
            for st in ([s] if not isinstance(s, ast.If) else list(ast.walk(s))):
                pass
        for st in _linear(lf.prelude + lf.body):
            if isinstance(st, ast.Assign) and len(st.targets) == 1 and isinstance(st.targets[0], ast.Tuple):
                names = [e.id if isinstance(e, ast.Name) else None for e in st.targets[0].elts]
                v = st.value
                if isinstance(v, ast.Call) and unparse(v.func) == "self.emit_rhs" and len(names) == 2 and all(names):
                    partner[names[0]] = names[1]
                elif isinstance(v, ast.Call) and unparse(v.func) == "self.unify_shapes_bitwise" and len(names) == 3:
                    a, sa, b, sb = [unparse(x) for x in v.args]
                    ok = partner.get(a) == sa and partner.get(b) == sb
                    ctx.check(ok, R, f"emit_rhs:unify({a},{sa},{b},{sb})@{_opkey(lf)}",
                              "operands passed with their own signedness",
                              f"unify_shapes_bitwise({a}, {sa}, {b}, {sb}): each operand must be passed with the "
                              f"signedness returned with it (partners: {partner})", f"{IR}:{st.lineno}")
                    partner[names[0]] = names[2]
                    partner[names[1]] = names[2]
            for n in ast.walk(st):
                m = pmatch("self.extend(_V_X, _V_S, _V_W)", n)
                if m is not None and isinstance(m["_V_X"], ast.Name):
                    x, sg = m["_V_X"].id, unparse(m["_V_S"])
                    if x in partner:
                        n_ext += 1
                        ctx.check(partner[x] == sg, R, f"emit_rhs:extend({x},{sg})@{_opkey(lf)}",
                                  f"{x} extended with its own signedness {sg}",
                                  f"extend({x}, {sg}, ..): `{x}` was produced with signedness `{partner[x]}`; "
                                  f"extending with another flag zero-/sign-extends wrongly", f"{IR}:{n.lineno}")
    need(n_ext >= 6, f"emit_rhs: only {n_ext} extend() sites with a tracked partner")
    fu = model.func(f"{IR}::NetlistEmitter.unify_shapes_bitwise")
    for a, sa in (("operand_a", "signed_a"), ("operand_b", "signed_b")):
        hits = [n for n in ast.walk(fu) if pmatch(f"self.extend({a}, _V_S, shape.width)", n) is not None]
        ok = len(hits) == 1 and unparse(pmatch(f"self.extend({a}, _V_S, shape.width)", hits[0])["_V_S"]) == sa
        ctx.check(ok, R, f"unify_shapes_bitwise:{a}", f"extended with {sa} to the unified width",
                  f"unify_shapes_bitwise must extend {a} with {sa} to shape.width", f"{IR}:{fu.lineno}")
    # extend(): sign extension replicates the MSB, zero extension appends const 0
    fe = model.func(f"{IR}::NetlistEmitter.extend")
    # the fill bit is chosen by `signed`: nets[-1] (the MSB) when signed, constant 0 otherwise — as an if statement around
    # the appends or as a conditional expression; other ways of choosing the fill are not understood (exit 2)
    sel_if = [s for s in ast.walk(fe) if isinstance(s, ast.If) and unparse(s.test) in ("signed", "not signed")]
    sel_exp = [s for s in ast.walk(fe) if isinstance(s, ast.IfExp) and unparse(s.test) in ("signed", "not signed")]
    need(len(sel_if) + len(sel_exp) == 1, "NetlistEmitter.extend: the choice of the fill bit by `signed` was not found")
    MSB, ZERO = "nets[-1]", "_nir.Net.from_const(0)"
    if sel_if:
        neg = unparse(sel_if[0].test) != "signed"
        def appended(stmts):
            return [unparse(c.args[0]) for st in stmts for c in ast.walk(st)
                    if isinstance(c, ast.Call) and unparse(c.func) == "nets.append" and len(c.args) == 1]
        a, b = appended(sel_if[0].body), appended(sel_if[0].orelse)
        if neg:
            a, b = b, a
        ok = a == [MSB] and b == [ZERO]
    else:
        neg = unparse(sel_exp[0].test) != "signed"
        a, b = unparse(sel_exp[0].body), unparse(sel_exp[0].orelse)
        if neg:
            a, b = b, a
        ok = a == MSB and b == ZERO
    ctx.check(ok, R, "NetlistEmitter.extend", "signed: replicate MSB; unsigned: append 0",
              "extend() must replicate nets[-1] when signed and append constant 0 otherwise", f"{IR}:{fe.lineno}")

    # simulator: on_Assign hands the RHS normalised in its own shape to the LHS generator
    fa = model.func(f"{PYRTL}::_StatementCompiler.on_Assign")
    ok = any(pmatch("self.lhs(stmt.lhs)(self.rhs.sign(stmt.rhs))", n) is not None for n in ast.walk(fa))
    if not ok:
        # the same call spelt through locals: the path's result / last call after substitution
        ps_ = [p_ for p_ in run_paths([b for b in fa.body if not (isinstance(b, ast.Expr) and isinstance(b.value, ast.Constant))])
               if p_.how != "raise"]
        ok = bool(ps_)
        for p_ in ps_:          # on every path
            cands = ([p_.ret] if p_.ret is not None else []) + [e for e in p_.effects if isinstance(e, ast.Call)]
            ok = ok and any(pmatch("self.lhs(stmt.lhs)(self.rhs.sign(stmt.rhs))", c) is not None for c in cands)
    ctx.check(ok, R, "_StatementCompiler.on_Assign", "lhs-gen(stmt.lhs)(sign(stmt.rhs))",
              "on_Assign must pass self.rhs.sign(stmt.rhs) (the RHS normalised in its own shape) to the LHS generator",
              f"{PYRTL}:{fa.lineno}")
    # LHS on_Signal: mask to target width, sign-fold iff target signed
    fs = model.func(f"{PYRTL}::_LHSValueCompiler.on_Signal.gen")
    ifs = [s for s in fs.body if isinstance(s, ast.If) and unparse(s.test) == "value.shape().signed"]
    # the signed/unsigned split inside gen() is the shape this rule reads; built elsewhere (hoisted prefix/suffix strings,
    # a helper) it is not decided here
    need(len(ifs) == 1 and ifs[0].body and ifs[0].orelse and isinstance(ifs[0].body[0], ast.Assign) and isinstance(ifs[0].orelse[0], ast.Assign),
         "_LHSValueCompiler.on_Signal.gen: the signed/unsigned split of the stored value was not found")
    ok = len(ifs) == 1
    if ok:
        ts = template_of(ifs[0].body[0].value)
        tu = template_of(ifs[0].orelse[0].value)
        need(ts is not None and tu is not None, "_LHSValueCompiler.on_Signal.gen: the value templates were not recognised")
        ok = ts is not None and tu is not None
        if ok:
            es, eu = ts.as_expr(), tu.as_expr()
            ms = pmatch("sign(__H0__ & __H1__, __H2__)", es) if es is not None else None
            mu = pmatch("__H0__ & __H1__", eu) if eu is not None else None
            ok = ms is not None and mu is not None and ts.holes[0].src == "value_mask" and ts.holes[1].src == "arg" \
                and ts.holes[2].src == "-1 << len(value) - 1" and tu.holes[0].src == "value_mask" and tu.holes[1].src == "arg"
            vm = [s for s in fs.body if isinstance(s, ast.Assign) and unparse(s.targets[0]) == "value_mask"]
            ok = ok and len(vm) == 1 and unparse(vm[0].value) == "(1 << len(value)) - 1"
    ctx.check(ok, R, "_LHSValueCompiler.on_Signal", "mask(len(target)) & arg; sign-fold at bit len-1 iff target signed",
              "LHS on_Signal must mask the value to the target's width and sign-fold with -1 << (len-1) iff the "
              "target is signed", f"{PYRTL}:{fs.lineno}")


def _linear(stmts):
    """statements in source order, descending into if/for bodies (for partner tracking: branch-insensitive)"""
    for s in stmts:
        yield s
        for f in ("body", "orelse"):
            b = getattr(s, f, None)
            if isinstance(b, list) and b and isinstance(b[0], ast.stmt) and not isinstance(s, (ast.FunctionDef,)):
                yield from _linear(b)


def _opkey(lf):
    ks = []
    for a in lf.conds:
        if a[0] == "op":
            ks.append("/".join(sorted(a[2])))
        if a[0] == "isinstance":
            ks.append("/".join(sorted(a[2])))
        if a[0] == "arity":
            ks.append(str(a[2]))
    return ",".join(ks)


# ----------------------------------------------------------------------------------------------- R-02e

def _entry_clip(fn, startname, lenexpr_options):
    """Guard at function entry that re-establishes  start + LEN <= len(lhs)  for *every* node kind:
         if start >= len(lhs): return
         if start + LEN > len(lhs): LEN/rhs clipped to len(lhs) - start
    Returns (found, detail)."""
    pre = []
    for s in fn.body:
        if isinstance(s, ast.If) and interp_dispatch_guard(s.test):
            break
        pre.append(s)
    ret_guard = False
    clip = False
    for s in pre:
        if isinstance(s, ast.If):
            cn = compare_norm(s.test)
            if cn is None:
                continue
            p, op = cn
            ref = poly_sub(poly(ast.parse(startname, mode="eval").body), poly(ast.parse("len(lhs)", mode="eval").body))
            if p == ref and op in (">=", ">") and terminates(s.body):
                ret_guard = True
            for le in lenexpr_options:
                ref2 = poly_sub(poly(ast.parse(f"{startname} + {le}", mode="eval").body),
                                poly(ast.parse("len(lhs)", mode="eval").body))
                if p == ref2 and op in (">", ">="):
                    txt = " ".join(unparse(x) for x in s.body)
                    if f"len(lhs) - {startname}" in txt:
                        clip = True
    return ret_guard and clip, f"return-guard={ret_guard}, clip={clip}"


def interp_dispatch_guard(test):
    from ..engine.astutil import parse_guard
    return parse_guard(test) is not None


def _recursive_calls(stmts, fname):
    out = []
    for s in stmts:
        for n in ast.walk(s):
            if isinstance(n, ast.Call) and (dotted(n.func) == fname or dotted(n.func) == "self." + fname):
                out.append(n)
    return out


def r02e(model, ctx):
    R = "R-02e"
    walkers = [
        # name, ref, rel, start param, index of (lhs, start, rhs) in the recursive call, LEN expressions
        ("_eval_assign_inner", f"{PYEVAL}::_eval_assign_inner", PYEVAL, "lhs_start", (1, 2, 3, 4), ["rhs_len"]),
        ("emit_assign", f"{IR}::NetlistEmitter.emit_assign", IR, "lhs_start", (2, 3, 4, None), ["len(rhs)"]),
    ]
    for name, ref, rel, startname, (i_lhs, i_start, i_rhs, i_len), lens in walkers:
        fn, lvs = interp.leaves(model, ref)
        entry, detail = _entry_clip(fn, startname, lens)
        L = lens[0]
        if entry:
            ctx.ok(R, f"{name}:entry-clip", f"window clipped against len(lhs) on entry for every node kind ({detail})",
                   f"{rel}:{fn.lineno}")
        for kind, op in [("Operator", "u"), ("Slice", None), ("Concat", None), ("Part", None), ("SwitchValue", None)]:
            lf = select_leaf(lvs, _env(kind, op))
            need(handled(lf), f"{name}: no branch for {kind}")
            calls = _recursive_calls(lf.body, name)
            need(calls, f"{name}: {kind} branch makes no recursive call")
            cons = f"{name}:{kind}"
            where = f"{rel}:{lf.lineno}"
            if kind == "Operator":
                c = calls[0]
                ok = unparse(c.args[i_lhs]) == "lhs.operands[0]" and unparse(c.args[i_start]) == startname and \
                    unparse(c.args[i_rhs]) == "rhs"
                ctx.check(ok, R, cons, "same window handed to the operand (same width)",
                          f"u/s reinterpretation must hand the same window to its operand, found "
                          f"{unparse(c)}", where)
            elif kind == "Slice":
                c = calls[0]
                ok = unparse(c.args[i_lhs]) == "lhs.value" and \
                    poly(c.args[i_start]) == poly(ast.parse(f"{startname} + lhs.start", mode="eval").body) and \
                    unparse(c.args[i_rhs]) == "rhs"
                ctx.check(ok, R, cons, "window shifted by slice.start; containment follows from the entry invariant",
                          f"Slice must descend with start + lhs.start and the same rhs, found {unparse(c)}", where)
            elif kind == "Concat":
                _check_concat_window(ctx, R, cons, where, lf, name, startname, L, i_lhs, i_start, i_rhs, i_len)
            elif kind == "Part":
                if entry:
                    ctx.ok(R, cons, "narrowing descent covered by the entry clip", where)
                    continue
                ok, why = _part_clip(lf, name, startname, L, i_lhs, i_start, i_rhs, i_len)
                ctx.check(ok, R, cons, "window clipped against len(lhs.value) before descending",
                          f"part-select target: the window [start+offset, +len) is handed to lhs.value without being "
                          f"clipped against len(lhs.value) ({why}); bits outside the selected value can be written "
                          f"(e.g. through a Slice or Concat underneath)", where)
            elif kind == "SwitchValue":
                if entry:
                    ctx.ok(R, cons, "narrowing descent covered by the entry clip", where)
                    continue
                ok, why = _switch_clip(lf, name, startname, L, i_lhs, i_start, i_rhs, i_len)
                ctx.check(ok, R, cons, "window clipped against len(case value) before descending",
                          f"array/choice target: an element narrower than the unified shape receives a window that is "
                          f"not clipped against len(element) - {startname} ({why})", where)
        # leaf (Signal) clipping: bits beyond the signal are dropped
        lf = select_leaf(lvs, _env("Signal"))
        if name == "_eval_assign_inner":
            paths = run_paths(lf.body)
            okc = any(p.how == "return" and any(pol and compare_norm(t) and compare_norm(t)[1] == ">=" and
                                                compare_norm(t)[0] == poly_sub(poly(ast.parse("lhs_start", mode="eval").body),
                                                                               poly(ast.parse("len(lhs)", mode="eval").body))
                                                for t, pol in p.conds) for p in paths)
            ctx.check(okc or entry, R, f"{name}:Signal:drop-outside",
                      "a window starting beyond the signal is dropped",
                      "Signal leaf must return when lhs_start >= len(lhs)", f"{rel}:{lf.lineno}")


def _case_truth(conds, c_ref):
    """truth value of reference comparison c_ref=(poly, op) on a path with conds [(test, pol)], or None"""
    for t, pol in conds:
        cn = compare_norm(t)
        if cn is None:
            continue
        p, op = cn
        if p == c_ref[0]:
            if op == c_ref[1]:
                return pol
            if op == negate_op(c_ref[1]):
                return not pol
    return None


def _P(src):
    return poly(ast.parse(src, mode="eval").body)


def _neg(p):
    return {m: -c for m, c in p.items()}


def _sign_under(p, facts):
    """sign information of polynomial p under facts [(poly, kind)], kind in {"neg", "nonneg", "pos", "nonpos"}; returns one
    of those kinds or None"""
    if not p:
        return "zero"
    if list(p.keys()) == [()]:
        return "pos" if p[()] > 0 else "neg"
    flip = {"neg": "pos", "pos": "neg", "nonneg": "nonpos", "nonpos": "nonneg"}
    for q, kind in facts:
        if p == q:
            return kind
        if p == _neg(q):
            return flip[kind]
    return None


class _MinMax(ast.NodeTransformer):
    """replace min(a, b) / max(a, b) by the argument the facts select; records undecidable ones"""
    def __init__(self, facts):
        self.facts, self.unknown = facts, []

    def visit_Call(self, node):
        node = self.generic_visit(node)
        fn = dotted(node.func)
        if fn in ("min", "max") and len(node.args) == 2 and not node.keywords:
            a, b = node.args
            sg = _sign_under(poly_sub(poly(a), poly(b)), self.facts)
            if sg is None:
                self.unknown.append(unparse(node))
                return node
            a_ge_b = sg in ("pos", "nonneg", "zero")
            if fn == "max":
                return a if a_ge_b else b
            return b if a_ge_b else a
        return node


def _truth_under(test, facts):
    """three-valued truth of a (possibly compound) arithmetic comparison under sign facts"""
    if isinstance(test, ast.BoolOp):
        vals = [_truth_under(v, facts) for v in test.values]
        if isinstance(test.op, ast.And):
            if any(v is False for v in vals):
                return False
            return True if all(v is True for v in vals) else None
        if any(v is True for v in vals):
            return True
        return False if all(v is False for v in vals) else None
    if isinstance(test, ast.UnaryOp) and isinstance(test.op, ast.Not):
        v = _truth_under(test.operand, facts)
        return None if v is None else not v
    cn = compare_norm(test)
    if cn is None:
        return None
    pol_, op = cn
    sg = _sign_under(pol_, facts)
    if sg is None:
        return None
    table = {
        "<": {"neg": True, "nonneg": False, "pos": False, "zero": False},
        "<=": {"neg": True, "nonpos": True, "pos": False, "zero": True},
        ">": {"pos": True, "nonpos": False, "neg": False, "zero": False},
        ">=": {"pos": True, "nonneg": True, "neg": False, "zero": True},
        "==": {"pos": False, "neg": False, "zero": True},
        "!=": {"pos": True, "neg": True, "zero": False},
    }
    return table[op].get(sg)


def _check_concat_window(ctx, R, cons, where, lf, name, startname, L, i_lhs, i_start, i_rhs, i_len):
    """Concat target: every part receives the intersection of the written window with its own extent.  The four cases
    (window starts before the part or not; reaches the part's end or not) are checked against
        part window start = max(start - ps, 0), rhs start = max(ps - start, 0), rhs stop = min(len, pe - start)
    whether the code enumerates them with if/else or computes them with min()/max()."""
    loops = [s for s in lf.body if isinstance(s, ast.For)]
    need(len(loops) == 1 and unparse(loops[0].iter) == "lhs.parts", f"{cons}: loop over lhs.parts not found")
    loop = loops[0]
    pre = lf.body[:lf.body.index(loop)]
    accs = [unparse(s.targets[0]) for s in pre if isinstance(s, ast.Assign) and unparse(s.targets[0]) in ("part_stop", "part_start")
            and const_int(s.value) == 0]
    need(len(accs) == 1, f"{cons}: the running part position (part_stop = 0 / part_start = 0 before the loop) was not found")
    acc = accs[0]
    prepaths = run_paths([s for s in pre if not (isinstance(s, ast.Assign) and unparse(s.targets[0]) == acc)])
    need(len(prepaths) == 1, f"{cons}: branching code before the loop over lhs.parts")
    env0 = dict(prepaths[0].env)
    env0[acc] = ast.Name(id="PREV", ctx=ast.Load())
    paths = run_paths(loop.body, env0)
    S = startname
    c1p = _P(f"{S} - PREV")                          # < 0: the window starts before the part
    c2p = _P(f"{S} + {L} - PREV - len(part)")        # >= 0: the window reaches the part's end
    ov1 = (_P(f"{S} - PREV - len(part)"), "neg")     # overlap: start < part end
    ov2 = (_P(f"{S} + {L} - PREV"), "pos")           # overlap: window end > part start
    skip_a_facts = [(_P(f"{S} - PREV - len(part)"), "nonneg")]
    skip_b_facts = [(_P(f"{S} + {L} - PREV"), "nonpos")]
    bad = []
    checked = set()
    saw_skip = {"a": False, "b": False}
    called_paths = []
    for p in paths:
        calls = [n for e in p.effects for n in ast.walk(e)
                 if isinstance(n, ast.Call) and dotted(n.func) in (name, "self." + name)]
        if not calls:
            # a path that does nothing for this part: it must be one of the two disjointness situations
            for key, facts in (("a", skip_a_facts), ("b", skip_b_facts)):
                if all(_truth_under(t, facts) in (pol, None) for t, pol in p.conds) and \
                        any(_truth_under(t, facts) == pol for t, pol in p.conds):
                    saw_skip[key] = True
            continue
        called_paths.append(p)
        c = calls[0]
        for t1 in (True, False):
            for t2 in (True, False):
                facts = [(c1p, "neg" if t1 else "nonneg"), (c2p, "nonneg" if t2 else "neg"), ov1, ov2]
                if any(_truth_under(t, facts) not in (pol, None) for t, pol in p.conds):
                    continue        # this case does not take this path
                ref_lstart = _P("0") if t1 else _P(f"{S} - PREV")
                ref_rstart = _P(f"PREV - {S}") if t1 else _P("0")
                ref_rstop = _P(f"PREV + len(part) - {S}") if t2 else _P(L)
                mmx = _MinMax(facts)
                import copy as _copy
                args = [mmx.visit(_copy.deepcopy(a_)) for a_ in c.args]
                if mmx.unknown:
                    raise AnalysisError(f"{where}: cannot decide {mmx.unknown[0]} in the Concat window arithmetic")
                tag = f"case(before={t1},reaches_end={t2})"
                checked.add((t1, t2))
                if unparse(args[i_lhs]) != "part":
                    bad.append(f"descends into {unparse(args[i_lhs])}, expected part")
                if poly(args[i_start]) != ref_lstart:
                    bad.append(f"{tag}: part window start {poly_text(poly(args[i_start]))} != {poly_text(ref_lstart)}")
                rhs = args[i_rhs]
                if i_len is None:
                    m = pmatch("rhs[_V_A:_V_B]", rhs)
                    if m is None:
                        bad.append(f"rhs argument {unparse(rhs)} is not rhs[a:b]")
                    else:
                        if poly(m["_V_A"]) != ref_rstart:
                            bad.append(f"{tag}: rhs slice start {poly_text(poly(m['_V_A']))} != {poly_text(ref_rstart)}")
                        if poly(m["_V_B"]) != ref_rstop:
                            bad.append(f"{tag}: rhs slice stop {poly_text(poly(m['_V_B']))} != {poly_text(ref_rstop)}")
                else:
                    ref_len = poly_sub(ref_rstop, ref_rstart)
                    if poly(args[i_len]) != ref_len:
                        bad.append(f"{tag}: part rhs length {poly_text(poly(args[i_len]))} != {poly_text(ref_len)}")
                    m = pmatch("rhs >> _V_A & (1 << _V_N) - 1", rhs)
                    if m is None:
                        bad.append(f"rhs argument {unparse(rhs)} is not (rhs >> a) & mask(n)")
                    else:
                        if poly(m["_V_A"]) != ref_rstart:
                            bad.append(f"{tag}: rhs shift {poly_text(poly(m['_V_A']))} != {poly_text(ref_rstart)}")
                        if poly(m["_V_N"]) != ref_len:
                            bad.append(f"{tag}: rhs mask width {poly_text(poly(m['_V_N']))} != {poly_text(ref_len)}")
    need(len(checked) == 4, f"{cons}: expected 4 window cases, analysed {sorted(checked)}")
    ok = not bad and saw_skip["a"] and saw_skip["b"]
    ctx.check(ok, R, cons, "four window cases equal max(start-ps,0) / max(ps-start,0) / min(len, pe-start); "
                           "disjoint parts skipped",
              f"Concat window arithmetic deviates from the reference: {sorted(set(bad)) or ''} skip-before={saw_skip['a']} "
              f"skip-after={saw_skip['b']}", where)
    # the running position advances by len(part) on every path through the loop body, skipped parts included
    okacc = bool(paths)
    for p in paths:
        if p.how not in ("fall", "continue"):
            continue
        e_ = p.env.get(acc)
        okacc = okacc and e_ is not None and poly(e_) == _P("PREV + len(part)")
    ctx.check(okacc, R, cons + ":accumulator", "the part position advances by len(part) for every part",
              f"Concat part bounds must accumulate (start = previous stop, stop = start + len(part)) for every part, also the "
              f"skipped ones; `{acc}` after one iteration: {sorted({unparse(p.env.get(acc)) for p in paths if p.env.get(acc) is not None})}", where)


def _part_clip(lf, name, startname, L, i_lhs, i_start, i_rhs, i_len):
    """per-branch clip for Part: on every path reaching the recursive call, `S >= W` was tested false with
    W == len(lhs.value), and when S + LEN may exceed W the rhs is rhs[:W - S]."""
    body = lf.body
    loops = [s for s in body if isinstance(s, ast.For) and _recursive_calls([s], name)]
    if loops:
        pre = body[:body.index(loops[0])]
        prepaths = run_paths(pre)
        env = prepaths[0].env if prepaths else {}
        paths = run_paths(loops[0].body, env)
    else:
        paths = run_paths(body)
    Wp = _P("len(lhs.value)")
    reached = 0
    for p in paths:
        calls = [n for e in p.effects for n in ast.walk(e)
                 if isinstance(n, ast.Call) and dotted(n.func) in (name, "self." + name)]
        if p.ret is not None:
            calls += [n for n in ast.walk(p.ret) if isinstance(n, ast.Call) and dotted(n.func) in (name, "self." + name)]
        if not calls:
            continue
        reached += 1
        c = calls[0]
        S = c.args[i_start]
        Sp = poly(S)
        guard = (poly_sub(Sp, Wp), ">=")
        cn = compare_norm(ast.Compare(left=ast.Constant(0), ops=[ast.GtE()], comparators=[ast.Constant(0)]))
        g = None
        for t, pol in p.conds:
            cmpn = compare_norm(t)
            if cmpn and cmpn[0] == guard[0] and ((cmpn[1] == ">=" and not pol) or (cmpn[1] == "<" and pol)):
                g = True
        if not g:
            return False, f"no `{unparse(S)} >= len(lhs.value)` skip before {unparse(c)}"
        # overflow handling
        over = None
        for t, pol in p.conds:
            cmpn = compare_norm(t)
            if cmpn and cmpn[0] == poly_sub(poly(ast.parse(f"X + {L}", mode="eval").body), {}) and False:
                pass
        rhs = c.args[i_rhs]
        tover = _case_truth(p.conds, compare_norm(ast.parse(f"({unparse(S)}) + {L} >= len(lhs.value)", mode="eval").body))
        if tover is None:
            tover = _case_truth(p.conds, compare_norm(ast.parse(f"({unparse(S)}) + {L} > len(lhs.value)", mode="eval").body))
        if tover is None:
            return False, f"no test of `{unparse(S)} + {L}` against len(lhs.value) before {unparse(c)}"
        if tover:
            m = pmatch("rhs[:_V_N]", rhs)
            if i_len is None:
                if m is None or poly(m["_V_N"]) != poly_sub(Wp, Sp):
                    return False, f"overflowing window passes {unparse(rhs)}, expected rhs[:len(lhs.value) - start]"
            else:
                if poly(c.args[i_len]) != poly_sub(Wp, Sp):
                    return False, f"overflowing window passes length {unparse(c.args[i_len])}"
    if reached == 0:
        return False, "no recursive call reached"
    return True, ""


def _switch_clip(lf, name, startname, L, i_lhs, i_start, i_rhs, i_len):
    calls = _recursive_calls(lf.body, name)
    c = calls[0]
    child = unparse(c.args[i_lhs])
    rhs = c.args[i_rhs]
    if i_len is None:
        m = pmatch("rhs[:_V_N]", rhs)
        if m is None:
            return False, f"rhs handed on unclipped ({unparse(rhs)})"
        want = poly_sub(_P(f"len({child})"), _P(startname))
        got = poly(m["_V_N"])
        if got == want:
            return True, ""
        # max(len(child) - start, 0) also fine
        mm = pmatch(f"max(_V_A, 0)", m["_V_N"])
        if mm is not None and poly(mm["_V_A"]) == want:
            return True, ""
        return False, f"rhs clipped to {unparse(m['_V_N'])} bits, which ignores {startname}: expected len({child}) - {startname}"
    else:
        got = poly(c.args[i_len])
        want = poly_sub(_P(f"len({child})"), _P(startname))
        txt = unparse(c.args[i_len])
        if got == want or f"len({child}) - {startname}" in txt:
            return True, ""
        return False, f"length {txt} handed on unclipped against len({child})"


# ----------------------------------------------------------------------------------------------- R-02g

def masked_merges(root):
    """All  (old & ~M) | (new & M)  sub-expressions in any operand order; returns [(old, M, new)]."""
    out = []
    for n in ast.walk(root):
        if not (isinstance(n, ast.BinOp) and isinstance(n.op, ast.BitOr)):
            continue
        for a, b in ((n.left, n.right), (n.right, n.left)):
            if not (isinstance(a, ast.BinOp) and isinstance(a.op, ast.BitAnd) and
                    isinstance(b, ast.BinOp) and isinstance(b.op, ast.BitAnd)):
                continue
            for old, inv in ((a.left, a.right), (a.right, a.left)):
                if isinstance(inv, ast.UnaryOp) and isinstance(inv.op, ast.Invert):
                    M = inv.operand
                    for new, m2 in ((b.left, b.right), (b.right, b.left)):
                        if dump(m2) == dump(M):
                            out.append((old, M, new))
    return out


def r02g(model, ctx):
    R = "R-02g"
    # LHS on_Slice / on_Part templates
    for meth, shift_src in (("on_Slice", "value.start"), ("on_Part", "offset")):
        fn = model.func(f"{PYRTL}::_LHSValueCompiler.{meth}.gen")
        tmpls = [template_of(n.args[0]) for n in ast.walk(fn)
                 if isinstance(n, ast.Call) and isinstance(n.func, ast.Call) and len(n.args) == 1
                 and template_of(n.args[0]) is not None]
        need(len(tmpls) == 1, f"_LHSValueCompiler.{meth}: read-modify-write template not found")
        t = tmpls[0]
        e = t.as_expr()
        need(e is not None, f"{meth}: RMW template does not parse: {t.skeleton()!r}")
        binds = {s.targets[0].id: s.value for s in fn.body if isinstance(s, ast.Assign) and isinstance(s.targets[0], ast.Name)}

        def hole_src(n):
            h = t.hole_by_name(n.id) if isinstance(n, ast.Name) else None
            x = None if h is None else h.expr
            # a hole that is a plain local of gen(): the expression the local was bound to (e.g. a hoisted clear mask)
            if isinstance(x, ast.Name) and x.id in binds and not isinstance(binds[x.id], ast.Name) and \
                    x.id not in ("width_mask", "offset_mask", "offset"):
                x = binds[x.id]
            return x

        ok, why = False, ""
        m = pmatch("_V_OLD & _V_CLR | (_V_M & _V_NEW) << _V_SH", e)
        if m is not None:
            old, clr, msk, new, sh = (m[k] for k in ("_V_OLD", "_V_CLR", "_V_M", "_V_NEW", "_V_SH"))
            mask_e = hole_src(msk)
            sh_e = hole_src(sh)
            # clear mask: either a hole ~(mask << shift) or code ~(H << H)
            if isinstance(clr, ast.Name):
                ce = hole_src(clr)
                cm = pmatch("~(_V_M2 << _V_S2)", ce) if ce is not None else None
                ok = cm is not None and mask_e is not None and sh_e is not None and \
                    dump(cm["_V_M2"]) == dump(mask_e) and dump(cm["_V_S2"]) == dump(sh_e)
                why = f"clear mask {unparse(ce) if ce is not None else '?'} vs set mask {unparse(mask_e) if mask_e is not None else '?'} << {unparse(sh_e) if sh_e is not None else '?'}"
            else:
                cm = pmatch("~(_V_M2 << _V_S2)", clr)
                ok = cm is not None and dump(hole_src(cm["_V_M2"])) == dump(mask_e) and \
                    dump(hole_src(cm["_V_S2"])) == dump(sh_e)
                why = f"clear mask {unparse(clr)}"
            ok = ok and hole_src(new) is not None and unparse(hole_src(new)) == "arg" and \
                unparse(hole_src(old)) == "self.lrhs(value.value)" and unparse(sh_e) == shift_src
            # the mask is the width mask of the selected window
            W = pyrtl_common.mask_width(mask_e, binds) if mask_e is not None else None
            wtxt = unparse(W) if W is not None else None
            # (len(slice) is stop - start: Slice.shape, R-01e)
            ok = ok and wtxt in (("value.stop - value.start", "len(value)") if meth == "on_Slice" else ("value.width",))
        ctx.check(ok, R, f"_LHSValueCompiler.{meth}", "(old & ~(M << S)) | ((M & new) << S) with one M and one S",
                  f"read-modify-write must clear and set the same window: (old & ~(M << S)) | ((M & new) << S); "
                  f"template {t.skeleton()!r}; {why}", f"{PYRTL}:{fn.lineno}")

    # straight-line merges: final value of a variable has the form  old & ~M | new & M
    PYSIM = "amaranth/sim/pysim.py"
    sites = [
        ("_eval_assign_inner:Signal", f"{PYEVAL}::_eval_assign_inner", PYEVAL, "Signal", "value"),
    ]
    from . import c05
    c05.compare_assign_leaf(model, ctx, R, "_eval_assign_inner:Signal", "Signal", c05.REF_ASSIGN_SIGNAL,
                            "next & ~mask | (rhs << start) & mask, mask = (1<<stop)-(1<<start)",
                            "A testbench signal write must merge (old & ~mask) | ((rhs << lhs_start) & mask) into the pending value "
                            "with one mask built from lhs_start/lhs_stop.")
    # pending-value merges of the simulator state objects, compared as whole-method summaries with reference semantics
    from ..engine import refsem
    for ref, label, refsrc, why in [
        (f"{PYSIM}::_PySignalState.update", "_PySignalState.update", REF_SIGNAL_UPDATE,
         "A partial write must merge into the *pending* value self.next with complementary polarity of one mask, so that "
         "several partial writes within one delta cycle accumulate."),
        (f"{PYSIM}::_PyMemoryState.write", "_PyMemoryState.write", REF_MEMORY_WRITE,
         "The first write to a row in a delta cycle seeds write_queue[addr] from data[addr]; a masked write merges into that "
         "pending row; signed rows are folded at bit width-1; addresses beyond the depth change nothing."),
    ]:
        f2, paths = refsem.method_paths(model, ref)
        refsem.compare(ctx, R, label, f"{PYSIM}:{f2.lineno}", label, paths, [refsrc], why=why,
                       fact="method summary equals the reference semantics (pending-value merge)")


REF_SIGNAL_UPDATE = """
value = (self.next & ~mask) | (value & mask)
if self.next != value:
    self.next = value
    self.pending.add(self)
"""

REF_MEMORY_WRITE = """
if addr in range(self.memory.depth):
    if addr not in self.write_queue:
        self.write_queue[addr] = self.data[addr]
    if mask is not None:
        value = (value & mask) | (self.write_queue[addr] & ~mask)
    if self.shape.signed:
        if value & (1 << (self.shape.width - 1)):
            value |= -1 << self.shape.width
        else:
            value &= (1 << self.shape.width) - 1
    self.write_queue[addr] = value
    self.pending.add(self)
"""

REF_MEMORY_READ = """
if addr in range(self.memory.depth):
    return self.data[addr]
return 0
"""


# ----------------------------------------------------------------------------------------------- R-02f

# equivalent spellings of "the mask, moved up by start and clipped to the window [start, stop)" (start <= stop for a Slice)
SLICE_MASK_FORMS = [
    "mask << value.start & (1 << value.stop) - (1 << value.start)",
    "(mask & (1 << value.stop - value.start) - 1) << value.start",
    "(mask & (1 << len(value)) - 1) << value.start",
    "mask << value.start & ((1 << value.stop - value.start) - 1 << value.start)",
    "mask << value.start & ((1 << len(value)) - 1 << value.start)",
]


def r02f(model, ctx):
    R = "R-02f"
    fn, lvs = interp.leaves(model, f"{XFRM}::LHSMaskCollector.visit_value")
    # Slice
    lf = select_leaf(lvs, _env("Slice"))
    paths = run_paths(lf.body)
    calls = [n for p in paths for e in p.effects for n in ast.walk(e)
             if isinstance(n, ast.Call) and unparse(n.func) == "self.visit_value"]
    ok = len(calls) == 1 and unparse(calls[0].args[0]) == "value.value"
    if ok:
        from ..engine.bitalg import same_value
        ok = any(same_value(calls[0].args[1], alt) for alt in SLICE_MASK_FORMS)
    ctx.check(ok, R, "LHSMaskCollector:Slice", "(mask << start) & ((1<<stop)-(1<<start))",
              f"Slice must shift the mask up by start and clip it to [start, stop); found "
              f"{unparse(calls[0].args[1]) if calls else '-'}", f"{XFRM}:{lf.lineno}")
    # Concat
    lf = select_leaf(lvs, _env("Concat"))
    loops = [s for s in lf.body if isinstance(s, ast.For)]
    ok = len(loops) == 1 and unparse(loops[0].iter) == "value.parts"
    if ok:
        b = loops[0].body
        ok = len(b) == 2 and pmatch("self.visit_value(part, mask)", b[0].value) is not None and \
            isinstance(b[1], ast.AugAssign) and isinstance(b[1].op, ast.RShift) and unparse(b[1].value) == "len(part)"
    ctx.check(ok, R, "LHSMaskCollector:Concat", "visit(part, mask) then mask >>= len(part)",
              "Concat must hand the current mask to each part and then shift it right by that part's length",
              f"{XFRM}:{lf.lineno}")
    # Signal
    lf = select_leaf(lvs, _env("Signal"))
    paths = run_paths(lf.body)
    txt = " ; ".join(unparse(e) for p in paths for e in p.effects)
    ok = "mask & (1 << len(value)) - 1" in txt and "|=" in txt or "self.lhs[value] |= mask & (1 << len(value)) - 1" in txt
    if not ok:
        # the same update spelt differently: what is or-ed into self.lhs[value] is canonically mask & mask(len(value)),
        # or-ed into the previous entry (|=, or `= self.lhs.get(value, 0) | ..` / `= self.lhs[value] | ..`)
        from ..engine.bitalg import Canon
        cn = Canon()
        want = cn(ast.parse("mask & ((1 << len(value)) - 1)", mode="eval").body)
        for p_ in paths:
            for e in p_.effects:
                if isinstance(e, ast.AugAssign) and isinstance(e.op, ast.BitOr) and unparse(e.target) == "self.lhs[value]":
                    ok = ok or cn(e.value) == want
                if isinstance(e, ast.Assign) and unparse(e.targets[0]) == "self.lhs[value]" and isinstance(e.value, ast.BinOp) and \
                        isinstance(e.value.op, ast.BitOr):
                    for old_, new_ in ((e.value.left, e.value.right), (e.value.right, e.value.left)):
                        if unparse(old_) in ("self.lhs.get(value, 0)", "self.lhs[value]", "self.lhs.setdefault(value, 0)"):
                            ok = ok or cn(new_) == want
        if not ok:
            need(any("self.lhs" in unparse(e) for p_ in paths for e in p_.effects), "LHSMaskCollector (Signal): no update of self.lhs found")
    ctx.check(ok, R, "LHSMaskCollector:Signal", "mask clipped to the signal's width and or-ed in",
              f"Signal must or-in the mask clipped to len(value): {txt}", f"{XFRM}:{lf.lineno}")
    # Operator ("u"/"s" reinterpretation) and SwitchValue (array proxy) hand the incoming mask on unchanged: a constant mask
    # (~0) there makes a process own bits of the signal that it does not drive
    for kind, arg0 in (("Operator", "value.operands[0]"), ("SwitchValue", None)):
        lf = select_leaf(lvs, _env(kind))
        calls = [n for st in lf.body for n in ast.walk(st) if isinstance(n, ast.Call) and unparse(n.func) == "self.visit_value"]
        local = {unparse(st_.targets[0]): unparse(st_.value) for st in lf.body for st_ in ast.walk(st)
                 if isinstance(st_, ast.Assign) and len(st_.targets) == 1 and isinstance(st_.targets[0], ast.Name)}
        got0 = unparse(calls[0].args[0]) if calls and calls[0].args else ""
        got0 = local.get(got0, got0)
        ok = len(calls) == 1 and len(calls[0].args) == 2 and unparse(calls[0].args[1]) == "mask" and \
            (arg0 is None or got0 == arg0)
        # the incoming mask is not modified before it is handed on
        ok = ok and not any(isinstance(st_, (ast.Assign, ast.AugAssign)) and "mask" in
                            {unparse(t) for t in (st_.targets if isinstance(st_, ast.Assign) else [st_.target])}
                            for st in lf.body for st_ in ast.walk(st))
        ctx.check(ok, R, f"LHSMaskCollector:{kind}", "recurses with the incoming mask unchanged",
                  f"the {kind} case must pass the incoming mask on to its operand(s) unchanged; found "
                  f"{[unparse(c) for c in calls]}: with ~0 a slice of a reinterpreted/array target claims the whole signal, and "
                  f"the simulator process overwrites bits driven elsewhere", f"{XFRM}:{lf.lineno}")
    # the commit mask in _FragmentCompiler sign-extends iff signed and MSB driven
    fc = model.func(f"{PYRTL}::_FragmentCompiler.__call__")
    hits = [s for s in ast.walk(fc) if isinstance(s, ast.If) and
            pmatch("signal.shape().signed and mask & 1 << len(signal) - 1", s.test) is not None]
    ok = len(hits) == 1 and len(hits[0].body) == 1 and isinstance(hits[0].body[0], ast.AugAssign) and \
        isinstance(hits[0].body[0].op, ast.BitOr) and unparse(hits[0].body[0].value) == "-1 << len(signal)"
    # ... and the commit itself goes through that mask: slots[i].update(next_i, mask) with the mask of the bits this process
    # drives (an unmasked commit lets a process overwrite bits of the signal that are driven elsewhere)
    commits = []
    for lp in ast.walk(fc):
        if isinstance(lp, ast.For) and unparse(lp.iter).endswith(".masks()") and isinstance(lp.target, ast.Tuple) and len(lp.target.elts) == 2:
            for c in ast.walk(lp):
                if isinstance(c, ast.Call) and isinstance(c.func, ast.Attribute) and c.func.attr == "append" and c.args:
                    t = template_of(c.args[0])
                    if t is not None and t.skeleton().startswith("slots[{0}].update(next_"):
                        commits.append((t, unparse(lp.target.elts[1]), c.lineno))
    need(len(commits) >= 1, "_FragmentCompiler.__call__: the commit `slots[i].update(next_i, ..)` emission was not found")
    badc = [(t, ln) for t, mvar, ln in commits
            if not (t.skeleton() == "slots[{0}].update(next_{1}, {2})" and t.holes[0].src == t.holes[1].src and t.holes[2].src == mvar)]
    ctx.check(not badc, R, "_FragmentCompiler:commit-masked", "slots[i].update(next_i, mask) with the collector's mask for that signal",
              f"every commit of a process must be `slots[i].update(next_i, mask)` with the mask of the bits it drives; found "
              f"{[(t.skeleton(), [h.src for h in t.holes]) for t, _ in badc]}", f"{PYRTL}:{badc[0][1] if badc else commits[0][2]}")
    ctx.check(ok, R, "_FragmentCompiler:commit-mask-sign-extension",
              "mask |= -1 << len(signal) iff signed and MSB driven",
              "the commit mask of a signed signal must be extended with -1 << len(signal) exactly when its MSB is "
              "driven (so the stored negative value keeps its sign bits)", f"{PYRTL}:{fc.lineno}")


def r02h(model, ctx):
    """Per-domain case lists are complete: when an If/Switch/FSM is split by domain, *every* branch keeps its
    position in each domain's Switch (with an empty body where the domain has no statements); dropping a branch
    removes its priority over the later ones."""
    R = "R-02h"
    fn = model.func(f"{DSL}::Module._pop_ctrl")
    mod = model.mod(DSL)
    dom_loops = [s for s in ast.walk(fn) if isinstance(s, ast.For) and unparse(s.target) == "domain" and unparse(s.iter) == "domains"]
    need(len(dom_loops) == 3, f"_pop_ctrl: expected 3 per-domain loops (If, Switch, FSM), found {len(dom_loops)}")
    for dl in dom_loops:
        # the branch iteration inside
        inner = [s for s in dl.body if isinstance(s, ast.For)]
        need(len(inner) == 1, "_pop_ctrl: per-domain loop without exactly one branch loop")
        il = inner[0]
        kind = "If" if "if_tests" in unparse(il.iter) else "Switch" if "switch_cases" in unparse(il.iter) else "FSM"
        bodies = []
        for n in ast.walk(il):
            m = pmatch("_V_X.get(domain, [])", n)
            if m is not None:
                bodies.append(n)
        ok = len(bodies) == 1
        cond_txt = ""
        if ok:
            p = mod.parent(bodies[0])
            while p is not None and p is not il:
                if isinstance(p, ast.If):
                    ok = False
                    cond_txt = unparse(p.test)
                if isinstance(p, (ast.ListComp, ast.GeneratorExp)) and any(g.ifs for g in p.generators):
                    ok = False
                    cond_txt = "comprehension filter"
                p = mod.parent(p)
        # no statement of the branch loop may skip a branch
        skips = [n for n in ast.walk(il) if isinstance(n, (ast.Continue, ast.Break))]
        ok = ok and not skips
        ctx.check(ok, R, f"_pop_ctrl:{kind}", "every branch contributes one case per domain: body = stmts.get(domain, [])",
                  f"{kind}: when splitting by domain every branch must contribute exactly one case to every domain's "
                  f"Switch, with body `<stmts>.get(domain, [])`; found {len(bodies)} such bodies"
                  f"{', conditional on `' + cond_txt + '`' if cond_txt else ''}{', with continue/break' if skips else ''} "
                  f"— a branch that is dropped for a domain no longer shadows the later branches (first match wins is "
                  f"broken for that domain)", f"{DSL}:{il.lineno}")
        # the Switch is built from the complete list, in order
        sw = [n for n in ast.walk(dl) if isinstance(n, ast.Call) and dotted(n.func) == "Switch"]
        ctx.check(len(sw) == 1, R, f"_pop_ctrl:{kind}:one-switch", "one Switch per domain",
                  f"{kind}: exactly one Switch must be emitted per domain", f"{DSL}:{dl.lineno}")



def r02i(model, ctx):
    """the control-flow builder: If/Elif/Else, Switch/Case/Default, FSM/State/next, _add_statement, elaborate — each compared
    with its reference semantics (sa/refs/c02_dsl.py) by path summary"""
    from .reflib import run_ref_file
    run_ref_file(model, ctx, "R-02i", "c02_dsl")
    run_ref_file(model, ctx, "R-02i", "c01_ast", only=lambda r: "FSM" in r)
    run_ref_file(model, ctx, "R-02i", "c01_xfrm", only=lambda r: "Statement" in r)



def r02j(model, ctx):
    """which value a sub-expression of an assignment target is read from: selectors that are rvalues inside an lvalue (the
    offset of a part select, the index of an array) are read from the CURRENT state (`rrhs`); the data being updated — the
    operand of the select, the chosen array element — is read with the compiler's own mode (the in-progress `next_*` in the
    read-modify-write half of a partial update).  Mixing them up loses earlier assignments to the other bits."""
    R = "R-02j"
    import re
    SELECTORS = {"value.offset", "value.test"}
    n = 0
    for cls in ("_RHSValueCompiler", "_LHSValueCompiler"):
        c = model.cls(f"{PYRTL}::{cls}")
        for name, fn in model.class_methods(c).items():
            if not name.startswith("on_"):
                continue
            for call in ast.walk(fn):
                if not isinstance(call, ast.Call) or not call.args:
                    continue
                f = unparse(call.func)
                arg = unparse(call.args[0])
                via_rrhs = re.fullmatch(r"self\.rrhs(\.(sign|mask))?", f) is not None
                via_self = re.fullmatch(r"self(\.(sign|mask|lrhs|lrhs\.sign|lrhs\.mask))?", f) is not None
                if not (via_rrhs or via_self) or not (arg.startswith("value.") or arg in ("elem", "part", "arg", "lhs", "rhs")):
                    continue
                if arg in SELECTORS:
                    n += 1
                    ctx.check(via_rrhs, R, f"{cls}.{name}:{arg}", "selector read from the current state (rrhs)",
                              f"{cls}.{name} compiles the selector {arg} with `{f}`; selectors inside an assignment target must be "
                              f"read through self.rrhs (the committed value)", f"{PYRTL}:{call.lineno}")
                elif cls == "_RHSValueCompiler":
                    n += 1
                    ctx.check(not via_rrhs, R, f"{cls}.{name}:{arg}", "data operand read in the compiler's own mode",
                              f"{cls}.{name} compiles the data operand {arg} with `{f}`: in the next-mode instance used for partial "
                              f"updates this reads the committed value instead of the in-progress one, so earlier assignments to "
                              f"the other bits of the target are lost", f"{PYRTL}:{call.lineno}")
    need(n >= 8, f"only {n} operand compilations found in the value compilers")



RULES = [("R-02j", r02j), ("R-02i", r02i), ("R-02h", r02h), ("R-02a", r02a), ("R-02b", r02b), ("R-02c", r02c), ("R-02d", r02d), ("R-02e", r02e), ("R-02g", r02g),
         ("R-02f", r02f)]
