"""C18 — I/O buffers (structural necessary conditions)."""
import ast
from ..engine.core import AnalysisError, need
from ..engine.astutil import unparse, dotted, pmatch, const_int, dump
from ..engine.hdlmodel import ElabModel
from ..engine.symx import run_paths
from . import c06

IO = "amaranth/lib/io.py"


def _elementwise_not(e, seq):
    """is `e` the tuple of the negations of the elements of `seq` (text)?  tuple(not v for v in S), tuple(map(operator.not_, S)),
    tuple([not v for v in S])"""
    if not (isinstance(e, ast.Call) and dotted(e.func) == "tuple" and len(e.args) == 1):
        return False
    a = e.args[0]
    if isinstance(a, (ast.GeneratorExp, ast.ListComp)) and len(a.generators) == 1 and not a.generators[0].ifs and \
            unparse(a.generators[0].iter) == seq and isinstance(a.generators[0].target, ast.Name):
        v = a.generators[0].target.id
        return isinstance(a.elt, ast.UnaryOp) and isinstance(a.elt.op, ast.Not) and unparse(a.elt.operand) == v
    if isinstance(a, ast.Call) and dotted(a.func) == "map" and len(a.args) == 2 and unparse(a.args[1]) == seq:
        f = a.args[0]
        if unparse(f) in ("operator.not_", "operator.__not__"):
            return True
        if isinstance(f, ast.Lambda) and len(f.args.args) == 1 and isinstance(f.body, ast.UnaryOp) and isinstance(f.body.op, ast.Not) \
                and unparse(f.body.operand) == f.args.args[0].arg:
            return True
    return False

EXPLANATION = (
    "Static (ast-only) decision of structural necessary conditions of C18 on lib/io.py: (a) port algebra field "
    "consistency — for SingleEndedPort, DifferentialPort and SimulationPort, __getitem__ applies the same index to "
    "every per-bit field (io / p,n / i,o,oe and invert) and keeps the direction, __invert__ negates every invert bit "
    "and nothing else, __add__ concatenates every per-bit field as (self, other) in that order and combines the "
    "directions with `&`; Direction.__and__ narrows; (b) inversion on the fabric side (def-use) — in Buffer.elaborate "
    "no buffer-instance / simulation-port connection uses self.o or self.i directly when the mask is non-zero: "
    "outputs go through o_inv = o ^ mask, inputs through i = i_inv ^ mask, the negative leg of a differential output "
    "gets ~o_inv, oe reaches every enable (replicated for simulation ports), the bidirectional simulation port loops o "
    "back while enabled; (c) FFBuffer staging — exactly one register between the inner buffer's i and self.i in "
    "i_domain and exactly one between self.o/self.oe and the inner buffer's o/oe in o_domain; (d) single use of I/O "
    "bits is shared with C06 (emit_io_use). NOT decided: simulated bit values."
)
ASSUMPTIONS = ["CPython ast parses /repo's source as the interpreter would"]
MIN_INSTANCES = {"R-18e": 5, "R-18d": 1, "R-18a": 12, "R-18b": 8, "R-18c": 6}


def _simport_getitem_ok(fn):
    """SimulationPort.__getitem__ by path: for a slice key and for an integer key, the fields stored into the new port are
    _i/_o/_oe indexed with `key` (None stays None), _invert[key] (wrapped in a 1-tuple for an integer key) and the direction"""
    from ..engine.symx import run_paths
    seen = set()
    ok = True
    for p in run_paths(fn.body):
        if p.how != "return":
            continue
        for is_slice in (True, False):
            if any(unparse(c) == "isinstance(key, slice)" and pol != is_slice for c, pol in p.conds):
                continue
            need(p.ret is not None and unparse(p.ret) == "object.__new__(type(self))", "SimulationPort.__getitem__: result is not a "
                 "fresh object.__new__(type(self))")
            got = {}
            for e in p.effects:
                need(isinstance(e, ast.Assign) and len(e.targets) == 1 and isinstance(e.targets[0], ast.Attribute)
                     and unparse(e.targets[0].value) == unparse(p.ret), f"SimulationPort.__getitem__: effect `{unparse(e)}` not recognised")
                v = e.value
                for _ in range(4):
                    if isinstance(v, ast.IfExp) and unparse(v.test) == "isinstance(key, slice)":
                        v = v.body if is_slice else v.orelse
                    elif isinstance(v, ast.IfExp) and unparse(v.test) == "not isinstance(key, slice)":
                        v = v.orelse if is_slice else v.body
                got[e.targets[0].attr] = unparse(v)
            want = {"_direction": ("self._direction",), "_invert": ("self._invert[key]",) if is_slice else ("(self._invert[key],)",)}
            for f in ("_i", "_o", "_oe"):
                want[f] = (f"None if self.{f} is None else self.{f}[key]", f"self.{f}[key] if self.{f} is not None else None")
            seen.add(is_slice)
            ok = ok and set(got) == set(want) and all(got[k] in want[k] for k in want)
    need(seen == {True, False}, "SimulationPort.__getitem__: no returning path for a slice / an integer key")
    return ok


def _simport_add_ok(fn):
    """SimulationPort.__add__ by path and by the combined direction D = self._direction & other._direction (Input, Output,
    Bidir): _i is None for Output else Cat(self._i, other._i); _o/_oe are None for Input else the concatenations; _invert is
    the concatenation of the tuples; the direction stored is D"""
    import re
    from ..engine.symx import run_paths
    D = "self._direction & other._direction"
    seen = set()
    ok = True
    for p in run_paths(fn.body):
        if p.how != "return" or p.ret is None or unparse(p.ret) == "NotImplemented":
            continue
        for state in ("Input", "Output", "Bidir"):
            def holds(t):
                m = re.fullmatch(r"(.+) (is|is not|==|!=) Direction\.(\w+)", t)
                if m is None:
                    return None
                need(m.group(1) == D, f"SimulationPort.__add__: test `{t}` is not about the combined direction")
                return (state == m.group(3)) == (m.group(2) in ("is", "=="))
            feasible = True
            for c, pol in p.conds:
                h = holds(unparse(c))
                if h is not None and h != pol:
                    feasible = False
            if not feasible:
                continue
            got = {}
            for e in p.effects:
                need(isinstance(e, ast.Assign) and all(isinstance(t, ast.Attribute) and unparse(t.value) == unparse(p.ret) for t in e.targets),
                     f"SimulationPort.__add__: effect `{unparse(e)}` not recognised")
                v = e.value
                for _ in range(4):
                    if isinstance(v, ast.IfExp):
                        h = holds(unparse(v.test))
                        need(h is not None, f"SimulationPort.__add__: `{unparse(v)}` not recognised")
                        v = v.body if h else v.orelse
                for t in e.targets:
                    got[t.attr] = unparse(v)
            want = {"_i": "None" if state == "Output" else "Cat(self._i, other._i)",
                    "_o": "None" if state == "Input" else "Cat(self._o, other._o)",
                    "_oe": "None" if state == "Input" else "Cat(self._oe, other._oe)",
                    "_invert": "self._invert + other._invert", "_direction": D}
            seen.add(state)
            ok = ok and got == want
    need(seen == {"Input", "Output", "Bidir"}, "SimulationPort.__add__: some direction has no returning path")
    return ok


def r18a(model, ctx):
    R = "R-18a"
    spec = {
        "SingleEndedPort": (["_io"], "SingleEndedPort"),
        "DifferentialPort": (["_p", "_n"], "DifferentialPort"),
    }
    for cls, (fields, ctor) in spec.items():
        c = model.cls(f"{IO}::{cls}")
        ms = model.class_methods(c)
        def ret(name):
            r = [s for s in ms[name].body if isinstance(s, ast.Return) and isinstance(s.value, ast.Call) and dotted(s.value.func) == ctor]
            need(len(r) == 1, f"{cls}.{name}: constructor return not found")
            # ... and it is the only result: no other path hands back a port (e.g. `self` for an empty operand, which skips
            # the combination of directions and inversion masks)
            others = [s for s in ast.walk(ms[name]) if isinstance(s, ast.Return) and s is not r[0] and
                      not (isinstance(s.value, ast.Name) and s.value.id == "NotImplemented")]
            ctx.check(not others, R, f"{cls}.{name}:single-result", "the constructed port is the only result",
                      f"{cls}.{name} has another result path `{[unparse(o) for o in others]}` that bypasses the composition of wires, "
                      f"inversion and direction", f"{IO}:{ms[name].lineno}")
            return r[0].value
        # __getitem__
        call = ret("__getitem__")
        args = [unparse(a) for a in call.args]
        kw = {k.arg: unparse(k.value) for k in call.keywords}
        ok = args == [f"self.{f}[index]" for f in fields] and kw.get("invert") == "self._invert[index]" and kw.get("direction") == "self._direction"
        ctx.check(ok, R, f"{cls}.__getitem__", "same index applied to every per-bit field and to invert; direction kept",
                  f"{cls}.__getitem__ must apply the same index to {fields} and to _invert and keep the direction; found {unparse(call)} "
                  f"(a field left unsliced pairs bit k of one leg with another bit of the other)", f"{IO}:{ms['__getitem__'].lineno}")
        call = ret("__invert__")
        args = [unparse(a) for a in call.args]
        kw = {k.arg: unparse(k.value) for k in call.keywords}
        kwn = {k.arg: k.value for k in call.keywords}
        ok = args == [f"self.{f}" for f in fields] and "invert" in kwn and _elementwise_not(kwn["invert"], "self._invert") and \
            kw.get("direction") == "self._direction"
        ctx.check(ok, R, f"{cls}.__invert__", "every invert bit negated; wires and direction unchanged",
                  f"{cls}.__invert__ must keep {fields} and the direction and negate every bit of _invert; found {unparse(call)}",
                  f"{IO}:{ms['__invert__'].lineno}")
        call = ret("__add__")
        args = [unparse(a) for a in call.args]
        kw = {k.arg: unparse(k.value) for k in call.keywords}
        ok = args == [f"Cat(self.{f}, other.{f})" for f in fields] and kw.get("invert") == "self._invert + other._invert" and \
            kw.get("direction") == "self._direction & other._direction"
        ctx.check(ok, R, f"{cls}.__add__", "every per-bit field concatenated as (self, other); directions combined with &",
                  f"{cls}.__add__ must concatenate {fields} and _invert as (self, other) in that order and combine the directions "
                  f"with &; found {unparse(call)}", f"{IO}:{ms['__add__'].lineno}")
        f = ms["__len__"]
        ok = any(isinstance(s, ast.Return) and unparse(s.value) == f"len(self.{fields[0]})" for s in f.body)
        ctx.check(ok, R, f"{cls}.__len__", f"len({fields[0]})", f"{cls}.__len__ must be the width of its wires", f"{IO}:{f.lineno}")
    # SimulationPort (object.__new__ style)
    c = model.cls(f"{IO}::SimulationPort")
    ms = model.class_methods(c)
    def assigns(fn):
        return {unparse(s.targets[0]): unparse(s.value) for s in ast.walk(fn) if isinstance(s, ast.Assign) and unparse(s.targets[0]).startswith("result.")}
    a = assigns(ms["__getitem__"])
    ok = _simport_getitem_ok(ms["__getitem__"])
    ctx.check(ok, R, "SimulationPort.__getitem__", "i, o, oe and invert indexed with the same key; direction kept",
              f"SimulationPort.__getitem__ must index _i, _o, _oe and _invert with the same key; found {a}", f"{IO}:{ms['__getitem__'].lineno}")
    a = assigns(ms["__invert__"])
    inv_node = [st.value for st in ast.walk(ms["__invert__"]) if isinstance(st, ast.Assign) and unparse(st.targets[0]) == "result._invert"]
    ok = {k: v for k, v in a.items() if k != "result._invert"} == {"result._i": "self._i", "result._o": "self._o", "result._oe": "self._oe",
                                                                    "result._direction": "self._direction"} and \
        len(inv_node) == 1 and _elementwise_not(inv_node[0], "self._invert")
    ctx.check(ok, R, "SimulationPort.__invert__", "only invert changes", f"SimulationPort.__invert__ must only negate _invert; found {a}",
              f"{IO}:{ms['__invert__'].lineno}")
    a = assigns(ms["__add__"])
    ok = _simport_add_ok(ms["__add__"])
    ctx.check(ok, R, "SimulationPort.__add__", "i/o/oe/invert concatenated as (self, other); direction narrowed",
              f"SimulationPort.__add__ must concatenate every per-bit field as (self, other) and narrow the direction; found {a}",
              f"{IO}:{ms['__add__'].lineno}")
    # Direction.__and__ is a function on a three-element enumeration: decided by specialising it for each of the nine
    # (self, other) pairs (identity/equality tests between members folded) and reading off the result
    f = model.func(f"{IO}::Direction.__and__")
    MEMBERS = ("Input", "Output", "Bidir")

    def member(node, a, b):
        t = unparse(node)
        if t == "self":
            return a
        if t == "other":
            return b
        if t.startswith("Direction.") and t.split(".", 1)[1] in MEMBERS:
            return t.split(".", 1)[1]
        return None
    got, want = {}, {}
    for a in MEMBERS:
        for b in MEMBERS:
            def fold(node, a=a, b=b):
                if isinstance(node, ast.Compare) and len(node.ops) == 1 and isinstance(node.ops[0], (ast.Is, ast.IsNot, ast.Eq, ast.NotEq)):
                    l, r = member(node.left, a, b), member(node.comparators[0], a, b)
                    if l is not None and r is not None:
                        return ast.Constant(value=(l == r) == isinstance(node.ops[0], (ast.Is, ast.Eq)))
                if isinstance(node, ast.Call) and dotted(node.func) == "isinstance" and unparse(node.args[0]) == "other":
                    return ast.Constant(value=True)
                return None
            ps = [p for p in run_paths(f.body, fold=fold) if not p.conds_open()]
            need(len(ps) == 1, f"Direction.__and__: cannot decide the result for ({a}, {b})")
            p = ps[0]
            got[(a, b)] = "raise" if p.how == "raise" else (member(p.ret, a, b) if p.ret is not None else None)
            want[(a, b)] = a if a == b else (b if a == "Bidir" else (a if b == "Bidir" else "raise"))
    npaths = [p for p in run_paths(f.body) if p.how == "return" and p.ret is not None and unparse(p.ret) == "NotImplemented"]
    got["non-Direction"] = "NotImplemented" if npaths else None
    want["non-Direction"] = "NotImplemented"
    ctx.check(got == want, R, "Direction.__and__", "x&x=x, Bidir&x=x, x&Bidir=x, Input&Output raises",
              f"Direction.__and__ must narrow (same -> same, Bidir yields the other) and raise for Input & Output; found "
              f"{sorted((k, v) for k, v in got.items() if want.get(k) != v)}",
              f"{IO}:{f.lineno}")
    # constructors normalise invert to one flag per bit
    for cls in ("SingleEndedPort", "DifferentialPort"):
        # on the expanded view (a shared module-level helper may do the normalisation): a bool is replicated to the port
        # width, a sequence is stored as a tuple whose length is compared with the same width (mismatch raises)
        fi = model.func_view(f"{IO}::{cls}.__init__", depth=3)
        wid = {"SingleEndedPort": "len(self._io)", "DifferentialPort": "len(self._p)"}[cls]
        t = unparse(fi).replace("port._invert", "self._invert")
        ok = f"self._invert = (invert,) * {wid}" in t and "self._invert = tuple(invert)" in t and \
            f"if len(self._invert) != {wid}:" in t and "raise ValueError" in t
        ctx.check(ok, R, f"{cls}.__init__:invert", "one inversion flag per bit (bool replicated, sequence length checked)",
                  f"{cls} must normalise invert to one flag per bit and check its length", f"{IO}:{fi.lineno}")


def r18b(model, ctx):
    R = "R-18b"
    fn = model.func_expanded(f"{IO}::Buffer.elaborate", depth=3)
    em = ElabModel(fn)
    t = unparse(fn)
    ok = False
    for st in ast.walk(fn):
        # invert = sum(B << I for I, B in enumerate(self._port.invert)), whatever the two loop variables are called
        if isinstance(st, ast.Assign) and unparse(st.targets[0]) == "invert" and isinstance(st.value, ast.Call) and \
                dotted(st.value.func) == "sum" and len(st.value.args) == 1 and isinstance(st.value.args[0], (ast.GeneratorExp, ast.ListComp)):
            g = st.value.args[0]
            if len(g.generators) == 1 and not g.generators[0].ifs and unparse(g.generators[0].iter) == "enumerate(self._port.invert)" and \
                    isinstance(g.generators[0].target, ast.Tuple) and len(g.generators[0].target.elts) == 2 and \
                    all(isinstance(e_, ast.Name) for e_ in g.generators[0].target.elts):
                i_, b_ = (e_.id for e_ in g.generators[0].target.elts)
                ok = unparse(g.elt) in (f"{b_} << {i_}", f"{b_} * (1 << {i_})", f"{b_} * 2 ** {i_}")
    ctx.check(ok, R, "Buffer:invert-mask", "mask bit idx = invert flag of port bit idx", "the inversion mask must place the flag of port bit idx "
              "at bit idx", f"{IO}:{fn.lineno}")
    # o_inv / i_inv definitions
    a = [x for x in em.assigns if x.target_text == "o_inv"]
    ok = len(a) == 1 and a[0].domain == "comb" and unparse(a[0].rhs) in ("self.o ^ invert", "invert ^ self.o") and \
        any(unparse(c) in ("invert != 0", "invert") and p for c, p in a[0].pyconds) and unparse(em.aliases.get("o_inv")) in ("self.o", "Signal.like(self.o)")
    ctx.check(ok, R, "Buffer:o_inv", "o_inv = o ^ mask (or o itself when the mask is 0)", f"outputs must be inverted on the fabric side: "
              f"o_inv = self.o ^ invert; found {a}", f"{IO}:{fn.lineno}")
    a = [x for x in em.assigns if x.target_text == "self.i"]
    ok = len(a) == 1 and a[0].domain == "comb" and unparse(a[0].rhs) in ("i_inv ^ invert", "invert ^ i_inv")
    ctx.check(ok, R, "Buffer:i_inv", "i = i_inv ^ mask (or i itself when the mask is 0)", f"inputs must be inverted on the fabric side: "
              f"self.i = i_inv ^ invert; found {a}", f"{IO}:{fn.lineno}")
    # every IOBufferInstance connection uses o_inv / i_inv / self.oe
    insts = [s.call for s in em.submodules if isinstance(s.call, ast.Call) and dotted(s.call.func) == "IOBufferInstance"]
    need(len(insts) >= 8, f"Buffer.elaborate: only {len(insts)} IOBufferInstance constructions found")
    for c in insts:
        kw = {k.arg: unparse(k.value) for k in c.keywords}
        port = unparse(c.args[0])
        okc = kw.get("i", "i_inv") == "i_inv" and kw.get("oe", "self.oe") == "self.oe"
        if port.endswith(".n"):
            okc = okc and kw.get("o") == "~o_inv" and "i" not in kw
        else:
            okc = okc and kw.get("o", "o_inv") == "o_inv"
        ctx.check(okc, R, f"Buffer:IOBufferInstance({port}, {','.join(sorted(kw))})", "o=o_inv (n leg: ~o_inv), i=i_inv, oe=self.oe",
                  f"buffer cell on {port} is connected with {kw}: outputs must come from o_inv (the negative leg of a differential "
                  f"pair from ~o_inv), inputs must go to i_inv, and the enable must be self.oe — using self.o / self.i directly "
                  f"skips the inversion", f"{IO}:{c.lineno}")
    # direction -> which legs
    # keyword order is free: compare (port, {keyword: value}) of the constructions
    shapes = [(unparse(c.args[0]), tuple(sorted((k.arg, unparse(k.value)) for k in c.keywords))) for c in insts if c.args]
    ok = shapes.count(("self._port.n", (("o", "~o_inv"), ("oe", "self.oe")))) == 2 and \
        ("self._port.io", (("i", "i_inv"), ("o", "o_inv"), ("oe", "self.oe"))) in shapes and \
        ("self._port.p", (("i", "i_inv"), ("o", "o_inv"), ("oe", "self.oe"))) in shapes
    ctx.check(ok, R, "Buffer:legs", "bidirectional buffers connect i, o and oe; differential outputs drive both legs",
              "bidirectional buffers must connect i, o and oe, and differential outputs must drive both legs", f"{IO}:{fn.lineno}")
    # simulation port
    sp = [x for x in em.assigns if x.target_text in ("self._port.o", "self._port.oe", "i_inv", "i_inv_bit")]
    got = {(x.target_text, unparse(x.rhs)) for x in sp}
    want = {("self._port.o", "o_inv"), ("self._port.oe", "self.oe.replicate(len(self._port))"), ("i_inv", "self._port.i"),
            ("i_inv_bit", "Cat(Mux(oe_bit, o_bit, i_bit))")}
    ctx.check(got == want, R, "Buffer:SimulationPort", "o <- o_inv, oe <- oe replicated per bit, i_inv <- i, bidir loops o back while enabled",
              f"simulation-port wiring deviates: {sorted(got ^ want)}", f"{IO}:{fn.lineno}")
    ok = "zip(i_inv, self._port.oe, self._port.o, self._port.i)" in t
    ctx.check(ok, R, "Buffer:SimulationPort:loopback-zip", "per-bit loopback pairs bit k of i_inv, oe, o, i", "the loopback must pair the same bit "
              "of i_inv, port.oe, port.o and port.i", f"{IO}:{fn.lineno}")
    # sibling agreement: every buffer kind refuses the two impossible port/buffer direction combinations
    for cls in ("Buffer", "FFBuffer", "DDRBuffer"):
        fi = model.func(f"{IO}::{cls}.__init__")
        tests = {unparse(s_.test): s_ for s_ in fi.body if isinstance(s_, ast.If)}
        want = ["port.direction is Direction.Input and self.direction is not Direction.Input",
                "port.direction is Direction.Output and self.direction is not Direction.Output"]
        ok = all(w in tests and isinstance(tests[w].body[-1], ast.Raise) and "ValueError" in unparse(tests[w].body[-1]) for w in want)
        ctx.check(ok, R, f"{cls}.__init__:direction", "input port only with input buffer; output port only with output buffer",
                  f"{cls} must raise ValueError for an Input port with a non-Input buffer and for an Output port with a non-Output "
                  f"buffer (its siblings do); found tests {sorted(t_ for t_ in tests if 'direction' in t_)}", f"{IO}:{fi.lineno}")


def r18c(model, ctx):
    R = "R-18c"
    fn = model.func_view(f"{IO}::FFBuffer.elaborate", depth=3)
    em = ElabModel(fn)
    def one(t):
        h = [a for a in em.assigns if a.target_text == t]
        need(len(h) == 1, f"FFBuffer: assignment to {t} not unique")
        return h[0]
    exp = [("i_ff", "self.i_domain", "io_buffer.i"), ("self.i", "comb", "i_ff"), ("o_ff", "self.o_domain", "self.o"),
           ("oe_ff", "self.o_domain", "self.oe"), ("io_buffer.o", "comb", "o_ff"), ("io_buffer.oe", "comb", "oe_ff")]
    for tgt, dom, rhs in exp:
        a = one(tgt)
        ok = a.domain == dom and unparse(a.rhs) == rhs and not a.guards
        ctx.check(ok, R, f"FFBuffer:{tgt}", f"{tgt} <= {rhs} in {dom}",
                  f"FFBuffer: {tgt} must be assigned {rhs} in domain {dom} (exactly one register stage per direction, in the named "
                  f"domain); found {a}", f"{IO}:{a.lineno}")
    ok = len(em.assigns) == 6
    ctx.check(ok, R, "FFBuffer:no-other-logic", "exactly the six assignments", f"FFBuffer has unexpected assignments: {em.assigns}", f"{IO}:{fn.lineno}")
    s = [x for x in em.submodules if x.name == "io_buffer"]
    ok = len(s) == 1 and unparse(s[0].call) == "Buffer(self.direction, self.port)"
    ctx.check(ok, R, "FFBuffer:io_buffer", "inner Buffer(direction, port)", "FFBuffer must wrap Buffer(self.direction, self.port)", f"{IO}:{fn.lineno}")
    for name in ("i_ff", "o_ff"):
        c = em.signals.get(name)
        ok = c is not None and unparse(c.args[0]) == "len(self.port)"
        ctx.check(ok, R, f"FFBuffer:{name}:width", "len(port) bits", f"{name} must be len(self.port) bits wide", f"{IO}:{fn.lineno}")
    # direction gating of the two halves
    conds = {a.target_text: [(unparse(c), p) for c, p in a.pyconds if "direction" in unparse(c)] for a in em.assigns}
    ok = conds.get("i_ff") == [("self.direction is not Direction.Output", True)] and conds.get("o_ff") == [("self.direction is not Direction.Input", True)]
    ctx.check(ok, R, "FFBuffer:direction-gating", "input half unless Output; output half unless Input",
              f"the input register must exist unless the direction is Output and the output registers unless it is Input; found {conds}",
              f"{IO}:{fn.lineno}")
    fi = model.func(f"{IO}::FFBuffer.__init__")
    t = unparse(fi)
    ok = 'self._i_domain = i_domain or "sync"' in t.replace("'", '"') and 'self._o_domain = o_domain or "sync"' in t.replace("'", '"')
    if not ok:
        # by path: on every completing path each of _i_domain/_o_domain is either `<x>_domain or "sync"` or None, and each
        # default occurs on some path
        seen = {"_i_domain": set(), "_o_domain": set()}
        ps = [p_ for p_ in run_paths([b for b in fi.body if not (isinstance(b, ast.Expr) and isinstance(b.value, ast.Constant))])
              if p_.how != "raise"]
        ok = bool(ps)
        for p_ in ps:
            st = {}
            for e in p_.effects:
                if isinstance(e, ast.Assign) and isinstance(e.targets[0], ast.Attribute) and unparse(e.targets[0].value) == "self":
                    st[e.targets[0].attr] = unparse(e.value).replace("'", '"')
            for attr, arg in (("_i_domain", "i_domain"), ("_o_domain", "o_domain")):
                v = st.get(attr)
                ok = ok and v in (f'{arg} or "sync"', "None")
                seen[attr].add(v)
        ok = ok and all(f'{arg} or "sync"' in seen[attr] for attr, arg in (("_i_domain", "i_domain"), ("_o_domain", "o_domain")))
    ctx.check(ok, R, "FFBuffer.__init__:domains", "domains default to sync", "i_domain/o_domain must default to 'sync'", f"{IO}:{fi.lineno}")


AST_PY = "amaranth/hdl/_ast.py"
REF_IO_GETITEM = """
n = len(self)
if isinstance(key, int):
    if key not in range(-n, n):
        raise IndexError()
    if key < 0:
        key += n
    return IOSlice(self, key, key + 1, src_loc_at=1)
elif isinstance(key, slice):
    start, stop, step = key.indices(n)
    if step != 1:
        return IOConcat((self[i] for i in range(start, stop, step)), src_loc_at=1)
    return IOSlice(self, start, stop, src_loc_at=1)
else:
    raise TypeError()
"""


def r18d(model, ctx):
    """indexing an I/O value follows Python sequence semantics (the ports of lib.io index their `io` with the same key as
    their inversion tuple, R-18a, so the two must select the same positions): int k -> [k, k+1) with negative wrap-around,
    slices through key.indices(len): contiguous -> IOSlice(start, stop), strided -> the wires range(start, stop, step)"""
    from ..engine import refsem
    R = "R-18d"
    fn, paths = refsem.method_paths(model, f"{AST_PY}::IOValue.__getitem__", inline=False)
    refsem.compare(ctx, R, "IOValue.__getitem__", f"{AST_PY}:{fn.lineno}", "IOValue.__getitem__", paths, [REF_IO_GETITEM],
                   fact="int -> IOSlice(k, k+1) with negative wrap; slice -> key.indices(n): IOSlice or IOConcat over range(start, stop, step)",
                   why="A port slices its inversion tuple with the plain Python key; the I/O value must select the same positions "
                       "(range(start, stop, step) of key.indices(n) — re-slicing range(n) with the normalised indices misreads stop=-1).")



def r18e(model, ctx):
    """a transformer (EnableInserter, ResetInserter, DomainRenamer, DomainLowerer) that rebuilds a fragment keeps it whole:
    every reconstruction in FragmentTransformer.on_fragment passes every constructor parameter of the rebuilt class — an
    I/O buffer whose `oe` is not forwarded comes back permanently enabled"""
    R = "R-18e"
    XFRM = "amaranth/hdl/_xfrm.py"
    fn = model.func(f"{XFRM}::FragmentTransformer.on_fragment")
    homes = {"IOBufferInstance": "amaranth/hdl/_ir.py::IOBufferInstance", "MemoryInstance": "amaranth/hdl/_mem.py::MemoryInstance",
             "MemoryInstance._ReadPort": "amaranth/hdl/_mem.py::MemoryInstance._ReadPort",
             "MemoryInstance._WritePort": "amaranth/hdl/_mem.py::MemoryInstance._WritePort",
             "RequirePosedge": "amaranth/hdl/_ir.py::RequirePosedge"}
    n = 0
    for call in ast.walk(fn):
        if not isinstance(call, ast.Call) or dotted(call.func) not in homes:
            continue
        name = dotted(call.func)
        init = model.func(homes[name] + ".__init__")
        params = [a.arg for a in init.args.args[1:]] + [a.arg for a in init.args.kwonlyargs]
        params = [p_ for p_ in params if p_ != "src_loc_at"]
        given = set(params[:len(call.args)]) | {k.arg for k in call.keywords if k.arg}
        missing = [p_ for p_ in params if p_ not in given]
        n += 1
        ctx.check(not missing, R, f"FragmentTransformer.on_fragment:{name}@{call.lineno - fn.lineno}", f"all of {params} forwarded",
                  f"the rebuilt {name} is not given {missing}: the transformed design silently loses that part of the original "
                  f"(for an I/O buffer without `oe` the output driver is always enabled)", f"{XFRM}:{call.lineno}")
    need(n >= 5, f"only {n} reconstructions found in FragmentTransformer.on_fragment")


def _only(rule_fn, keep):
    def wrapped(model, ctx):
        n0, v0 = len(ctx.obligations), len(ctx.violations)
        rule_fn(model, ctx)
        ctx.obligations[n0:] = [o for o in ctx.obligations[n0:] if keep(o["construct"])]
        ctx.violations[v0:] = [v for v in ctx.violations[v0:] if keep(v["construct"])]
    return wrapped



def r07h_shared(model, ctx):
    """RTLIL emission details shared with C07 (R-07h): enum_value names, always-enabled I/O buffers, attributes of anonymous wires"""
    from . import c07
    c07.r07h(model, ctx)


RULES = [("R-07h", r07h_shared), ("R-18e", r18e), ("R-18d", r18d), ("R-18a", r18a), ("R-18b", r18b), ("R-18c", r18c),
         ("R-06c", _only(c06.r06c, lambda c: "emit_io" in c or "iobuffer" in c or "emit_instance" in c))]
