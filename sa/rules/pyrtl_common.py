"""Template taint analysis of the Python code generator in amaranth/sim/_pyrtl.py (rule R-01c and friends).

A string returned by a value sub-compile (`self(x)`, `self.rrhs(x)`, `self.lrhs(x)`, `rhs(x)`) is RAW: it is
congruent to the value of x modulo 2**len(x) and its bits >= len(x) are unspecified.  RAW text (and the `arg`
parameter of an LHS `gen`, class ARG) may reach generated code only through the idioms enumerated in DESIGN.md
(I1..I5).  Everything else is a violation.
"""
import ast
from ..engine.core import AnalysisError, need, loc
from ..engine.astutil import (template_of, Hole, Template, dotted, unparse, dump, walk_no_nested, const_int)

PYRTL = "amaranth/sim/_pyrtl.py"

SUBCOMPILE = {"self", "self.rrhs", "self.lrhs", "rhs", "self.rhs", "compiler"}
NORMALISERS = {"sign", "mask", "self.sign", "self.rhs.sign", "rhs.sign"}

RAW, ARG, VAL, STATIC, GEN = "RAW", "ARG", "VAL", "STATIC", "GEN"


class HoleFact:
    def __init__(self, func, lineno, skeleton, hole_src, cls, verdict, idiom, detail="", role=""):
        self.func = func
        self.lineno = lineno
        self.skeleton = skeleton
        self.hole_src = hole_src
        self.cls = cls
        self.verdict = verdict      # 'ok' | 'bad'
        self.idiom = idiom
        self.detail = detail
        self.role = role

    @property
    def construct(self):
        return f"{self.func}:{{{self.hole_src}}}"


def mask_width(expr, binds):
    """If expr is (1 << W) - 1 (possibly via a local name), return the AST of W; else None."""
    seen = 0
    while isinstance(expr, ast.Name) and expr.id in binds and seen < 5:
        expr = binds[expr.id]
        seen += 1
    if isinstance(expr, ast.BinOp) and isinstance(expr.op, ast.Sub) and const_int(expr.right) == 1:
        l = expr.left
        if isinstance(l, ast.BinOp) and isinstance(l.op, ast.LShift) and const_int(l.left) == 1:
            return l.right
    return None


def width_matches(W, E, how):
    """Does width expression W describe the width of the raw operand E under idiom `how`?"""
    if W is None:
        return False
    w = unparse(W)
    e = unparse(E)
    if how == "same":
        if w == f"len({e})":
            return True
        # write-enable replication: Cat(bit.replicate(P._granularity) for bit in P._en) has len(P._data) bits because
        # _WritePort._granularity is len(_data) // len(_en) and the constructor asserts divisibility
        import re
        m = re.fullmatch(r"Cat\(\(?bit\.replicate\((\w+)\._granularity\) for bit in (\w+)\._en\)?\)", e)
        if m and m.group(1) == m.group(2) and w == f"len({m.group(1)}._data)":
            return True
        return False
    if how == "slice":
        # E == X.value ; W == len(X) or X.stop - X.start
        if e.endswith(".value"):
            x = e[: -len(".value")]
            return w in (f"len({x})", f"{x}.stop - {x}.start")
        return False
    return False


class FuncTaint:
    """Source-order scan of one function (nested closures included, each with its own parameter classes)."""

    def __init__(self, mod, fn, qual, facts, errors, arg_params=("arg",), val_params=()):
        self.mod = mod
        self.fn = fn
        self.qual = qual
        self.facts = facts
        self.errors = errors
        self.cls = {}       # name -> (class, E-or-None)
        self.binds = {}     # name -> value AST (for static mask resolution)
        self.containers = {}
        self.arg_params = set(arg_params)
        self.val_params = set(val_params)
        self.list_templates = {}  # name -> list of Templates appended to it

    # ------------------------------------------------------------ classification
    def classify_expr(self, e):
        if isinstance(e, ast.Call):
            cn = dotted(e.func)
            if cn in SUBCOMPILE and len(e.args) == 1 and not e.keywords:
                return (RAW, e.args[0])
            if cn in NORMALISERS and len(e.args) == 1:
                return (VAL, e.args[0])
            if cn is not None and cn.endswith("def_var") and len(e.args) == 2:
                t = template_of(e.args[1])
                if t is not None:
                    return (self.template_class(t), None)
                c = self.classify_expr(e.args[1])
                return (VAL if c[0] in (VAL,) else c[0], c[1])
            if cn is not None and cn.endswith("emit_format"):
                return (STATIC, None)
        if isinstance(e, ast.Name):
            if e.id in self.cls:
                return self.cls[e.id]
            if e.id in self.arg_params:
                return (ARG, None)
            if e.id in self.val_params:
                return (VAL, None)
            return (STATIC, None)
        if isinstance(e, (ast.JoinedStr,)):
            t = template_of(e)
            return (self.template_class(t), None)
        # anything containing a sub-compile call deeper inside is not understood
        for n in ast.walk(e):
            if n is not e and isinstance(n, ast.Call) and dotted(n.func) in SUBCOMPILE and len(n.args) == 1 \
                    and not n.keywords:
                return ("OPAQUE", None)
        return (STATIC, None)

    def template_class(self, t):
        """Class of the value a template denotes (after its holes were checked): VAL when it is an expression over
        normalised things, RAW when it is just a raw hole, STATIC when it has no dynamic holes."""
        dyn = False
        for h in t.holes:
            c, E = self.classify_expr(h.expr)
            if c == RAW and len(t.parts) == 1:
                return RAW
            if c in (RAW, ARG, VAL):
                dyn = True
        return VAL if dyn else STATIC

    # ------------------------------------------------------------ the context rule
    def check_template(self, t, lineno, role=""):
        infos = []
        for h in t.holes:
            c, E = self.classify_expr(h.expr)
            infos.append((h, c, E))
        if not any(c in (RAW, ARG, "OPAQUE") for _, c, _ in infos):
            for h, c, E in infos:
                if c == VAL:
                    self.facts.append(HoleFact(self.qual, lineno, t.skeleton(), h.src, c, "ok", "I3-normalised", role=role))
            return
        for h, c, E in infos:
            if c == "OPAQUE":
                self.errors.append(f"{PYRTL}:{lineno} {self.qual}: hole {{{h.src}}} embeds a sub-compile call in an "
                                   f"expression shape the taint rule does not understand")
        tree = self.parse(t)
        if tree is None:
            self.errors.append(f"{PYRTL}:{lineno} {self.qual}: template with raw holes does not parse as Python: "
                               f"{t.skeleton()!r}")
            return
        parents = {}
        for p in ast.walk(tree):
            for ch in ast.iter_child_nodes(p):
                parents[ch] = p
        hole_nodes = {}
        for n in ast.walk(tree):
            if isinstance(n, ast.Name):
                h = t.hole_by_name(n.id)
                if h is not None:
                    hole_nodes.setdefault(h.idx, []).append(n)
        by_idx = {h.idx: (h, c, E) for h, c, E in infos}

        def hole_of(node):
            if isinstance(node, ast.Name):
                h = t.hole_by_name(node.id)
                if h is not None:
                    return by_idx[h.idx]
            return None

        def is_static_node(node):
            if const_int(node) is not None:
                return True
            info = hole_of(node)
            return info is not None and info[1] == STATIC

        for h, c, E in infos:
            if c == VAL:
                self.facts.append(HoleFact(self.qual, lineno, t.skeleton(), h.src, c, "ok", "I3-normalised", role=role))
                continue
            if c not in (RAW, ARG):
                continue
            for node in hole_nodes.get(h.idx, []):
                verdict, idiom, detail = self.context(node, parents, hole_of, is_static_node, c, E, h, role)
                self.facts.append(HoleFact(self.qual, lineno, t.skeleton(), h.src, c, verdict, idiom, detail, role=role))

    def context(self, node, parents, hole_of, is_static_node, c, E, h, role=""):
        p = parents.get(node)
        if role.startswith("gen-arg:") and c == RAW and dotted(h.expr.func) == "self.lrhs":
            # I5: read half of a read-modify-write whose result goes to the child gen of the same lvalue
            target = role[len("gen-arg:"):]
            if unparse(E) != target:
                return ("bad", "rmw-target", f"read-modify-write reads {unparse(E)} but writes {target}")
            q = node
            while q in parents:
                q = parents[q]
                if isinstance(q, ast.BinOp) and isinstance(q.op, (ast.RShift, ast.FloorDiv, ast.Mod, ast.Div)) or \
                        isinstance(q, ast.Compare):
                    return ("bad", "rmw-downshift", "unspecified high bits of the read half can move down "
                                                    f"through {type(q).__name__}")
            return ("ok", "I5-rmw-read", f"read half of RMW on {target}; the child gen masks to len({target})")
        # whole template is the raw text itself (handed on unchanged)
        if p is None or isinstance(p, (ast.Expression, ast.Expr)) and parents.get(p) is None:
            return ("ok", "passthrough", "raw text handed on unchanged (class stays RAW)")
        if isinstance(p, ast.Expr):
            return ("ok", "passthrough", "")

        def mask_of(binop, child):
            other = binop.right if binop.left is child else binop.left
            if const_int(other) is not None:
                return ("lit", const_int(other))
            info = hole_of(other)
            if info is not None and info[1] == STATIC:
                return ("hole", info[0].expr)
            return None

        # I1: M & RAW
        if isinstance(p, ast.BinOp) and isinstance(p.op, ast.BitAnd):
            m = mask_of(p, node)
            if m is None:
                return ("bad", "and-nonstatic", f"raw text and-ed with a non-static mask")
            return self.judge_mask(m, c, E, "same", "I1-mask")
        # I2: M & (RAW >> static)
        if isinstance(p, ast.BinOp) and isinstance(p.op, ast.RShift) and p.left is node:
            if not is_static_node(p.right):
                return ("bad", "dynamic-shift", f"raw (un-normalised) operand text under a shift by a dynamic amount: "
                                                f"bits above the operand's width are unspecified "
                                                f"(e.g. `~a`, `as_signed()` compile to un-masked Python ints)")
            gp = parents.get(p)
            if isinstance(gp, ast.BinOp) and isinstance(gp.op, ast.BitAnd):
                m = mask_of(gp, p)
                if m is None:
                    return ("bad", "and-nonstatic", "shifted raw text and-ed with a non-static mask")
                return self.judge_mask(m, c, E, "slice", "I2-slice-mask")
            return ("bad", "shift-unmasked", "raw text shifted by a constant but not masked afterwards")
        return ("bad", "raw-in-context", f"raw (un-normalised) text used directly under {type(p).__name__}"
                                         f"{'/' + type(p.op).__name__ if hasattr(p, 'op') else ''}")

    def judge_mask(self, m, c, E, how, idiom):
        if m[0] == "lit":
            if m[1] == 1:
                return ("ok", idiom, "literal mask 1 (operand is a 1-bit control signal by construction)")
            return ("bad", "mask-literal", f"raw text masked with the unexplained literal {m[1]}")
        W = mask_width(m[1], self.binds)
        if W is None:
            return ("bad", "mask-unknown", f"mask expression {unparse(m[1])} is not of the form (1 << W) - 1")
        if c == ARG:
            return ("ok", idiom, f"gen() argument masked to {unparse(W)} bits")
        if width_matches(W, E, how) or (how == "slice" and width_matches(W, E, "same")):
            return ("ok", idiom, f"mask width {unparse(W)} is the width of {unparse(E)}")
        # mask narrower/other: e.g. Part width — accept only when how == slice handled above
        return ("bad", "mask-width", f"raw text of {unparse(E)} masked with width {unparse(W)}, expected len({unparse(E)})")

    def parse(self, t):
        txt = t.text().strip()
        for cand in self.candidates(txt):
            try:
                return ast.parse(cand)
            except SyntaxError:
                continue
        return None

    @staticmethod
    def candidates(txt):
        yield txt
        if txt.endswith(":"):
            if txt.startswith("elif "):
                yield "if " + txt[5:] + "\n    pass"
            if txt.startswith("match "):
                yield txt + "\n    case _:\n        pass"
            if txt.startswith("case "):
                yield "match __x__:\n    " + txt + "\n        pass"
            yield txt + "\n    pass"

    # ------------------------------------------------------------ the scan
    def run(self):
        self.scan_body(self.fn.body)

    def scan_body(self, stmts):
        for s in stmts:
            self.scan_stmt(s)

    def scan_stmt(self, s):
        if isinstance(s, (ast.FunctionDef, ast.AsyncFunctionDef)):
            params = [a.arg for a in s.args.args]
            sub = FuncTaint(self.mod, s, f"{self.qual}.{s.name}", self.facts, self.errors,
                            arg_params=[p for p in params if p == "arg"], val_params=self.val_params)
            sub.cls = dict(self.cls)
            sub.binds = dict(self.binds)
            sub.run()
            return
        if isinstance(s, ast.Raise):
            return
        if isinstance(s, ast.Assign) and len(s.targets) == 1:
            tgt = s.targets[0]
            self.scan_expr(s.value, s.lineno)
            if isinstance(tgt, ast.Name):
                self.binds[tgt.id] = s.value
                self.cls[tgt.id] = self.classify_expr(s.value)
            elif isinstance(tgt, ast.Subscript) and isinstance(tgt.value, ast.Name) and isinstance(s.value, ast.Tuple):
                self.containers[tgt.value.id] = [self.classify_expr(e) for e in s.value.elts]
            elif isinstance(tgt, ast.Tuple) and isinstance(s.value, ast.Subscript) and isinstance(s.value.value, ast.Name) \
                    and s.value.value.id in self.containers and all(isinstance(e, ast.Name) for e in tgt.elts):
                cs = self.containers[s.value.value.id]
                if len(cs) == len(tgt.elts):
                    for e, c in zip(tgt.elts, cs):
                        self.cls[e.id] = c
            return
        if isinstance(s, ast.AugAssign):
            self.scan_expr(s.value, s.lineno)
            return
        for field, value in ast.iter_fields(s):
            if isinstance(value, list) and value and isinstance(value[0], ast.stmt):
                self.scan_body(value)
            elif isinstance(value, list):
                for v in value:
                    if isinstance(v, ast.AST):
                        if isinstance(v, ast.ExceptHandler):
                            self.scan_body(v.body)
                        elif isinstance(v, ast.match_case):
                            self.scan_body(v.body)
                        elif isinstance(v, ast.withitem):
                            self.scan_expr(v.context_expr, s.lineno)
                        else:
                            self.scan_expr(v, getattr(v, "lineno", s.lineno))
            elif isinstance(value, ast.AST):
                self.scan_expr(value, getattr(value, "lineno", s.lineno))

    def scan_expr(self, e, lineno):
        """Find the templates in an expression (outermost JoinedStr/concats), check each."""
        stack = [(e, "")]
        while stack:
            n, role = stack.pop()
            if isinstance(n, (ast.Lambda,)):
                continue
            if isinstance(n, ast.JoinedStr) or (isinstance(n, ast.BinOp) and isinstance(n.op, ast.Add)
                                                and template_of(n) is not None and any(
                        isinstance(x, ast.JoinedStr) for x in ast.walk(n))):
                t = template_of(n)
                if t is not None:
                    self.check_template(t, getattr(n, "lineno", lineno), role)
                    # templates nested inside holes (e.g. ' | '.join(f'0b0{pattern}' ...)) carry no raw text classes
                    continue
            if isinstance(n, ast.Call) and isinstance(n.func, ast.Call) and dotted(n.func.func) in ("self", "lhs", "self.lhs") \
                    and len(n.func.args) == 1 and len(n.args) == 1:
                # child gen call: self(X)(<template>) -- the child masks its argument to len(X)
                stack.append((n.args[0], "gen-arg:" + unparse(n.func.args[0])))
                continue
            for ch in ast.iter_child_nodes(n):
                stack.append((ch, role))


def analyse_function(model, ref, arg_params=("arg",), val_params=()):
    mod = model.mod(PYRTL)
    fn = model.func_view(f"{PYRTL}::{ref}", depth=3)
    facts, errors = [], []
    FuncTaint(mod, fn, ref, facts, errors, arg_params, val_params).run()
    return facts, errors


def report(ctx, rule, facts, errors, known_bad=None):
    for e in errors:
        raise AnalysisError(e)
    for f in facts:
        if f.cls not in (RAW, ARG, VAL):
            continue
        where = f"{PYRTL}:{f.lineno}"
        if f.verdict == "ok":
            ctx.ok(rule, f.construct, f"{f.cls} via {f.idiom}: {f.detail} in {f.skeleton!r}", where)
        else:
            ctx.viol(rule, f.construct, f"{f.idiom}: {f.detail}; template {f.skeleton!r}", where)
